#!/bin/bash
# usage: tools/seedcheck.sh <dir with patch.diff> <Cxx> [more Cxx..]   -- runs checks against /repo HEAD + patch in a scratch worktree
D="$1"; shift
W=/tmp/vc_$$
git -C /repo worktree add -q --detach "$W" HEAD || exit 3
trap 'git -C /repo worktree remove --force "$W" >/dev/null 2>&1; rm -rf /tmp/vc_ev_$$' EXIT
(cd "$W" && git apply "$D/patch.diff") || { echo "apply failed"; exit 4; }
for c in "$@"; do
  (cd /verif && SWEETPEA_REPO="$W" VERIF_EVIDENCE_DIR=/tmp/vc_ev_$$ ./check $c quick 2>&1 | grep -v "^note:\|conda" | cut -c1-600 | head -${LINES_MAX:-12}); echo "exit=${PIPESTATUS[0]}"
done
