#!/bin/bash
# usage: tools/keep_round.sh <round> <out dir (e.g. /tmp/sw3_out)> <Cxx>...   -- keeps confirmed changes as <Cxx>-r<round>m<k> with their first-sight result
R="$1"; O="$2"; shift; shift
for P in "$@"; do for m in "$O"/$P/m*; do [ -f "$m/verify.json" ] || { echo "no verify $m"; continue; }; k=$(basename $m); /venv/bin/python /verif/tools/keep_seed.py "$m" "$P-r$R$k" 2>&1 | tail -1 | cut -c1-160; done; done
/venv/bin/python - "$R" <<'PY'
import json, glob, sys
rnd = int(sys.argv[1])
for m in glob.glob('/verif/seeded/*-r%dm*/meta.json' % rnd):
    d = json.load(open(m))
    if 'first_seen_result' in d:
        continue
    d['round'] = rnd
    v = d['confirmed_by_main_session']
    d['first_seen_result'] = {'own_check_exit': v['own_check_exit'], 'checks_fired': v['checks_fired'], 'verif_head': v['verif_head']}
    json.dump(d, open(m, 'w'), indent=1)
PY
