#!/bin/bash
# usage: tools/seedtest.sh <mutation dir with patch.diff + demo.py> <property id> [--no-suite]
# Confirms a seeded change in a scratch worktree of /repo (outside /repo and /verif), runs every check against it
# and writes <dir>/verify.json.
D="$1"; P="$2"; NOSUITE="$3"
W=/tmp/vw_$$
git -C /repo worktree add -q --detach "$W" HEAD || exit 3
trap 'git -C /repo worktree remove --force "$W" >/dev/null 2>&1; rm -rf /tmp/seed_ev_$$ /tmp/seed_*_$$.log' EXIT
cd "$W"
if ! git apply --check "$D/patch.diff" 2>/dev/null; then echo "RESULT $D apply=FAILED"; exit 4; fi
PYTHONPATH="$W" timeout 600 /venv/bin/python -W ignore "$D/demo.py" >/tmp/seed_clean_$$.log 2>&1; c0=$?
git apply "$D/patch.diff"
PYTHONPATH="$W" timeout 600 /venv/bin/python -W ignore "$D/demo.py" >/tmp/seed_mut_$$.log 2>&1; c1=$?
suite="skipped"
if [ "$NOSUITE" != "--no-suite" ]; then
  PYTHONPATH="$W" /venv/bin/python -m pytest -q -p no:cacheprovider -n 6 >/tmp/seed_suite_$$.log 2>&1
  suite=$(tail -1 /tmp/seed_suite_$$.log | tr -d '\n')
fi
fired=""; prc=none
: > /tmp/seed_check_$$.log
mkdir -p /tmp/seed_par_$$
# all checks, eight at a time
(cd /verif/sa/rules && ls C??.py | sed 's/.py//') | xargs -P 8 -I{} sh -c 'cd /verif && SWEETPEA_REPO="'"$W"'" VERIF_EVIDENCE_DIR=/tmp/seed_ev_'"$$"' ./check {} quick > /tmp/seed_par_'"$$"'/{}.out 2>/dev/null; echo $? > /tmp/seed_par_'"$$"'/{}.rc'
for c in $(cd /verif/sa/rules && ls C??.py | sed 's/.py//'); do
  rc=$(cat /tmp/seed_par_$$/$c.rc 2>/dev/null || echo 3)
  if [ "$rc" -ne 0 ]; then fired="$fired $c:$rc"; grep -v "^note:" /tmp/seed_par_$$/$c.out | head -8 >> /tmp/seed_check_$$.log; fi
  if [ "$c" = "$P" ]; then prc=$rc; fi
done
rm -rf /tmp/seed_par_$$
echo "RESULT $D demo_clean=$c0 demo_mutated=$c1 suite=[$suite] check_$P=$prc fired=[$fired]"
sed 's/^/    | /' /tmp/seed_check_$$.log | cut -c1-420
/venv/bin/python - "$D" "$P" "$c0" "$c1" "$suite" "$prc" "$fired" "$(git -C /repo rev-parse --short HEAD)" "$(git -C /verif rev-parse --short HEAD)" <<'PY'
import json, sys
d, p, c0, c1, suite, prc, fired, rh, vh = sys.argv[1:]
rep = open('/tmp/seed_check_%s.log' % __import__('os').getppid()).read() if False else ''
json.dump({"property": p, "repo_head": rh, "verif_head": vh,
           "ran": ["git worktree add (scratch, outside /repo and /verif); demo on the clean tree; git apply patch.diff; demo again; "
                   "PYTHONPATH=<worktree> /venv/bin/python -m pytest -q -p no:cacheprovider -n 6; "
                   "SWEETPEA_REPO=<worktree> ./check <every claimed property> quick; worktree removed"],
           "demo_exit_clean": int(c0), "demo_exit_with_patch": int(c1), "suite_with_patch": suite,
           "own_check_exit": prc, "checks_fired": fired.split()}, open(d + "/verify.json", "w"), indent=1)
PY
