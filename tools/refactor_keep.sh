#!/bin/bash
# usage: tools/refactor_keep.sh <dir with patch.diff (+meta.json)> <name>
# Confirms that the unedited suite passes with the refactoring applied (scratch worktree of /repo HEAD, removed afterwards)
# and keeps it as /verif/refactors/<name>/.
D="$1"; N="$2"
W=/tmp/rw_$$
git -C /repo worktree add -q --detach "$W" HEAD || exit 3
trap 'git -C /repo worktree remove --force "$W" >/dev/null 2>&1' EXIT
cd "$W"
if ! git apply "$D/patch.diff" 2>/dev/null; then echo "REFACTOR $N apply=FAILED"; exit 4; fi
PYTHONPATH="$W" /venv/bin/python -m pytest -q -p no:cacheprovider -n 4 >/tmp/rw_suite_$$.log 2>&1
suite=$(tail -1 /tmp/rw_suite_$$.log | tr -d '\n'); rm -f /tmp/rw_suite_$$.log
case "$suite" in
  *failed*|*error*) echo "REFACTOR $N suite=[$suite] NOT KEPT"; exit 5;;
  *" passed"*) ;;
  *) echo "REFACTOR $N suite=[$suite] NOT KEPT"; exit 5;;
esac
mkdir -p /verif/refactors/$N
cp "$D/patch.diff" /verif/refactors/$N/patch.diff
/venv/bin/python - "$D" "$N" "$suite" "$(git -C /repo rev-parse --short HEAD)" <<'PY'
import json, sys, os
d, n, suite, head = sys.argv[1:]
try:
    meta = json.load(open(os.path.join(d, "meta.json")))
except Exception as e:
    meta = {"summary": "(meta unreadable: %s)" % e}
meta["confirmed_by_main_session"] = {"suite_with_patch": suite, "repo_head": head,
    "ran": "git worktree add (scratch); git apply patch.diff; PYTHONPATH=<worktree> /venv/bin/python -m pytest -q -p no:cacheprovider -n 4; worktree removed"}
json.dump(meta, open("/verif/refactors/%s/meta.json" % n, "w"), indent=1)
PY
echo "REFACTOR $N suite=[$suite] kept"
