"""Runs every claimed check (quick) against /repo HEAD + each refactoring under /verif/refactors; writes refactors/RESULTS.json."""
import json, os, subprocess, sys, tempfile, shutil
from concurrent.futures import ThreadPoolExecutor
V = os.path.dirname(os.path.dirname(os.path.abspath(__file__)))
R = os.path.join(V, "refactors")


def run_one(name):
    d = os.path.join(R, name)
    w = tempfile.mkdtemp(prefix="vr_"); os.rmdir(w)
    ev = tempfile.mkdtemp(prefix="vr_ev_")
    try:
        subprocess.run(["git", "-C", "/repo", "worktree", "add", "-q", "--detach", w, "HEAD"], check=True, capture_output=True)
        r = subprocess.run(["git", "apply", os.path.join(d, "patch.diff")], cwd=w, capture_output=True, text=True)
        if r.returncode != 0:
            return name, {"apply": "failed"}
        man = json.load(open(os.path.join(V, "MANIFEST.json")))
        alarm, und, rep = [], [], {}
        for c in man["checks"]:
            pid = c["property_id"]
            env = dict(os.environ, SWEETPEA_REPO=w, VERIF_EVIDENCE_DIR=ev)
            p = subprocess.run([os.path.join(V, "check"), pid, "quick"], cwd=V, env=env, capture_output=True, text=True)
            if p.returncode == 1:
                alarm.append(pid)
            elif p.returncode != 0:
                und.append(pid)
            if p.returncode != 0:
                rep[pid] = [l.strip()[:400] for l in p.stdout.splitlines() if l.startswith("  ") or l.startswith("ANALYSIS-ERROR")][:3]
        return name, {"apply": "ok", "alarm": alarm, "undecided": und, "report": rep}
    finally:
        subprocess.run(["git", "-C", "/repo", "worktree", "remove", "--force", w], capture_output=True)
        shutil.rmtree(ev, ignore_errors=True)


def main():
    names = sorted(n for n in os.listdir(R) if os.path.isfile(os.path.join(R, n, "patch.diff")))
    if len(sys.argv) > 1:
        names = [n for n in names if any(n.startswith(a) for a in sys.argv[1:])]
    path = os.path.join(R, "RESULTS.json")
    out = json.load(open(path)) if os.path.exists(path) and len(sys.argv) > 1 else {}
    with ThreadPoolExecutor(8) as ex:
        for name, r in ex.map(run_one, names):
            try:
                r["summary"] = json.load(open(os.path.join(R, name, "meta.json"))).get("summary", "")
            except Exception:
                r["summary"] = ""
            out[name] = r
            print("%-8s alarm=%s undecided=%s" % (name, ",".join(r.get("alarm", [])) or "-", ",".join(r.get("undecided", [])) or "-"))
            for k, v in r.get("report", {}).items():
                for l in v[:2]:
                    print("      %s: %s" % (k, l[:260]))
    json.dump(out, open(path, "w"), indent=1, sort_keys=True)


if __name__ == "__main__":
    main()
