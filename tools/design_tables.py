"""Rewrites the generated tables of DESIGN.md (between the AUTOGEN markers) from seeded/MATRIX.json, seeded/*/meta.json,
refactors/RESULTS.json and known_findings.json."""
import json, os, re
V = os.path.dirname(os.path.dirname(os.path.abspath(__file__)))


def seeded_table():
    mp = os.path.join(V, "seeded", "MATRIX.json")
    if not os.path.exists(mp):
        return "(no matrix yet)\n"
    M = json.load(open(mp))
    rows = ["| seeded change | breaks | what it is (needs to manifest) | own check | other checks that also report it |", "|---|---|---|---|---|"]
    for name in sorted(M):
        meta = json.load(open(os.path.join(V, "seeded", name, "meta.json")))
        summ = " ".join(str(meta.get("summary", "")).split())
        need = " ".join(str(meta.get("needs_to_manifest", "")).split())
        txt = (summ[:230] + ("..." if len(summ) > 230 else "")) + (" -- needs: " + need[:170] + ("..." if len(need) > 170 else "") if need else "")
        r = M[name]
        own = r.get("own_check")
        fired = r.get("fired", {})
        ownrules = ", ".join(sorted({m.group(1) for x in fired.get(r["property"], {}).get("report", []) for m in [re.search(r"rule ([A-Za-z0-9_.\-]+):", x)] if m}))
        others = ", ".join(sorted(k for k, v in fired.items() if k != r["property"] and v["exit"] == 1))
        if meta.get("not_detected_by_design"):
            own = "silent (stated miss)"
        rows.append("| %s | %s | %s | %s%s | %s |" % (name, r["property"], txt.replace("|", "/"), own, (" (" + ownrules + ")") if ownrules else "", others))
    n = len(M)
    det = sum(1 for r in M.values() if r.get("own_check") == "VIOLATION")
    anyc = sum(1 for r in M.values() if any(v["exit"] == 1 for v in r.get("fired", {}).values()))
    head = "%d confirmed seeded changes; %d reported as a VIOLATION by the check of the property they were written against, %d by at least one check.\n\n" % (n, det, anyc)
    return head + "\n".join(rows) + "\n"


def refactor_table():
    rp = os.path.join(V, "refactors", "RESULTS.json")
    if not os.path.exists(rp):
        return "(no refactoring results yet)\n"
    R = json.load(open(rp))
    rows = ["| refactoring | what | checks that raised an alarm (exit 1) | checks that could not decide (exit 2) |", "|---|---|---|---|"]
    for name in sorted(R):
        r = R[name]
        rows.append("| %s | %s | %s | %s |" % (name, " ".join(r.get("summary", "").split())[:200].replace("|", "/"), ", ".join(r.get("alarm", [])) or "none", ", ".join(r.get("undecided", [])) or "none"))
    n = len(R)
    clean = sum(1 for r in R.values() if not r.get("alarm") and not r.get("undecided"))
    return "%d behaviour-preserving refactorings; %d leave all %d checks silent.\n\n" % (n, clean, 27) + "\n".join(rows) + "\n"


def known_table():
    K = json.load(open(os.path.join(V, "known_findings.json")))
    rows = ["| property | rule | what fails | witness |", "|---|---|---|---|"]
    for f in K["findings"]:
        rows.append("| %s | %s | %s | %s |" % (f["property"], f["rule"], " ".join(f["what"].split()).replace("|", "/"), " ".join(f["witness"].split())[:400].replace("|", "/")))
    fx = "\n".join("* " + x for x in K["fixed"])
    return "\n".join(rows) + "\n\nFixed (one `fix:` commit each in /repo; the entry suppresses nothing):\n\n" + fx + "\n"


def main():
    p = os.path.join(V, "DESIGN.md")
    s = open(p).read()
    for tag, fn in (("SEEDED", seeded_table), ("REFACTORS", refactor_table), ("KNOWN", known_table)):
        a, b = "<!-- AUTOGEN:%s:BEGIN -->" % tag, "<!-- AUTOGEN:%s:END -->" % tag
        if a in s and b in s:
            i, j = s.index(a) + len(a), s.index(b)
            s = s[:i] + "\n" + fn() + s[j:]
    open(p, "w").write(s)
    print("DESIGN.md tables regenerated")


if __name__ == "__main__":
    main()
