"""Rewrites the generated tables of DESIGN.md (between the AUTOGEN markers) from seeded/MATRIX.json, seeded/*/meta.json,
refactors/RESULTS.json and known_findings.json."""
import json, os, re
V = os.path.dirname(os.path.dirname(os.path.abspath(__file__)))


def seeded_table():
    mp = os.path.join(V, "seeded", "MATRIX.json")
    if not os.path.exists(mp):
        return "(no matrix yet)\n"
    M = json.load(open(mp))
    rows = ["| seeded change | breaks | what it is (needs to manifest) | own check | other checks that also report it |", "|---|---|---|---|---|"]
    for name in sorted(M):
        meta = json.load(open(os.path.join(V, "seeded", name, "meta.json")))
        summ = " ".join(str(meta.get("summary", "")).split())
        need = " ".join(str(meta.get("needs_to_manifest", "")).split())
        txt = (summ[:230] + ("..." if len(summ) > 230 else "")) + (" -- needs: " + need[:170] + ("..." if len(need) > 170 else "") if need else "")
        r = M[name]
        own = r.get("own_check")
        fired = r.get("fired", {})
        ownrules = ", ".join(sorted({m.group(1) for x in fired.get(r["property"], {}).get("report", []) for m in [re.search(r"rule ([A-Za-z0-9_.\-]+):", x)] if m}))
        others = ", ".join(sorted(k for k, v in fired.items() if k != r["property"] and v["exit"] == 1))
        if meta.get("not_detected_by_design"):
            own = "silent (stated miss)"
        rows.append("| %s | %s | %s | %s%s | %s |" % (name, r["property"], txt.replace("|", "/"), own, (" (" + ownrules + ")") if ownrules else "", others))
    n = len(M)
    det = sum(1 for r in M.values() if r.get("own_check") == "VIOLATION")
    anyc = sum(1 for r in M.values() if any(v["exit"] == 1 for v in r.get("fired", {}).values()))
    head = "%d confirmed seeded changes; %d reported as a VIOLATION by the check of the property they were written against, %d by at least one check.\n\n" % (n, det, anyc)
    return head + "\n".join(rows) + "\n"


def refactor_table():
    rp = os.path.join(V, "refactors", "RESULTS.json")
    if not os.path.exists(rp):
        return "(no refactoring results yet)\n"
    R = json.load(open(rp))
    rows = ["| refactoring | what | checks that raised an alarm (exit 1) | checks that could not decide (exit 2) |", "|---|---|---|---|"]
    for name in sorted(R):
        r = R[name]
        rows.append("| %s | %s | %s | %s |" % (name, " ".join(r.get("summary", "").split())[:200].replace("|", "/"), ", ".join(r.get("alarm", [])) or "none", ", ".join(r.get("undecided", [])) or "none"))
    n = len(R)
    clean = sum(1 for r in R.values() if not r.get("alarm") and not r.get("undecided"))
    return "%d behaviour-preserving refactorings; %d leave all %d checks silent.\n\n" % (n, clean, 27) + "\n".join(rows) + "\n"


def known_table():
    K = json.load(open(os.path.join(V, "known_findings.json")))
    rows = ["| property | rule | what fails | witness |", "|---|---|---|---|"]
    for f in K["findings"]:
        rows.append("| %s | %s | %s | %s |" % (f["property"], f["rule"], " ".join(f["what"].split()).replace("|", "/"), " ".join(f["witness"].split())[:400].replace("|", "/")))
    fx = "\n".join("* " + x for x in K["fixed"])
    return "\n".join(rows) + "\n\nFixed (one `fix:` commit each in /repo; the entry suppresses nothing):\n\n" + fx + "\n"


def round_table(rnd):
    """first-seen results of the unseen changes of one round: what the checks said before any rule was touched for them"""
    rows = ["| change | breaks | own check at first sight | other checks that reported it at first sight | own check now |", "|---|---|---|---|---|"]
    M = {}
    mp = os.path.join(V, "seeded", "MATRIX.json")
    if os.path.exists(mp):
        M = json.load(open(mp))
    n = v = e2 = oth = now_v = 0
    for name in sorted(os.listdir(os.path.join(V, "seeded"))):
        mf = os.path.join(V, "seeded", name, "meta.json")
        if not os.path.isfile(mf):
            continue
        meta = json.load(open(mf))
        if meta.get("round") != rnd:
            continue
        fs = meta.get("first_seen_result", {})
        own = str(fs.get("own_check_exit"))
        prop = meta.get("breaks_property")
        others = sorted(x.split(":")[0] for x in fs.get("checks_fired", []) if x.endswith(":1") and not x.startswith(prop + ":"))
        if meta.get("first_seen_note"):
            others = []
        n += 1
        v += own == "1"
        e2 += own == "2"
        oth += own != "1" and bool(others)
        now = M.get(name, {}).get("own_check", "?")
        if meta.get("not_detected_by_design") and now != "VIOLATION":
            now = "silent (stated miss)"
        now_v += now == "VIOLATION"
        rows.append("| %s | %s | %s | %s | %s |" % (name, prop, {"1": "VIOLATION", "2": "ANALYSIS-ERROR (exit 2)", "0": "silent"}.get(own, own), ", ".join(others) or "-", now))
    head = ("%d unseen changes; at first sight the targeted check reported %d as a VIOLATION (%.0f%%), ended %d as ANALYSIS-ERROR (exit 2, fail closed) and was silent on %d "
            "(%d of the non-reports were reported by another property's check). After the strengthening described above the targeted check reports %d.\n\n" % (
                n, v, 100.0 * v / max(n, 1), e2, n - v - e2, oth, now_v))
    return head + "\n".join(rows) + "\n"


def main():
    p = os.path.join(V, "DESIGN.md")
    s = open(p).read()
    for tag, fn in (("SEEDED", seeded_table), ("REFACTORS", refactor_table), ("KNOWN", known_table), ("ROUND2", lambda: round_table(2)), ("ROUND3", lambda: round_table(3)), ("ROUND4", lambda: round_table(4)), ("ROUND5", lambda: round_table(5))):
        a, b = "<!-- AUTOGEN:%s:BEGIN -->" % tag, "<!-- AUTOGEN:%s:END -->" % tag
        if a in s and b in s:
            i, j = s.index(a) + len(a), s.index(b)
            s = s[:i] + "\n" + fn() + s[j:]
    open(p, "w").write(s)
    print("DESIGN.md tables regenerated")


if __name__ == "__main__":
    main()
