"""usage: keep_seed.py <mutation dir> <name>   -- copies a confirmed seeded change into /verif/seeded/<name>/"""
import json, os, shutil, sys
src, name = sys.argv[1], sys.argv[2]
v = json.load(open(os.path.join(src, "verify.json")))
ok = v["demo_exit_clean"] == 0 and v["demo_exit_with_patch"] != 0 and " passed" in v["suite_with_patch"] and "failed" not in v["suite_with_patch"] and "error" not in v["suite_with_patch"]
if not ok:
    print("NOT CONFIRMED, not kept:", name, v)
    sys.exit(1)
dst = os.path.join("/verif/seeded", name)
os.makedirs(dst, exist_ok=True)
for fn in ("patch.diff", "demo.py"):
    shutil.copy(os.path.join(src, fn), os.path.join(dst, fn))
meta = {}
try:
    meta = json.load(open(os.path.join(src, "meta.json")))
except Exception as e:
    meta = {"summary": "(agent meta.json unreadable: %s)" % e}
meta["breaks_property"] = v["property"]
meta["confirmed_by_main_session"] = v
json.dump(meta, open(os.path.join(dst, "meta.json"), "w"), indent=1)
print("kept", dst, "own check exit", v["own_check_exit"], "fired", v["checks_fired"])
