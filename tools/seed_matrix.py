"""Runs every claimed check (quick) against every seeded change under /verif/seeded and writes seeded/MATRIX.json.
Each change is applied in a scratch git worktree of /repo HEAD outside /repo and /verif, removed afterwards."""
import json, os, subprocess, sys, tempfile, shutil
from concurrent.futures import ThreadPoolExecutor

VERIF = os.path.dirname(os.path.dirname(os.path.abspath(__file__)))
SEEDED = os.path.join(VERIF, "seeded")


def run_one(name):
    d = os.path.join(SEEDED, name)
    w = tempfile.mkdtemp(prefix="vm_")
    os.rmdir(w)
    ev = tempfile.mkdtemp(prefix="vm_ev_")
    try:
        subprocess.run(["git", "-C", "/repo", "worktree", "add", "-q", "--detach", w, "HEAD"], check=True, capture_output=True)
        r = subprocess.run(["git", "apply", os.path.join(d, "patch.diff")], cwd=w, capture_output=True, text=True)
        if r.returncode != 0:
            return name, {"apply": "failed: " + r.stderr[:200]}
        man = json.load(open(os.path.join(VERIF, "MANIFEST.json")))
        res = {}
        for c in man["checks"]:
            pid = c["property_id"]
            env = dict(os.environ, SWEETPEA_REPO=w, VERIF_EVIDENCE_DIR=ev)
            p = subprocess.run([os.path.join(VERIF, "check"), pid, "quick"], cwd=VERIF, env=env, capture_output=True, text=True)
            if p.returncode != 0:
                lines = [l for l in p.stdout.splitlines() if l.startswith("  ") or l.startswith("ANALYSIS-ERROR")]
                res[pid] = {"exit": p.returncode, "report": [l.strip()[:300] for l in lines[:4]]}
        return name, {"apply": "ok", "fired": res}
    finally:
        subprocess.run(["git", "-C", "/repo", "worktree", "remove", "--force", w], capture_output=True)
        shutil.rmtree(ev, ignore_errors=True)


def main():
    names = sorted(n for n in os.listdir(SEEDED) if os.path.isfile(os.path.join(SEEDED, n, "patch.diff")))
    if len(sys.argv) > 1:
        names = [n for n in names if any(n.startswith(a) for a in sys.argv[1:])]
    out = {}
    path = os.path.join(SEEDED, "MATRIX.json")
    if os.path.exists(path) and len(sys.argv) > 1:
        out = json.load(open(path))
    with ThreadPoolExecutor(8) as ex:
        for name, r in ex.map(run_one, names):
            meta = json.load(open(os.path.join(SEEDED, name, "meta.json")))
            prop = meta.get("breaks_property")
            r["property"] = prop
            own = r.get("fired", {}).get(prop, {}).get("exit")
            r["own_check"] = {1: "VIOLATION", 2: "ANALYSIS-ERROR", None: "silent"}.get(own, str(own))
            if r.get("apply") != "ok":
                r["own_check"] = "STALE-PATCH"
            out[name] = r
            others = sorted(k for k, v in r.get("fired", {}).items() if k != prop and v["exit"] == 1)
            print("%-8s %-6s own=%-14s others=%s" % (name, prop, r["own_check"], ",".join(others)))
    json.dump(out, open(path, "w"), indent=1, sort_keys=True)


if __name__ == "__main__":
    main()
