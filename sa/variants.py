"""Source variants computed in memory (no file is written): used for positive controls on every run and for
the checker self-validation of the thorough tier."""
from __future__ import annotations

import ast
from typing import Dict, List, Optional

from .model import AnalysisError


class StaleVariant(Exception):
    """The edit's anchor is not present in the current source."""


def _find(tree: ast.Module, qual: str):
    parts = qual.split(".")
    body = tree.body
    node = None
    for p in parts:
        found = None
        for st in body:
            if isinstance(st, (ast.FunctionDef, ast.ClassDef, ast.AsyncFunctionDef)) and st.name == p:
                found = st
                break
        if found is None:
            # search nested statements (defs inside if/for)
            for st in body:
                for n in ast.walk(st):
                    if isinstance(n, (ast.FunctionDef, ast.ClassDef)) and n.name == p:
                        found = n
                        break
                if found:
                    break
        if found is None:
            raise StaleVariant("no '%s' in %s" % (p, qual))
        node = found
        body = found.body
    return node


def insert_first(sources: Dict[str, str], relpath: str, qual: str, stmt_src: str) -> Dict[str, str]:
    """Insert statements at the start of a function body (after the docstring)."""
    if relpath not in sources:
        raise StaleVariant("no file " + relpath)
    tree = ast.parse(sources[relpath])
    fn = _find(tree, qual)
    new = ast.parse(stmt_src).body
    i = 1 if (fn.body and isinstance(fn.body[0], ast.Expr) and isinstance(fn.body[0].value, ast.Constant)
              and isinstance(fn.body[0].value.value, str)) else 0
    fn.body[i:i] = new
    ast.fix_missing_locations(tree)
    out = dict(sources)
    out[relpath] = ast.unparse(tree)
    return out


def replace_text(sources: Dict[str, str], relpath: str, old: str, new: str, count: int = 1) -> Dict[str, str]:
    if relpath not in sources:
        raise StaleVariant("no file " + relpath)
    s = sources[relpath]
    if s.count(old) < 1 or (count and s.count(old) != count):
        raise StaleVariant("anchor text occurs %d times (expected %d) in %s: %r" % (s.count(old), count, relpath, old[:60]))
    out = dict(sources)
    out[relpath] = s.replace(old, new)
    try:
        ast.parse(out[relpath])
    except SyntaxError as e:
        raise StaleVariant("variant does not parse: %s" % e)
    return out


def in_function(sources: Dict[str, str], relpath: str, qual: str, old: str, new: str, count: int = 1) -> Dict[str, str]:
    """Text replacement restricted to the source segment of one function (by qualified name)."""
    if relpath not in sources:
        raise StaleVariant("no file " + relpath)
    src = sources[relpath]
    tree = ast.parse(src)
    fn = _find(tree, qual)
    lines = src.split("\n")
    start = fn.lineno - 1
    if getattr(fn, "decorator_list", None):
        start = min(d.lineno for d in fn.decorator_list) - 1
    end = fn.end_lineno
    seg = "\n".join(lines[start:end])
    n = seg.count(old)
    if n < 1 or (count and n != count):
        raise StaleVariant("anchor text occurs %d times (expected %d) in %s %s: %r" % (n, count, relpath, qual, old[:60]))
    seg2 = seg.replace(old, new)
    out = dict(sources)
    out[relpath] = "\n".join(lines[:start] + seg2.split("\n") + lines[end:])
    try:
        ast.parse(out[relpath])
    except SyntaxError as e:
        raise StaleVariant("variant does not parse: %s" % e)
    return out
