"""Fact extraction: the normal forms of the returns / assignments / tests / loop iterables of one function,
so that a rule can state what it expects as a small table."""
from __future__ import annotations

import ast
from typing import List, Optional

from .astutil import dotted
from .siblings import Roles


class Facts(Roles):
    def conds(self, stmt) -> List[str]:
        """canonical path condition of a statement: enclosing tests and earlier early-exit guards, negations pushed in,
        comparisons oriented (independent of if/else order and of the guard-clause vs nested form)"""
        from .cfg import path_guards
        from .sym import cond_literals
        if not hasattr(self, "_pg"):
            self._pg = path_guards(self.f.node)
        out = []
        for t, pol in self._pg.get(id(stmt), []):
            holder = self._holder(t)
            out += cond_literals(t, pol, self.snaps.get(id(holder)) if holder is not None else None)
        return sorted(set(out))

    def _holder(self, test):
        for st in self.stmts:
            if getattr(st, "test", None) is test:
                # a loop test is evaluated in the environment of the loop body
                if isinstance(st, ast.While) and st.body:
                    return st.body[0]
                return st
        return None

    def cases(self) -> List[tuple]:
        """(path condition, normal form) of every `return`, as a sorted list"""
        out = []
        for s in self.stmts:
            if isinstance(s, ast.Return):
                out.append((tuple(self.conds(s)), str(self.at(s, s.value)) if s.value is not None else "None"))
        return sorted(out)

    def returns(self) -> List[str]:
        return [str(self.at(s, s.value)) for s in self.stmts if isinstance(s, ast.Return) and s.value is not None]

    def assigns(self, target: str) -> List[str]:
        out = []
        for s in self.stmts:
            if isinstance(s, ast.Assign):
                for t in s.targets:
                    if _tname(t) == target:
                        out.append(str(self.at(s, s.value)))
            elif isinstance(s, ast.AnnAssign) and s.value is not None and _tname(s.target) == target:
                out.append(str(self.at(s, s.value)))
        return out

    def augs(self, target: str) -> List[str]:
        out = []
        for s in self.stmts:
            if isinstance(s, ast.AugAssign) and _tname(s.target) == target:
                out.append("%s %s" % (_OPS.get(type(s.op), "?"), self.at(s, s.value)))
        return out

    def tests(self) -> List[str]:
        out = []
        for s in self.stmts:
            if isinstance(s, ast.If):
                out.append(str(self.at(s, s.test)))
            elif isinstance(s, ast.While):
                # a loop test is evaluated with the loop-carried names as themselves (environment of the loop body)
                out.append(str(self.at(s.body[0], s.test)) if s.body else str(self.at(s, s.test)))
        return out

    def iters(self) -> List[str]:
        return [str(self.at(s, s.iter)) for s in self.stmts if isinstance(s, ast.For)]

    def exprs(self) -> List[str]:
        return [str(self.at(s, s.value)) for s in self.stmts if isinstance(s, ast.Expr) and not (
            isinstance(s.value, ast.Constant) and isinstance(s.value.value, str))]

    def raises(self) -> List[str]:
        return [ast.unparse(s) for s in self.stmts if isinstance(s, ast.Raise)]


_OPS = {ast.Add: "+=", ast.Sub: "-=", ast.Mult: "*=", ast.FloorDiv: "//=", ast.Mod: "%=", ast.BitAnd: "&=", ast.BitOr: "|="}


def _tname(t: ast.AST) -> Optional[str]:
    d = dotted(t)
    if d:
        return d
    if isinstance(t, ast.Subscript):
        b = dotted(t.value)
        if b:
            return b + "[]"
    return None


def fact(ctx, rule, f, what, got, want, doc):
    """got == want (both any comparable, typically lists of normal-form strings)"""
    if got != want:
        ctx.extra.setdefault("_fact_mismatch", []).append({"rule": rule, "where": getattr(f, "fq", str(f)), "got": got, "want": want})
    return ctx.check(got == want, rule, f, "%s: %s" % (what, got), doc,
                     "%s -- found %s, expected %s" % (doc, got, want))
