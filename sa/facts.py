"""Fact extraction: the normal forms of the returns / assignments / tests / loop iterables of one function,
so that a rule can state what it expects as a small table."""
from __future__ import annotations

import ast
from typing import List, Optional

from .astutil import dotted
from .siblings import Roles


class Facts(Roles):
    def conds(self, stmt) -> List[str]:
        """canonical path condition of a statement: enclosing tests and earlier early-exit guards, negations pushed in,
        comparisons oriented (independent of if/else order and of the guard-clause vs nested form)"""
        from .cfg import path_guards
        from .sym import cond_literals
        if not hasattr(self, "_pg"):
            self._pg = path_guards(self.f.node)
        out = []
        for t, pol in self._pg.get(id(stmt), []):
            holder = self._holder(t)
            out += cond_literals(t, pol, self.snaps.get(id(holder)) if holder is not None else None)
        return sorted(set(out))

    def _holder(self, test):
        for st in self.stmts:
            if getattr(st, "test", None) is test:
                # a loop test is evaluated in the environment of the loop body
                if isinstance(st, ast.While) and st.body:
                    return st.body[0]
                return st
        return None

    def cases(self) -> List[tuple]:
        """(path condition, normal form) of every `return`, as a sorted list"""
        from .sym import cond_literals
        out = []
        rets = [s for s in self.stmts if isinstance(s, ast.Return)]
        has_bool_const = any(isinstance(s.value, ast.Constant) and isinstance(s.value.value, bool) for s in rets)
        for s in rets:
            v = s.value
            shaped = isinstance(v, (ast.Compare, ast.BoolOp)) or (isinstance(v, ast.UnaryOp) and isinstance(v.op, ast.Not)) or \
                (isinstance(v, ast.Call) and dotted(v.func) in ("any", "all", "isinstance", "bool"))
            if has_bool_const and shaped:
                # `return <test>` next to `return True / False`: the same function written as the two cases of the test
                env = self.snaps.get(id(s))
                base = self.conds(s)
                out.append((tuple(sorted(set(base + cond_literals(v, True, env)))), "True"))
                out.append((tuple(sorted(set(base + cond_literals(v, False, env)))), "False"))
                continue
            out.append((tuple(self.conds(s)), str(self.at(s, s.value)) if s.value is not None else "None"))
        return sorted(out)

    def emits(self, target: str) -> List[tuple]:
        """(path condition, 'append|extend <normal form>') of every `<target>.append(x)` / `.extend(xs)` / `target += xs`.
        An append inside a for-loop is reported as the extension by the comprehension it amounts to (path condition of the loop),
        so `for x in xs: t.append(f(x))` and `t.extend(f(x) for x in xs)` are one fact."""
        from .cfg import enclosing_loops
        loops = enclosing_loops(self.f.node)
        out = []
        for s in self.stmts:
            verb, arg = None, None
            if isinstance(s, ast.Expr) and isinstance(s.value, ast.Call) and len(s.value.args) == 1 and \
                    dotted(s.value.func) in (target + ".append", target + ".extend"):
                verb, arg = s.value.func.attr, s.value.args[0]
            elif isinstance(s, ast.AugAssign) and isinstance(s.op, ast.Add) and _tname(s.target) == target:
                verb, arg = "extend", s.value
            if verb is None:
                continue
            encl = [l for l in loops.get(id(s), []) if isinstance(l, ast.For)]
            lp = encl[-1] if encl else None
            if verb == "append" and lp is not None and loops.get(id(s), [])[-1] is lp and len(lp.body) == 1 and not lp.orelse and \
                    any(isinstance(n, ast.Name) and n.id in {x.id for x in ast.walk(lp.target) if isinstance(x, ast.Name)} for n in ast.walk(arg)):
                tests = self._tests_between(lp, s)
                if tests is not None:
                    comp = ast.ListComp(elt=arg, generators=[ast.comprehension(target=lp.target, iter=lp.iter, ifs=tests, is_async=0)])
                    ast.fix_missing_locations(comp)
                    out.append((tuple(self.conds(lp)), "extend %s" % self.at(lp, comp)))
                    continue
            if verb == "extend" and isinstance(arg, ast.GeneratorExp):
                arg = ast.ListComp(elt=arg.elt, generators=arg.generators)
                ast.fix_missing_locations(arg)
            out.append((tuple(self.conds(s)), "%s %s" % (verb, self.at(s, arg))))
        return sorted(out)

    def _tests_between(self, loop, stmt):
        """the if-tests (negated for else-branches) on the way from the loop body down to stmt; None if stmt is not reached through
        plain ifs only"""
        def find(block, acc):
            for st in block:
                if st is stmt:
                    return acc
                if isinstance(st, ast.If):
                    r = find(st.body, acc + [st.test])
                    if r is not None:
                        return r
                    r = find(st.orelse, acc + [ast.UnaryOp(op=ast.Not(), operand=st.test)])
                    if r is not None:
                        return r
            return None
        return find(loop.body, [])

    def returns(self) -> List[str]:
        return [str(self.at(s, s.value)) for s in self.stmts if isinstance(s, ast.Return) and s.value is not None]

    def assigns(self, target: str) -> List[str]:
        out = []
        for s in self.stmts:
            if isinstance(s, ast.Assign):
                for t in s.targets:
                    if _tname(t) == target:
                        out.append(str(self.at(s, s.value)))
            elif isinstance(s, ast.AnnAssign) and s.value is not None and _tname(s.target) == target:
                out.append(str(self.at(s, s.value)))
        return out

    def augs(self, target: str) -> List[str]:
        out = []
        for s in self.stmts:
            if isinstance(s, ast.AugAssign) and _tname(s.target) == target:
                out.append("%s %s" % (_OPS.get(type(s.op), "?"), self.at(s, s.value)))
        return out

    def tests(self) -> List[str]:
        out = []
        for s in self.stmts:
            if isinstance(s, ast.If):
                out.append(str(self.at(s, s.test)))
            elif isinstance(s, ast.While):
                # a loop test is evaluated with the loop-carried names as themselves (environment of the loop body)
                out.append(str(self.at(s.body[0], s.test)) if s.body else str(self.at(s, s.test)))
        return out

    def iters(self) -> List[str]:
        return [str(self.at(s, s.iter)) for s in self.stmts if isinstance(s, ast.For)]

    def exprs(self) -> List[str]:
        return [str(self.at(s, s.value)) for s in self.stmts if isinstance(s, ast.Expr) and not (
            isinstance(s.value, ast.Constant) and isinstance(s.value.value, str))]

    def raises(self) -> List[str]:
        return [ast.unparse(s) for s in self.stmts if isinstance(s, ast.Raise)]


_OPS = {ast.Add: "+=", ast.Sub: "-=", ast.Mult: "*=", ast.FloorDiv: "//=", ast.Mod: "%=", ast.BitAnd: "&=", ast.BitOr: "|="}


def canon_loopvars(f, strings):
    """rewrite the names bound by the for-loops of f (in order of appearance) to _v0, _v1, ... in the given fact strings, so that a
    fact over a loop body does not depend on what the loop variables are called"""
    import re as _r
    names = []
    for n in ast.walk(f.node):
        if isinstance(n, ast.For):
            for x in ast.walk(n.target):
                if isinstance(x, ast.Name) and x.id not in names:
                    names.append(x.id)
    out = []
    for t in strings:
        for k, nm in enumerate(names):
            t = _r.sub(r"(?<![A-Za-z0-9_.])%s(?![A-Za-z0-9_])" % _r.escape(nm), "_v%d" % k, t)
        out.append(t)
    return out


def _tname(t: ast.AST) -> Optional[str]:
    d = dotted(t)
    if d:
        return d
    if isinstance(t, ast.Subscript):
        b = dotted(t.value)
        if b:
            return b + "[]"
    return None


def fact(ctx, rule, f, what, got, want, doc):
    """got == want (both any comparable, typically lists of normal-form strings)"""
    if got != want:
        ctx.extra.setdefault("_fact_mismatch", []).append({"rule": rule, "where": getattr(f, "fq", str(f)), "got": got, "want": want})
    return ctx.check(got == want, rule, f, "%s: %s" % (what, got), doc,
                     "%s -- found %s, expected %s" % (doc, got, want))


# ---------------------------------------------------------------------------------------------
# semantic comparison of case tables: two lists of (path condition, value) describe the same function iff they agree
# under every truth assignment of the atomic conditions (complementary literals are recognised as negations)

import itertools as _it
import re as _re


def _atomise(lit: str):
    """canonical literal -> (atom, polarity)"""
    lit = lit.strip()
    if lit.startswith("not(") and lit.endswith(")"):
        a, p = _atomise(lit[4:-1])
        return a, not p
    if lit.startswith("empty(") and lit.endswith(")"):
        return "nonempty(" + lit[6:-1] + ")", False
    m = _re.match(r"^\((.*) (<=|<|==|!=) (.*)\)$", lit)
    if m:
        a, op, b = m.group(1), m.group(2), m.group(3)
        if op == "!=":
            return "(%s == %s)" % (a, b), False
        if op == "<=":           # a <= b  ==  not (b < a)
            return "(%s < %s)" % (b, a), False
        return "(%s %s %s)" % (a, op, b), True
    return lit, True


def _parse_cond(lit: str):
    """a literal of cond_literals -> DNF: list of conjunctions, each a list of (atom, polarity)"""
    lit = lit.strip()
    if lit.startswith("(") and lit.endswith(")") and " | " in lit:
        inner = lit[1:-1]
        parts, d, cur = [], 0, ""
        i = 0
        while i < len(inner):
            ch = inner[i]
            if ch in "([{":
                d += 1
            elif ch in ")]}":
                d -= 1
            if d == 0 and inner.startswith(" | ", i):
                parts.append(cur)
                cur = ""
                i += 3
                continue
            cur += ch
            i += 1
        parts.append(cur)
        if len(parts) > 1:
            return [[_atomise(x) for x in p.split("&")] for p in parts]
    return [[_atomise(lit)]]


def case_function(cases):
    """cases: list of (conds tuple, value) -> (sorted atoms, {assignment tuple: value or None})"""
    parsed = []
    atoms = set()
    for conds, val in cases:
        dnf = [[]]
        for lit in conds:
            alts = _parse_cond(lit)
            dnf = [c + a for c in dnf for a in alts]
        parsed.append((dnf, val))
        for conj in dnf:
            for a, _p in conj:
                atoms.add(a)
    atoms = sorted(atoms)
    if len(atoms) > 10:
        return atoms, None
    table = {}
    for bits in _it.product([False, True], repeat=len(atoms)):
        env = dict(zip(atoms, bits))
        vals = {val for dnf, val in parsed if any(all(env[a] == p for a, p in conj) for conj in dnf)}
        table[bits] = tuple(sorted(vals))
    return atoms, table


def same_cases(found, expected) -> bool:
    """do two case tables define the same function of their atomic conditions?"""
    fa, ft = case_function(found)
    ea, et = case_function(expected)
    if ft is None or et is None:
        return sorted(found) == sorted(expected)
    atoms = sorted(set(fa) | set(ea))
    for bits in _it.product([False, True], repeat=len(atoms)):
        env = dict(zip(atoms, bits))
        kf = tuple(env[a] for a in fa)
        ke = tuple(env[a] for a in ea)
        # infeasible combinations of arithmetic atoms (a < b and b < a ...) are not pruned: both tables are evaluated on them alike
        if ft[kf] != et[ke]:
            return False
    return True
