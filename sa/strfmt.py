"""E8 -- constant skeletons of string builders and parser predicates."""
from __future__ import annotations

import ast
from typing import List, Optional, Tuple

from .sym import Env, Poly, sym

Part = Tuple[str, object]    # ('const', str) | ('num', Poly) | ('expr', str)


def str_parts(e: ast.AST, env: Optional[Env] = None) -> List[Part]:
    """Flatten `'a' + str(x+1) + f'..{y}..'` into parts. Names with a single definition are expanded."""
    env = env or Env()
    out: List[Part] = []

    def add_const(s: str):
        if out and out[-1][0] == "const":
            out[-1] = ("const", out[-1][1] + s)
        else:
            out.append(("const", s))

    def rec(x: ast.AST):
        if isinstance(x, ast.Constant) and isinstance(x.value, str):
            add_const(x.value)
        elif isinstance(x, ast.BinOp) and isinstance(x.op, ast.Add):
            rec(x.left)
            rec(x.right)
        elif isinstance(x, ast.JoinedStr):
            for v in x.values:
                if isinstance(v, ast.Constant):
                    add_const(str(v.value))
                elif isinstance(v, ast.FormattedValue):
                    out.append(("num", sym(v.value, env)))
        elif isinstance(x, ast.Call) and isinstance(x.func, ast.Name) and x.func.id == "str" and len(x.args) == 1:
            out.append(("num", sym(x.args[0], env)))
        elif isinstance(x, ast.Name) and x.id in env.defs and x.id not in env.keep:
            rec(env.defs[x.id])
        elif isinstance(x, ast.Call) and isinstance(x.func, ast.Attribute) and x.func.attr == "format" \
                and isinstance(x.func.value, ast.Constant) and isinstance(x.func.value.value, str):
            # '{} {}'.format(a, b) with plain positional fields
            tmpl = x.func.value.value
            pieces = tmpl.split("{}")
            if len(pieces) == len(x.args) + 1:
                for i, p in enumerate(pieces):
                    if p:
                        add_const(p)
                    if i < len(x.args):
                        out.append(("num", sym(x.args[i], env)))
            else:
                out.append(("expr", str(sym(x, env))))
        else:
            out.append(("expr", str(sym(x, env))))
    rec(e)
    return out


def consts(parts: List[Part]) -> List[str]:
    return [p[1] for p in parts if p[0] == "const"]


def skeleton(parts: List[Part]) -> str:
    return "".join(p[1] if p[0] == "const" else "{%s}" % p[1] for p in parts)
