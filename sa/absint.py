"""A small abstract interpreter for the block constructors (C24).

It walks the *syntax tree* of a constructor body over an abstract domain -- opaque symbols for user data (design,
constraint lists, sub-block fields), concrete values for the finitely many enum members / None / small integers the
constructors branch on -- and returns the vector of actuals that reaches `_create`, or the refusal (raise) that is
taken.  No repository code is imported or executed; a statement or expression outside the understood fragment raises
AnalysisError (never a silent guess).

Abstract values
  Sym(name)            opaque scalar
  tuple                a list whose spine is known; elements are abstract values; an element Splice(name) stands for
                       "all elements of the opaque list `name`, in order"
  Enum(cls, member)    enum member
  None / bool / int / str   concrete
  Rec(fields)          record (a block summary): attribute -> abstract value
  AllOf(frozenset)     conjunction of opaque booleans
"""
from __future__ import annotations

import ast
from typing import Any, Dict, List, Optional, Tuple

from .model import AnalysisError


class Sym:
    def __init__(self, name):
        self.name = name

    def __eq__(self, o):
        return isinstance(o, Sym) and o.name == self.name

    def __hash__(self):
        return hash(("Sym", self.name))

    def __repr__(self):
        return "<%s>" % self.name


class Splice(Sym):
    def __repr__(self):
        return "*%s" % self.name

    def __eq__(self, o):
        return isinstance(o, Splice) and o.name == self.name

    def __hash__(self):
        return hash(("Splice", self.name))


class Enum:
    def __init__(self, cls, member):
        self.cls, self.member = cls, member

    def __eq__(self, o):
        return isinstance(o, Enum) and (o.cls, o.member) == (self.cls, self.member)

    def __hash__(self):
        return hash((self.cls, self.member))

    def __repr__(self):
        return "%s.%s" % (self.cls, self.member)


class Rec:
    def __init__(self, name, fields: Dict[str, Any], methods: Optional[Dict[str, Any]] = None):
        self.name, self.fields, self.methods = name, fields, methods or {}

    def __repr__(self):
        return "Rec(%s)" % self.name


class AllOf:
    def __init__(self, items):
        self.items = frozenset(items)

    def __eq__(self, o):
        return isinstance(o, AllOf) and o.items == self.items

    def __hash__(self):
        return hash(self.items)

    def __repr__(self):
        return "all{%s}" % ", ".join(sorted(map(repr, self.items)))


class Refusal(Exception):
    def __init__(self, text, cond="always"):
        self.text, self.cond = text, cond


class Unknown(Exception):
    """a branch condition could not be decided"""


ENUMS = {"RepeatMode", "AlignmentMode"}
IGNORED_CALLS = {"argcheck"}


class _Return(Exception):
    def __init__(self, value):
        self.value = value


# module-level helper functions of the constructors' module (name -> FunctionDef); a call to one of them is interpreted by
# running its body over the same domain (set by the rule module before the laws are evaluated)
HELPERS: Dict[str, ast.FunctionDef] = {}


class Interp:
    def __init__(self, fn_node: ast.FunctionDef, args: Dict[str, Any], where: str):
        self.fn = fn_node
        self.depth = 0
        self.env: Dict[str, Any] = dict(args)
        self.where = where
        self.create: Optional[Dict[str, Any]] = None
        self.notes: List[str] = []
        self.assumed: List[str] = []

    # ------------------------------------------------------------------ expressions
    def ev(self, e: ast.AST) -> Any:
        if isinstance(e, ast.Constant):
            return e.value
        if isinstance(e, ast.Name):
            if e.id in self.env:
                return self.env[e.id]
            if e.id in ("True", "False", "None"):
                return {"True": True, "False": False, "None": None}[e.id]
            raise AnalysisError("%s: unbound name %s" % (self.where, e.id))
        if isinstance(e, ast.Attribute):
            if isinstance(e.value, ast.Name) and e.value.id in ENUMS:
                return Enum(e.value.id, e.attr)
            v = self.ev(e.value)
            if isinstance(v, Rec):
                if e.attr in v.fields:
                    return v.fields[e.attr]
                raise AnalysisError("%s: block summary has no field '%s' (the constructor reads state the law table does not model)" % (self.where, e.attr))
            raise AnalysisError("%s: attribute %s of a non-record" % (self.where, ast.unparse(e)))
        if isinstance(e, (ast.List, ast.Tuple)):
            return tuple(self.ev(x) for x in e.elts)
        if isinstance(e, ast.BinOp) and isinstance(e.op, ast.Add):
            l, r = self.ev(e.left), self.ev(e.right)
            if isinstance(l, tuple) and isinstance(r, tuple):
                return l + r
            raise AnalysisError("%s: `+` on non-lists in %s" % (self.where, ast.unparse(e)))
        if isinstance(e, ast.BinOp) and isinstance(e.op, (ast.Sub, ast.Mult)):
            l, r = self.ev(e.left), self.ev(e.right)
            if isinstance(l, int) and isinstance(r, int):
                return l - r if isinstance(e.op, ast.Sub) else l * r
            return Sym("(%r %s %r)" % (l, "-" if isinstance(e.op, ast.Sub) else "*", r))
        if isinstance(e, ast.BoolOp):
            vals = []
            for x in e.values:
                v = self.ev(x)
                if isinstance(e.op, ast.And):
                    if v is False:
                        return False
                    vals.append(v)
                else:
                    if v is True:
                        return True
                    vals.append(v)
            sym = [v for v in vals if not isinstance(v, bool)]
            if not sym:
                return all(vals) if isinstance(e.op, ast.And) else any(vals)
            if isinstance(e.op, ast.And):
                return AllOf(sym)
            raise Unknown(ast.unparse(e))
        if isinstance(e, ast.UnaryOp) and isinstance(e.op, ast.Not):
            v = self.ev(e.operand)
            if isinstance(v, bool):
                return not v
            raise Unknown(ast.unparse(e))
        if isinstance(e, ast.Compare) and len(e.ops) == 1:
            l, r, op = self.ev(e.left), self.ev(e.comparators[0]), e.ops[0]
            if isinstance(op, (ast.Is, ast.IsNot)):
                res = (l is None) == (r is None) if (l is None or r is None) else (l == r)
                if l is None or r is None:
                    res = (l is None and r is None)
                return res if isinstance(op, ast.Is) else not res
            if isinstance(op, (ast.Eq, ast.NotEq)):
                if isinstance(l, (Enum, int, str, bool, type(None))) and isinstance(r, (Enum, int, str, bool, type(None))):
                    res = l == r
                    return res if isinstance(op, ast.Eq) else not res
                if isinstance(l, tuple) and isinstance(r, tuple) and not any(isinstance(x, Splice) for x in l + r):
                    res = l == r
                    return res if isinstance(op, ast.Eq) else not res
                raise Unknown(ast.unparse(e))
            if isinstance(op, (ast.In, ast.NotIn)):
                if isinstance(r, tuple):
                    res = l in r
                    if not res and any(isinstance(x, Splice) for x in r) and not isinstance(l, Splice):
                        raise Unknown(ast.unparse(e))
                    return res if isinstance(op, ast.In) else not res
                raise Unknown(ast.unparse(e))
            if isinstance(l, int) and isinstance(r, int):
                return {ast.Lt: l < r, ast.LtE: l <= r, ast.Gt: l > r, ast.GtE: l >= r}[type(op)]
            raise Unknown(ast.unparse(e))
        if isinstance(e, ast.ListComp) and len(e.generators) == 1 and not e.generators[0].ifs:
            g = e.generators[0]
            it = self.ev(g.iter)
            if not isinstance(it, tuple):
                raise AnalysisError("%s: comprehension over a non-list %s" % (self.where, ast.unparse(g.iter)))
            out = []
            for x in it:
                saved = dict(self.env)
                self._bind(g.target, x)
                v = self.ev(e.elt)
                self.env = saved
                if isinstance(x, Splice):
                    # element-wise image of an opaque list
                    v = Splice("[%s for %s in %s]" % (ast.unparse(e.elt), ast.unparse(g.target), x.name)) if not _is_const(v) else Splice("[%r]*len(%s)" % (v, x.name))
                out.append(v)
            return tuple(out)
        if isinstance(e, ast.ListComp) and len(e.generators) == 1 and len(e.generators[0].ifs) == 1:
            g = e.generators[0]
            it = self.ev(g.iter)
            # [c for c in crossings if len(c) > 0]: filtering of empty crossings keeps the (non-empty) symbols
            if ast.unparse(e.elt) == ast.unparse(g.target) and ast.unparse(g.ifs[0]) in ("len(%s) > 0" % ast.unparse(g.target),):
                self.assumed.append("crossings are non-empty lists")
                return it
            raise AnalysisError("%s: filtered comprehension %s" % (self.where, ast.unparse(e)))
        if isinstance(e, ast.GeneratorExp) and len(e.generators) == 1 and not e.generators[0].ifs:
            return self.ev(ast.ListComp(elt=e.elt, generators=e.generators))
        if isinstance(e, ast.Call):
            return self.call(e)
        if isinstance(e, ast.Subscript) and isinstance(e.slice, ast.Constant) and isinstance(e.slice.value, int):
            v = self.ev(e.value)
            if isinstance(v, tuple) and v and not isinstance(v[e.slice.value], Splice):
                return v[e.slice.value]
            raise AnalysisError("%s: index into an opaque list %s" % (self.where, ast.unparse(e)))
        raise AnalysisError("%s: expression outside the understood fragment: %s" % (self.where, ast.unparse(e)[:80]))

    def call(self, e: ast.Call) -> Any:
        fn = ast.unparse(e.func)
        if fn in IGNORED_CALLS:
            return None
        if fn in ("normalize_mode", "normalize_alignment"):
            v = self.ev(e.args[1])
            if isinstance(v, Enum):
                return v
            raise AnalysisError("%s: %s of a non-enum value" % (self.where, fn))
        if fn == "cast" and len(e.args) == 2:
            return self.ev(e.args[1])
        if fn == "copy.copy" and len(e.args) == 1:
            return self.ev(e.args[0])
        if fn == "len" and len(e.args) == 1:
            v = self.ev(e.args[0])
            if isinstance(v, tuple) and not any(isinstance(x, Splice) for x in v):
                return len(v)
            raise Unknown(ast.unparse(e))
        if fn == "all" and len(e.args) == 1:
            v = self.ev(e.args[0])
            if isinstance(v, tuple):
                if any(x is False for x in v):
                    return False
                sym = [x for x in v if x is not True]
                items = []
                for x in sym:
                    items.extend(x.items if isinstance(x, AllOf) else [x])
                return AllOf(items) if items else True
        if fn == "zip" and e.args and not e.keywords:
            # positional pairing of lists of the same (abstract) length; a splice pairs with the splice at the same position
            vals = [self.ev(a) for a in e.args]
            if all(isinstance(v, tuple) for v in vals) and len({len(v) for v in vals}) == 1:
                return tuple(tuple(col) for col in zip(*vals))
            raise AnalysisError("%s: zip over lists whose lengths are not known to agree: %s" % (self.where, ast.unparse(e)[:80]))
        if fn == "self._create":
            self.create = self._bind_create(e)
            return None
        if isinstance(e.func, ast.Attribute):
            recv = self.ev(e.func.value) if not (isinstance(e.func.value, ast.Name) and e.func.value.id == "self") else None
            if isinstance(recv, Rec):
                if e.func.attr in recv.methods:
                    return recv.methods[e.func.attr]
                return Sym("%s.%s()" % (recv.name, e.func.attr))
        if isinstance(e.func, ast.Name) and e.func.id in HELPERS and self.depth < 2 and not e.keywords:
            h = HELPERS[e.func.id]
            formals = [a.arg for a in h.args.posonlyargs + h.args.args]
            if len(formals) == len(e.args):
                sub = Interp(h, {p: self.ev(a) for p, a in zip(formals, e.args)}, "%s -> %s" % (self.where, h.name))
                sub.depth = self.depth + 1
                try:
                    sub.block(h.body)
                except _Return as r:
                    self.notes.extend(sub.notes)
                    self.assumed.extend(sub.assumed)
                    return r.value
                return None
        raise AnalysisError("%s: call outside the understood fragment: %s" % (self.where, ast.unparse(e)[:80]))

    CREATE_FORMALS = ["who", "design", "crossings", "crossing_sustain_counts", "crossing_weights", "constraints",
                      "require_complete_crossing", "mode", "alignment"]

    def _bind_create(self, e: ast.Call) -> Dict[str, Any]:
        out = {"mode": Enum("RepeatMode", "WEIGHT"), "alignment": Enum("AlignmentMode", "EQUAL_PREAMBLE")}
        for name, a in zip(self.CREATE_FORMALS, e.args):
            out[name] = self.ev(a)
        for k in e.keywords:
            if k.arg not in self.CREATE_FORMALS:
                raise AnalysisError("%s: unknown keyword %s for _create" % (self.where, k.arg))
            out[k.arg] = self.ev(k.value)
        missing = [f for f in self.CREATE_FORMALS if f not in out]
        if missing:
            raise AnalysisError("%s: _create called without %s" % (self.where, missing))
        return out

    # ------------------------------------------------------------------ statements
    def _bind(self, target: ast.AST, v: Any):
        if isinstance(target, ast.Name):
            self.env[target.id] = v
        elif isinstance(target, ast.Tuple) and isinstance(v, tuple) and len(v) == len(target.elts):
            for t, x in zip(target.elts, v):
                self._bind(t, x)
        else:
            raise AnalysisError("%s: cannot bind %s" % (self.where, ast.unparse(target)))

    def run(self) -> Dict[str, Any]:
        body = self.fn.body
        self.block(body)
        if self.create is None:
            raise AnalysisError("%s: no _create call was reached" % self.where)
        return self.create

    def block(self, stmts: List[ast.stmt]):
        for st in stmts:
            self.stmt(st)

    def stmt(self, st: ast.stmt):
        if isinstance(st, ast.Expr):
            if isinstance(st.value, ast.Constant):
                return
            if isinstance(st.value, ast.Call) and isinstance(st.value.func, ast.Attribute) and st.value.func.attr in ("append", "extend") and \
                    isinstance(st.value.func.value, ast.Name) and st.value.func.value.id in self.env and isinstance(self.env[st.value.func.value.id], tuple):
                n = st.value.func.value.id
                v = self.ev(st.value.args[0])
                self.env[n] = self.env[n] + ((v,) if st.value.func.attr == "append" else tuple(v))
                return
            if isinstance(st.value, ast.Call) and isinstance(st.value.func, ast.Attribute) and st.value.func.attr == "sustain_within_block":
                return      # scales a fresh copy; the constraint multiset is unchanged (C25 decides the scaling)
            self.ev(st.value)
            return
        if isinstance(st, ast.Assign) and len(st.targets) == 1:
            self._bind(st.targets[0], self.ev(st.value))
            return
        if isinstance(st, ast.AugAssign) and isinstance(st.op, ast.Add) and isinstance(st.target, ast.Name):
            l, r = self.env[st.target.id], self.ev(st.value)
            if isinstance(l, tuple) and isinstance(r, tuple):
                self.env[st.target.id] = l + r
                return
            raise AnalysisError("%s: += on non-lists" % self.where)
        if isinstance(st, ast.If):
            try:
                c = self.ev(st.test)
            except Unknown as u:
                # undecidable test: only acceptable when the branch merely refuses (raise); it is recorded as a conditional refusal
                if all(isinstance(x, ast.Raise) for x in st.body) and not st.orelse:
                    self.notes.append("conditional refusal: %s" % ast.unparse(st.test))
                    return
                raise AnalysisError("%s: branch condition not decidable over the law instantiation: %s" % (self.where, u))
            if isinstance(c, (AllOf, Sym)):
                if all(isinstance(x, ast.Raise) for x in st.body) and not st.orelse:
                    self.notes.append("conditional refusal: %s" % ast.unparse(st.test))
                    return
                raise AnalysisError("%s: symbolic branch condition %s" % (self.where, ast.unparse(st.test)))
            self.block(st.body if c else st.orelse)
            return
        if isinstance(st, ast.For):
            it = self.ev(st.iter)
            if not isinstance(it, tuple):
                raise AnalysisError("%s: loop over a non-list %s" % (self.where, ast.unparse(st.iter)))
            for x in it:
                self._bind(st.target, x)
                self.block(st.body)
            return
        if isinstance(st, ast.Return) and self.depth > 0:
            raise _Return(self.ev(st.value) if st.value is not None else None)
        if isinstance(st, ast.Expr) and isinstance(st.value, ast.Constant) and isinstance(st.value.value, str):
            return          # docstring
        if isinstance(st, ast.Raise):
            raise Refusal(ast.unparse(st.exc)[:120] if st.exc else "raise")
        if isinstance(st, (ast.Pass, ast.ImportFrom, ast.Import)):
            return
        raise AnalysisError("%s: statement outside the understood fragment: %s" % (self.where, ast.unparse(st).split("\n")[0][:80]))


def _is_const(v):
    return isinstance(v, (int, str, bool, type(None), Enum))


def run_constructor(fn_node: ast.FunctionDef, args: Dict[str, Any], where: str):
    """-> ('create', vector, notes, assumed) | ('refuse', text)"""
    it = Interp(fn_node, args, where)
    try:
        vec = it.run()
    except Refusal as r:
        return ("refuse", r.text, it.notes, it.assumed)
    return ("create", vec, it.notes, it.assumed)


def defaults_of(fn_node: ast.FunctionDef) -> Dict[str, ast.AST]:
    a = fn_node.args
    names = [x.arg for x in a.args]
    out = {}
    for n, d in zip(names[len(names) - len(a.defaults):], a.defaults):
        out[n] = d
    return out
