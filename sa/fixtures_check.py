"""Positive controls: rules whose expected number of hits on a healthy tree is zero must flag a seeded
instance on every run (otherwise they could pass vacuously forever)."""
from __future__ import annotations

import sys

from .model import Repo, read_sources, REPO
from . import variants

_SRC = None


def sources():
    global _SRC
    if _SRC is None:
        _SRC = read_sources(REPO)
    return dict(_SRC)


def c19_control():
    """Seed `block.design.append(None)` into experiments_to_tuples and a write through an alias into
    sample_mismatch_factors; both must be reported by the C19 frame rule."""
    from .callgraph import CallGraph
    from .effects import Effects
    from .rules import C19
    try:
        src = variants.insert_first(sources(), "sweetpea/_internal/main.py", "experiments_to_tuples",
                                    "block.design.append(None)")
        src = variants.insert_first(src, "sweetpea/_internal/cross_block.py",
                                    "MultiCrossBlockRepeat.sample_mismatch_factors",
                                    "d = self.crossings\nd.sort()")
    except variants.StaleVariant as e:
        return False, "control anchor missing: %s" % e
    repo = Repo(sources=src)
    cg = CallGraph(repo)
    ef = Effects(repo, cg)
    fam = C19.block_family(repo)
    entries = [repo.fn(e) for e in C19.ENTRY]
    reach = cg.reachable(entries)
    hits = [(f.fq, w.text()) for f, w in C19.offending_writes(None, cg, ef, reach, fam)]
    want = {"main:experiments_to_tuples", "cross_block:MultiCrossBlockRepeat.sample_mismatch_factors"}
    got = {h[0] for h in hits}
    if want <= got:
        return True, "; ".join("%s %s" % h for h in hits if h[0] in want)
    return False, "seeded writes not all flagged: %s" % hits


def main():
    ok, detail = c19_control()
    print("setup: C19 positive control %s (%s)" % ("fired" if ok else "DID NOT FIRE", detail))
    return 0 if ok else 2


if __name__ == "__main__":
    sys.exit(main())
