"""Regenerates /verif/MANIFEST.json from the rule modules present (python3 -B sa/manifest_gen.py)."""
import importlib
import json
import os
import sys

HERE = os.path.dirname(os.path.dirname(os.path.abspath(__file__)))
sys.path.insert(0, HERE)

NA = {
    "C05": "uniformity is a counting statement over the runtime candidate index space and the injectivity of "
           "candidate->sequence; its only structural clauses (drawn range = counted range, exhaustion bookkeeping, "
           "radix pairing) are decided under C06 and C13, claiming C05 on them would be a relabelled duplicate "
           "(DESIGN.md section 6)",
    "C21": "arithmetic on runtime values (per-combination frequencies and percentages of arbitrary experiments); "
           "one straight loop nest whose only structural facts are too thin to decide 'counts are exact' without a "
           "frozen-fragment match (DESIGN.md section 6)",
}
PENDING = "static check for this property is not built yet in this revision of /verif (see DESIGN.md section 3 for the planned rule); not claimed until it exists"


def main():
    props = [json.loads(l) for l in open(os.path.join(HERE, "properties.jsonl"))]
    checks, na = [], []
    for p in props:
        pid = p["id"]
        if pid in NA:
            na.append({"property_id": pid, "reason": NA[pid]})
            continue
        path = os.path.join(HERE, "sa", "rules", pid + ".py")
        if not os.path.exists(path):
            na.append({"property_id": pid, "reason": PENDING})
            continue
        mod = importlib.import_module("sa.rules." + pid)
        checks.append({
            "property_id": pid,
            "quick_cmd": "./check %s quick" % pid,
            "thorough_cmd": "./check %s thorough" % pid,
            "evidence_file": "/verif/evidence/%s.json" % pid,
            "replay_cmd_template": "./check %s --explain {path}" % pid,
            "engine": "sa",
            "level_claimed": {
                "category": "other",
                "text": "static analysis of /repo's current source (no repository code is executed): "
                        + " ".join(mod.EXPLANATION.split()),
                "design_ref": "DESIGN.md section 3, " + pid,
            },
            "level_note": "decides the structural clause above, a necessary condition of the property; not decided: "
                          + " ".join(mod.NOT_DECIDED.split())
                          + " Trusted: CPython ast, the engines under /verif/sa, the frozen tables in sa/rules/%s.py." % pid,
            "technique": mod.TECHNIQUE,
        })
    man = {
        "version": 1,
        "setup_cmd": "./check --setup",
        "hooks": {
            "guard": "SWEETPEA_VERIF",
            "enable": "none needed: the checks read /repo's source, no hooks were added to the repository",
            "baseline_off_cmd": "cd /repo && /venv/bin/python -m pytest -ra -q -p no:cacheprovider --timeout=900 --continue-on-collection-errors",
            "source_commits": [],
            "add_only": True,
        },
        "engines": [
            {"name": "sa", "path": "/verif/sa",
             "serves_properties": [c["property_id"] for c in checks],
             "kind_free_text": "repository-specific static analysis on the Python ast: repository model and resolved "
                               "call graph, statement CFG with dominators, symbolic normal forms of expressions, "
                               "attribute-effect analysis, DSL term extraction with truth tables, sibling comparison, "
                               "registries, string skeletons"},
        ],
        "checks": checks,
        "not_applicable": na,
        "notes": "Fix commits in /repo (genuine defects found by the rules) are listed in known_findings.json under 'fixed'. "
                 "Exit codes: 0 holds / known findings only, 1 VIOLATION, 2 ANALYSIS-ERROR (anchor vanished or construct "
                 "outside the understood idioms; never a silent pass).",
    }
    with open(os.path.join(HERE, "MANIFEST.json"), "w") as f:
        json.dump(man, f, indent=1)
    print("MANIFEST.json: %d checks, %d not applicable" % (len(checks), len(na)))


if __name__ == "__main__":
    main()
