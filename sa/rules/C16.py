"""C16 -- trial count follows the documented rules; memo coherence."""
import ast

from ..astutil import call_attr, dotted, statements, calls, walk_body
from ..callgraph import CallGraph
from ..cfg import CFG
from ..effects import Effects
from ..report import control
from ..sym import forward, sym_at, sym, Env, Poly
from .. import variants

TECHNIQUE = "cache-coherence typestate on the construction CFGs (fill / write-input / reset events over the call graph) plus normal-form conformance of the trial-count formulas"
EXPLANATION = """
Decides: (coherence) for each memoised attribute of a block (_trials_per_sample, _variables_per_trial) the set of
design attributes its filler reads is computed from the call graph; in the construction functions
(Block.__init__, Block.__validate, MultiCrossBlockRepeat._create) no statement that may write one of those inputs
(directly or through a callee, e.g. MinimumTrials.apply, Exclude.validate) is reachable in the CFG from a statement
that may fill the memo (any call from which trials_per_sample is reachable), unless the memo is reset in between.
One frozen exception by element type: `self.constraints += generate_derivations(self)` adds only Derivation objects
and the filler reads `constraints` only through an isinstance(c, Exclude) filter (checked).  (formulas) the
documented arithmetic, as symbolic normal forms: trials = max(min_trials, crossing requirement); crossing size =
(product of level-weight sums - excluded combinations) x sustain count; preamble = trials for one crossing -
crossing size; the MinimumTrials merge is a max; min_trials is rounded up to the next multiple of every sustain
count; the WEIGHT/EQUAL crossing weight is ceil((trials/sustain - preamble)/size); the per-factor trial
requirement counts applicable trials with the sustain-divided applicability query until the crossing size is met.
"""
NOT_DECIDED = ("the number of excluded combinations (__count_exclusions evaluates user predicates), the values the "
               "formulas take for a concrete design, and that every sampler emits sequences of that length (C01/C04/C29).")

BLOCK_CLASSES = ("Block", "MultiCrossBlockRepeat")
MEMOS = {"_trials_per_sample": "cross_block:MultiCrossBlockRepeat.trials_per_sample",
         "_variables_per_trial": "cross_block:MultiCrossBlockRepeat.variables_per_trial"}
CONSTRUCTION = ["block:Block.__init__", "block:Block.__validate", "cross_block:MultiCrossBlockRepeat._create"]


def _top(f):
    while f.parent is not None:
        f = f.parent
    return f


def filler_inputs(repo, cg, filler):
    reach = cg.reachable([filler])
    reads = {}
    for fq, (f, e) in reach.items():
        t = _top(f)
        if t.cls is None or t.cls.name not in BLOCK_CLASSES:
            continue
        for n in walk_body(f.node):
            if isinstance(n, ast.Attribute) and isinstance(n.ctx, ast.Load) and isinstance(n.value, ast.Name) \
                    and n.value.id == "self" and not isinstance(getattr(n, "_parent_call", None), ast.Call):
                reads.setdefault(n.attr, []).append((f, n))
    # drop method names (self.m(...)): keep data attributes only
    methods = set()
    for cn in ("block:Block", "cross_block:MultiCrossBlockRepeat"):
        c = repo.cls(cn)
        methods |= set(c.methods)
        methods |= {"_%s%s" % (c.name, m) for m in c.methods if m.startswith("__") and not m.endswith("__")}
    return {a: v for a, v in reads.items() if a not in methods}, reach


def check(ctx):
    repo = ctx.repo
    cg = CallGraph(repo)
    ef = Effects(repo, cg)
    blockfam = {repo.cls("block:Block").fq} | {c.fq for c in repo.cls("block:Block").all_subclasses()}

    # ------------------------------------------------------------------ coherence
    cons = [ctx.fn(r) for r in CONSTRUCTION]
    cons_fq = {f.fq for f in cons}
    for memo, fref in MEMOS.items():
        filler = ctx.fn(fref)
        inputs, freach = filler_inputs(repo, cg, filler)
        inputs.pop(memo, None)
        inputs.pop("errors", None)
        ctx.require("act_design" in inputs, "%s: input set of the filler lost act_design (%s)" % (memo, sorted(inputs)))
        if memo == "_trials_per_sample":
            ctx.require({"min_trials", "crossings", "constraints", "alignment"} <= set(inputs),
                        "input set of trials_per_sample shrank: %s" % sorted(inputs))
        ctx.ok("C16.inputs", filler, "%s is a function of {%s}" % (memo, ", ".join(sorted(inputs))))
        # the filler stores exactly once, guarded by the memo test, and returns the memo
        stores = [st for st in statements(filler.node) if isinstance(st, ast.Assign) and dotted(st.targets[0]) == "self." + memo]
        ctx.check(len(stores) == 1, "C16.filler", filler, "stores", "filler stores the memo once", "filler stores the memo %d times" % len(stores))

        # functions from which the filler is reachable (may-fill)
        may_fill = set()
        for f in repo.all_functions:
            if f.fq in cons_fq:
                continue
            r = cg.reachable([f], stop=lambda e: e.callee.fq in cons_fq)
            if filler.fq in r:
                may_fill.add(f.fq)
        ctx.extra.setdefault("may_fill_functions", {})[memo] = len(may_fill)

        def callee_events(call_targets):
            fills, writes = False, set()
            for t in call_targets:
                if t.fq in cons_fq:
                    continue
                if t.fq in may_fill:
                    fills = True
                r = cg.reachable([t], stop=lambda e: e.callee.fq in cons_fq)
                for fq2, (g, _) in r.items():
                    for w in ef.writes(g):
                        if w.attr in inputs and w.root_kind != "fresh" and (
                                (w.cls is not None and w.cls.fq in blockfam) or (w.cls is None and w.root_kind != "self")):
                            writes.add((w.attr, g.fq))
            return fills, writes

        # summaries of the construction functions themselves (used when one calls another)
        summary = {}

        def events_of(f, depth=0):
            """per statement: (may fill, {written inputs}, resets)"""
            if f.fq in summary:
                return summary[f.fq]
            summary[f.fq] = {}
            ev = {}
            by_stmt = {}
            for e in cg.edges(f):
                by_stmt.setdefault(id(e.node), []).append(e.callee)
            for st in statements(f.node):
                fills, writes, reset = False, set(), False
                deleg_fill, deleg_writes = False, set()
                own = []
                for name, val in ast.iter_fields(st):
                    if name in ("body", "orelse", "finalbody", "handlers"):
                        continue
                    for v in (val if isinstance(val, list) else [val]):
                        if isinstance(v, ast.AST):
                            own += list(ast.walk(v))
                targets = []
                for n in own:
                    targets += by_stmt.get(id(n), [])
                for t in targets:
                    if t.fq in cons_fq and t.fq != f.fq and depth < 3:
                        sub = events_of(t, depth + 1)
                        for s2, (fl, wr, rs, _, _) in sub.items():
                            deleg_fill = deleg_fill or fl
                            deleg_writes |= wr
                fl, wr = callee_events(targets)
                fills = fills or fl
                writes |= wr
                if isinstance(st, (ast.Assign, ast.AugAssign, ast.AnnAssign, ast.Expr, ast.Delete)):
                    for w in ef.writes(f):
                        if w.node is st or any(w.node is n for n in own):
                            if w.root_kind == "self" and w.attr in inputs:
                                writes.add((w.attr, f.fq))
                            if w.root_kind == "self" and w.attr == memo and isinstance(st, ast.Assign) and \
                                    isinstance(st.value, ast.Constant) and st.value.value is None:
                                reset = True
                # (all fills, all writes, reset, fills not delegated to a construction function, writes not delegated)
                ev[id(st)] = (fills or deleg_fill, writes | deleg_writes, reset, fills, writes)
            summary[f.fq] = ev
            return ev

        for f in cons:
            ev = events_of(f)
            g = CFG(f.node)
            stmts = [st for st in statements(f.node) if g.has(st)]
            fillers = [st for st in stmts if ev[id(st)][0]]
            writers = [st for st in stmts if ev[id(st)][1]]
            resets = [g.node_of(st) for st in stmts if ev[id(st)][2]]
            n_pairs = 0
            for s1 in fillers:
                n1 = g.node_of(s1)
                after = g.reachable(n1, avoid=resets)
                for s2 in writers:
                    n2 = g.node_of(s2)
                    if s1 is not s2:
                        if n2.id not in after:
                            continue
                        cand = ev[id(s2)][1]
                    elif n2.id in after:
                        cand = ev[id(s2)][1]     # the statement lies on a cycle: it follows itself
                    elif ev[id(s1)][3] and ev[id(s1)][4]:
                        cand = ev[id(s2)][4]     # one statement fills and writes by itself: order unknown
                    else:
                        # fills/writes only by delegating to another construction function, whose own CFG is
                        # examined separately
                        continue
                    for attr, where in sorted(cand):
                        n_pairs += 1
                        txt2 = ast.unparse(s2).split("\n")[0]
                        if attr == "constraints" and _is_derivation_append(s2) and _constraints_read_filtered(inputs):
                            ctx.ok("C16.coherence", f, "exception: %s adds only Derivation objects; the filler reads "
                                   "`constraints` only through an isinstance(c, Exclude) filter" % txt2, s2)
                            continue
                        ctx.bad("C16.coherence", f, "%s written after fill: %s" % (attr, txt2),
                                "`%s` (an input of %s) may be written by `%s` (in %s) after `%s` may already have filled the "
                                "memo, and the memo is not reset in between: the reported trial count can disagree with "
                                "the design" % (attr, memo, txt2, where, ast.unparse(s1).split("\n")[0]), s2)
            ctx.ok("C16.coherence", f, "%s: %d may-fill statements, %d input-writing statements, no write of an input of %s "
                   "after a possible fill (pairs examined: %d)" % (f.qual, len(fillers), len(writers), memo, n_pairs))

    # ------------------------------------------------------------------ formulas
    _formulas(ctx, repo)

    import sys
    # the weighted crossing size counts the weights of the levels as they are after weight desugaring: a derived level rebuilt there
    # must keep its weight (and window) -- the field-carry rule of C23, restricted to the level / factor classes
    from . import C23 as _C23
    _C23.rule_carry(ctx, R="C16.carry", only=lambda f_: f_.module.short == "primitive")

    mod = sys.modules[__name__]
    control(ctx, mod, "round min_trials after validation again",
            lambda s: variants.insert_first(
                variants.in_function(s, "sweetpea/_internal/block.py", "Block.__init__",
                                     "self._cached_previous_count = cast(Dict[Tuple[Factor, int], int], {})",
                                     "self._cached_previous_count = cast(Dict[Tuple[Factor, int], int], {})\n"
                                     "        self.min_trials = self.min_trials + 0"),
                "sweetpea/_internal/block.py", "Block.sustain_count", "pass"),
            "C16.coherence")
    ctx.min_instances("C16.coherence", 4)
    ctx.min_instances("C16.formula", 8)


def _is_derivation_append(st) -> bool:
    return isinstance(st, ast.AugAssign) and dotted(st.target) == "self.constraints" and \
        isinstance(st.value, ast.Call) and call_attr(st.value) == "generate_derivations"


def _constraints_read_filtered(inputs) -> bool:
    """every read site of self.constraints is the iterable of an isinstance(x, Exclude) filter -- filter(lambda x: isinstance(x,
    Exclude), self.constraints) or [x for x in self.constraints if isinstance(x, Exclude)]"""
    def is_exclude_test(t, var) -> bool:
        return isinstance(t, ast.Call) and dotted(t.func) == "isinstance" and len(t.args) == 2 and dotted(t.args[0]) == var and dotted(t.args[1]) == "Exclude"
    for f, n in inputs.get("constraints", []):
        ok = False
        for node in ast.walk(f.node):
            if isinstance(node, ast.Call) and dotted(node.func) == "filter" and len(node.args) == 2 and node.args[1] is n and isinstance(node.args[0], ast.Lambda) \
                    and len(node.args[0].args.args) == 1 and is_exclude_test(node.args[0].body, node.args[0].args.args[0].arg):
                ok = True
            if isinstance(node, (ast.ListComp, ast.GeneratorExp, ast.SetComp)):
                for g in node.generators:
                    if g.iter is n and isinstance(g.target, ast.Name) and any(is_exclude_test(c, g.target.id) for c in g.ifs):
                        ok = True
        if not ok:
            return False
    return True


def _spec(text: str, rename=None) -> Poly:
    return sym(ast.parse(text, mode="eval").body, Env(rename=rename or {}))


def _formulas(ctx, repo):
    R = "C16.formula"
    # trials = max(min_trials, crossing requirement)
    f = ctx.fn("cross_block:MultiCrossBlockRepeat.trials_per_sample")
    sn = forward(f.node)
    st = [s for s in statements(f.node) if isinstance(s, ast.Assign) and dotted(s.targets[0]) == "self._trials_per_sample"]
    ctx.require(len(st) == 1, "trials_per_sample: memo store not found")
    got = sym_at(sn, st[0], st[0].value)
    want = _spec("max([self.min_trials, self._trials_per_sample_for_crossing()])")
    ctx.check(got == want, R, f, "trials = %s" % got, "trials = max(min_trials, crossing requirement)",
              "trial count is computed as `%s`, documented: at least MinimumTrials and at least what the crossings "
              "need, i.e. `%s`" % (got, want), st[0])
    rets = [s for s in statements(f.node) if isinstance(s, ast.Return)]
    ctx.check(all(dotted(r.value) == "self._trials_per_sample" for r in rets) and len(rets) == 2, R, f, "returns",
              "both exits return the memo", "trials_per_sample does not return its memo on every exit")
    test = [s for s in f.node.body if isinstance(s, ast.If)]
    ctx.check(len(test) == 1 and dotted(test[0].test) == "self._trials_per_sample", R, f, "memo test",
              "memo consulted before recomputation", "memo test changed: %s" % (ast.unparse(test[0].test) if test else "none"))

    # crossing size
    f = ctx.fn("cross_block:MultiCrossBlockRepeat.crossing_size")
    sn = forward(f.node)
    r = [s for s in statements(f.node) if isinstance(s, ast.Return)]
    ctx.require(len(r) == 1, "crossing_size: single return expected")
    got = sym_at(sn, r[0], r[0].value)
    c = "self.__select_crossing(crossing)"
    want = _spec("(self.crossing_size_without_exclusions(%s) - self.__count_exclusions(%s)) * self.crossing_sustain_count(%s)" % (c, c, c))
    ctx.check(got == want, R, f, "crossing_size = %s" % got, "crossing size = (weighted product - exclusions) x sustain",
              "crossing size is `%s`, documented: (weighted crossing size - excluded combinations) x sustain count" % got, r[0])
    f = ctx.fn("cross_block:MultiCrossBlockRepeat.crossing_size_without_exclusions")
    r = [s for s in statements(f.node) if isinstance(s, ast.Return)]
    got = sym(r[0].value)
    want = _spec("reduce(lambda sum, factor: sum * factor.level_weight_sum(), crossing, 1)")
    ctx.check(got == want, R, f, "product = %s" % got, "weighted crossing size = product of level-weight sums",
              "weighted crossing size is `%s`, expected the product of the factors' level weight sums" % got, r[0])
    f = ctx.fn("primitive:Factor.level_weight_sum")
    r = [s for s in statements(f.node) if isinstance(s, ast.Return)]
    got = str(sym(r[0].value))
    ctx.check(got in ("sum([_b0.weight for _b0 in self.levels])",), R, f, got,
              "level weight sum = sum of level weights", "level_weight_sum is `%s`" % got, r[0])
    f = ctx.fn("weight:combination_weight")
    sn = forward(f.node)
    body = ast.unparse(f.node)
    ctx.check("n *= l.weight" in body and "n = 1" in body, R, f, "combination weight", "combination weight = product of level weights",
              "combination_weight is no longer the product of the level weights")
    f = ctx.fn("cross_block:MultiCrossBlockRepeat.__count_exclusions")
    r = [s for s in statements(f.node) if isinstance(s, ast.Return)]
    got = str(sym(r[-1].value))
    ctx.check(got == "sum([combination_weight(_b0) for _b0 in excluded_crossings])", R, f, got,
              "exclusions counted with their combination weights", "exclusions are counted as `%s`" % got, r[-1])

    # preamble
    f = ctx.fn("cross_block:MultiCrossBlockRepeat.preamble_size")
    sn = forward(f.node)
    r = [s for s in statements(f.node) if isinstance(s, ast.Return)]
    ctx.require(len(r) == 2, "preamble_size: two returns expected (POST_PREAMBLE / per crossing)")
    got = sym_at(sn, r[1], r[1].value)
    want = _spec("self._trials_per_sample_for_one_crossing(%s) - self.crossing_size(%s)" % (c, c))
    ctx.check(got == want, R, f, "preamble = %s" % got, "preamble = trials needed for the crossing - crossing size",
              "preamble size is `%s`" % got, r[1])
    got0 = sym_at(sn, r[0], r[0].value)
    ctx.check(got0 == _spec("max(self._alignment_preamble, max(self.preamble_sizes))"), R, f, "post preamble = %s" % got0,
              "POST_PREAMBLE preamble = latest start over crossings and complex derived factors",
              "POST_PREAMBLE preamble is `%s`" % got0, r[0])

    # per-factor requirement: count applicable trials (sustain-divided query) until crossing_size
    f = ctx.fn("cross_block:MultiCrossBlockRepeat.__trials_required_for_crossing")
    w = [s for s in f.node.body if isinstance(s, ast.While)]
    ctx.require(len(w) == 1, "__trials_required_for_crossing: expected one while loop")
    cond = str(sym(w[0].test))
    ctx.check(cond == "(counter != crossing_size)", R, f, "loop %s" % cond, "counts until the crossing size is met",
              "loop condition is `%s`" % cond, w[0])
    q = [c2 for c2 in ast.walk(w[0]) if isinstance(c2, ast.Call) and call_attr(c2) == "applies_to_trial"]
    ctx.require(len(q) == 1, "__trials_required_for_crossing: applicability query not found")
    sn = forward(f.node)
    inner = [s for s in statements(f.node) if isinstance(s, ast.If) and any(n is q[0] for n in ast.walk(s.test))]
    gotq = sym(q[0].args[0], Env()) if inner else None   # in terms of the loop's current `trial`
    ctx.check(gotq is not None and gotq == _spec("(trial - 1)//sustain_count + 1") and
              str(sym_at(sn, inner[0], ast.Name(id="sustain_count", ctx=ast.Load()))) == "self.sustain_count(f)", R, f, "query %s" % gotq,
              "applicability asked for trial (t-1)//sustain+1", "applicability is asked for `%s`, expected (trial-1)//sustain + 1" % gotq, q[0])
    body = [ast.unparse(s) for s in w[0].body]
    ctx.check(body[0] == "trial += 1" and "counter += 1" in ast.unparse(w[0]) and
              dotted([s for s in f.node.body if isinstance(s, ast.Return)][0].value) == "trial", R, f, "count loop",
              "advance one trial per iteration, count applicable ones, return the trial reached",
              "the counting loop changed shape: %s" % "; ".join(body))

    # crossing requirement over crossings
    f = ctx.fn("cross_block:MultiCrossBlockRepeat._trials_per_sample_for_crossing")
    sn = forward(f.node)
    r = [s for s in statements(f.node) if isinstance(s, ast.Return)]
    got = str(sym_at(sn, r[0], r[0].value))
    ctx.check(got.startswith("max(concat([1], [max(concat([0], _b0)) for _b0 in ") and got.endswith("]))"), R, f, got,
              "requirement = maximum over crossings (at least 1)", "crossing requirement is `%s`" % got, r[0])

    # the size each crossing is measured against: POST_PREAMBLE aligns all crossings after the unified preamble, so every
    # crossing runs for the *largest* crossing size; otherwise each crossing is measured against its own size
    brs = [s for s in f.node.body if isinstance(s, ast.If) and "POST_PREAMBLE" in ast.unparse(s.test)]
    ctx.require(len(brs) == 1 and brs[0].orelse, "_trials_per_sample_for_crossing: alignment split not found")
    nxt = [x for x in f.node.body if f.node.body.index(x) > f.node.body.index(brs[0])]
    ctx.require(bool(nxt), "_trials_per_sample_for_crossing: nothing follows the alignment split")
    merged = str(sym_at(sn, nxt[0], ast.Name(id="crossing_trials", ctx=ast.Load())))
    want_post = "[[self.__trials_required_for_crossing(_b1, max([self.crossing_size(_b0) for _b0 in self.crossings])) for _b1 in _b0] for _b0 in self.crossings]"
    want_other = "[[self.__trials_required_for_crossing(_b1, _b0[1]) for _b1 in _b0[0]] for _b0 in zip(self.crossings, [self.crossing_size(_b0) for _b0 in self.crossings])]"
    want_other2 = "[[self.__trials_required_for_crossing(_b1, self.crossing_size(_b0)) for _b1 in _b0] for _b0 in self.crossings]"
    C_ = "(AlignmentMode.POST_PREAMBLE == self.alignment)"
    ok = merged in ("ite(%s, %s, %s)" % (C_, want_post, o) for o in (want_other, want_other2))
    ctx.check(ok, R, f, "requirement per alignment",
              "POST_PREAMBLE: every crossing is measured against the largest crossing size (all crossings start after the unified preamble); otherwise against its own size",
              "the per-crossing requirement is `%s`, documented: under POST_PREAMBLE unified preamble + the largest crossing size, otherwise each crossing's own size" % merged, brs[0])
    ctx.ok(R, f, "alignment split present", brs[0], trivial=True)

    # MinimumTrials merge and rounding
    f = ctx.fn("constraint:MinimumTrials.apply")
    sts = [s for s in statements(f.node) if isinstance(s, ast.Assign) and dotted(s.targets[0]) == "block.min_trials"]
    vals = sorted(str(sym(s.value)) for s in sts)
    ctx.check(vals == ["max{block.min_trials, self.trials}", "self.trials"], R, f, "merge %s" % vals,
              "MinimumTrials merges by maximum", "MinimumTrials.apply stores %s, expected the maximum of the requests" % vals)
    f = ctx.fn("block:Block.__validate")
    sn = forward(f.node)
    rounding = [s for s in statements(f.node) if isinstance(s, ast.For) and
                any(isinstance(x, ast.Assign) and dotted(x.targets[0]) == "self.min_trials" for x in ast.walk(s))]
    ctx.require(len(rounding) == 1, "Block.__validate: rounding loop of min_trials not found")
    lp = rounding[0]
    it = dotted(lp.iter)
    v = lp.target.id if isinstance(lp.target, ast.Name) else "?"
    ifs = [s for s in lp.body if isinstance(s, ast.If)]
    ok = False
    detail = ""
    if len(ifs) == 1:
        cond = str(sym(ifs[0].test))
        asg = [s for s in ifs[0].body if isinstance(s, ast.Assign)]
        val = str(sym(asg[0].value)) if asg else ""
        detail = "if %s: min_trials = %s" % (cond, val)
        ok = sym(ifs[0].test) == _spec("(self.min_trials // %s) * %s != self.min_trials" % (v, v)) and \
            bool(asg) and sym(asg[0].value) == _spec("((self.min_trials // %s) + 1) * %s" % (v, v))
    ctx.check(ok and it == "self.crossing_sustain_counts", R, f, "rounding %s over %s" % (detail, it),
              "min_trials rounded up to the next multiple of each sustain count",
              "rounding of min_trials changed: %s over %s" % (detail, it), lp)
    # order: MinimumTrials application -> rounding -> validation
    g = CFG(f.node)
    apply_loops = [s for s in f.node.body if isinstance(s, ast.For) and "MinimumTrials" in ast.unparse(s) and ".apply(" in ast.unparse(s)]
    val_loops = [s for s in f.node.body if isinstance(s, ast.For) and ".validate(self)" in ast.unparse(s)]
    ctx.require(len(apply_loops) == 1 and len(val_loops) == 1, "Block.__validate: MinimumTrials / validate loops not found")
    ctx.check(g.dominates(g.node_of(apply_loops[0]), g.node_of(lp)) and g.dominates(g.node_of(lp), g.node_of(val_loops[0])),
              R, f, "order", "MinimumTrials applied, then rounded, then constraints validated",
              "MinimumTrials application, rounding and validation are no longer in that order")

    # WEIGHT / EQUAL crossing weights
    f = ctx.fn("cross_block:MultiCrossBlockRepeat._create")
    sn = forward(f.node)
    ws = [s for s in statements(f.node) if isinstance(s, ast.Assign) and isinstance(s.targets[0], ast.Subscript)
          and dotted(s.targets[0].value) == "self.crossing_weights"]
    ctx.require(len(ws) == 1, "_create: crossing weight update not found")
    got = sym_at(sn, ws[0], ws[0].value)
    want = _spec("((self.trials_per_sample() // crossing_sustain_counts[i]) - self.preamble_sizes[i] + self.crossing_sizes[i] - 1) // self.crossing_sizes[i]")
    ctx.check(got == want, R, f, "w = %s" % got, "weight = ceil((trials/sustain - preamble) / crossing size)",
              "crossing weight is recomputed as `%s`" % got, ws[0])
    ps = [s for s in statements(f.node) if isinstance(s, ast.Assign) and dotted(s.targets[0]) == "self.preamble_sizes"]
    got = str(sym_at(sn, ps[0], ps[0].value)) if ps else ""
    ctx.check(got == "[self._trials_per_sample_for_one_crossing(_b0) - self.crossing_size(_b0) for _b0 in self.crossings]", R, f,
              "preamble_sizes = %s" % got, "preamble_sizes[i] = trials for crossing i - its size", "preamble_sizes is `%s`" % got)
    # geometry
    f = ctx.fn("cross_block:MultiCrossBlockRepeat.get_geometry")
    sn = forward(f.node)
    r = [s for s in statements(f.node) if isinstance(s, ast.Return)]
    got = str(sym_at(sn, r[0], r[0].value))
    ctx.check(got.startswith("BlockGeometry(max{1, sustain_count}*self.trials_per_sample(), "), R, f, "geometry",
              "geometry records the block's trial count", "get_geometry is `%s`" % got[:120], r[0])
