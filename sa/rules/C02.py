"""C02 -- exhausting IterateSATGen yields exactly the valid sequences."""
import ast
import sys

from ..astutil import call_attr, dotted, statements, calls
from ..cfg import CFG
from ..facts import Facts, fact
from ..report import control
from .. import variants
from . import C07

TECHNIQUE = "loop-exit and must-pass-through rules on the CFG of the iterate-and-block loop, def-use of the recorded / blocked solution, enum-branch exhaustiveness of the solver result"
EXPLANATION = """
Decides that the iterate-and-block enumeration can stop only because the request is exhausted or the solver
reported no model, and that what is blocked is what was recorded: in compute_solutions every exit of the loop is a
`return solutions` guarded by exactly `count == 0` or a falsy solver result (no break, no other return, no raise);
on every path that records a solution the very same value -- the solver result truncated to `support` -- was passed
to update_file first, count is decremented exactly once and the solution is appended exactly once;
cryptominisat_solve maps Unsatisfiable to a falsy value and Satisfiable to the parsed literals; sample_non_uniform
hands count / support through and wraps every solution; IterateSATGen.sample passes the requested count, fresh - 1
and block.variables_per_sample() and decodes every returned assignment; synthesize_trials keeps the first `samples`
results.  The Cross weight constraints the property names (EQ per full chunk, LT for the trailing partial chunk)
are checked as the crossing facts F1-F4 of C07.
"""
NOT_DECIDED = "that the formula's models are exactly the valid sequences (C01/C03/C10 clauses) and any solution count."


def check(ctx):
    R = "C02.loop"
    f = ctx.fn("sample_non_uniform:compute_solutions")
    g = CFG(f.node)
    loops = [s for s in f.node.body if isinstance(s, ast.While)]
    ctx.require(len(loops) == 1, "compute_solutions: expected one loop")
    lp = loops[0]
    inside = [s for s in statements(f.node) if any(s is x for x in ast.walk(lp)) and s is not lp]
    exits = [s for s in inside if isinstance(s, (ast.Return, ast.Break, ast.Raise))]
    F = Facts(f)
    conds = []
    ok_exits = True
    for e in exits:
        if not (isinstance(e, ast.Return) and dotted(e.value) == "solutions"):
            ok_exits = False
            ctx.bad(R, f, "exit %s" % ast.unparse(e), "the enumeration loop has an exit that is not `return solutions`: %s" % ast.unparse(e), e)
            continue
        # the guard directly enclosing the return
        guard = [s for s in inside if isinstance(s, ast.If) and any(x is e for x in s.body)]
        if len(guard) != 1 or guard[0].orelse:
            ok_exits = False
            ctx.bad(R, f, "unguarded exit", "a `return solutions` inside the loop is not guarded by a single if", e)
            continue
        conds.append(str(F.at(guard[0], guard[0].test)))
    const_true = isinstance(lp.test, ast.Constant) and lp.test.value is True
    if not const_true:
        conds.append("not(%s)" % F.at(lp, lp.test))
    want = ["(0 == count)", "not(cryptominisat_solve(filename, use_docker))"]
    alt = ["not((0 != count))", "not(cryptominisat_solve(filename, use_docker))"]
    ctx.check(ok_exits and (sorted(conds) == sorted(want) or sorted(conds) == sorted(alt)), R, f, "exits %s" % sorted(conds),
              "the loop is left only when count reaches 0 or the solver returns no model",
              "the enumeration loop can stop for another reason: exits guarded by %s (expected exactly: request exhausted, solver has no model)" % sorted(conds), lp)
    after = [s for s in f.node.body if f.node.body.index(s) > f.node.body.index(lp)]
    ctx.check(const_true and not after or all(isinstance(s, ast.Return) and dotted(s.value) == "solutions" for s in after), R, f, "after loop",
              "nothing but returning the collected solutions follows the loop", "statements after the loop changed")

    # ---- record = block
    R = "C02.record"
    solve = [s for s in inside if isinstance(s, ast.Assign) and isinstance(s.value, ast.Call) and call_attr(s.value) == "cryptominisat_solve"]
    trunc = [s for s in inside if isinstance(s, ast.Assign) and dotted(s.targets[0]) == "solution" and isinstance(s.value, ast.Subscript)]
    upd = [s for s in inside if isinstance(s, ast.Expr) and isinstance(s.value, ast.Call) and call_attr(s.value) == "update_file"]
    rec = [s for s in inside if (isinstance(s, ast.AugAssign) and dotted(s.target) == "solutions") or
           (isinstance(s, ast.Expr) and isinstance(s.value, ast.Call) and dotted(s.value.func) in ("solutions.append", "solutions.extend"))]
    dec = [s for s in inside if isinstance(s, ast.AugAssign) and dotted(s.target) == "count"]
    ctx.require(len(solve) == 1, "compute_solutions: solver call not found")
    ctx.check(len(trunc) == 1 and ast.unparse(trunc[0].value) == "solution[:support]", R, f, "truncate", "the solver result is truncated to the support (x[:support])",
              "the recorded solution is not the solver result truncated to `support`: %s" % [ast.unparse(s) for s in trunc])
    ctx.check(len(upd) == 1 and [ast.unparse(a) for a in upd[0].value.args] == ["filename", "solution"], R, f, "block", "update_file(filename, solution) blocks the recorded value",
              "update_file is called as %s" % [ast.unparse(s) for s in upd])
    ctx.check(len(rec) == 1 and ast.unparse(rec[0]) in ("solutions += [solution]", "solutions.append(solution)"), R, f, "record", "the same value is appended exactly once",
              "solutions are recorded by %s" % [ast.unparse(s) for s in rec])
    ctx.check(len(dec) == 1 and ast.unparse(dec[0]) == "count -= 1", R, f, "count", "count is decremented once per recorded solution", "count bookkeeping changed: %s" % [ast.unparse(s) for s in dec])
    if len(trunc) == 1 and len(upd) == 1 and len(rec) == 1 and len(dec) == 1:
        n = {k: g.node_of(v) for k, v in (("solve", solve[0]), ("trunc", trunc[0]), ("upd", upd[0]), ("rec", rec[0]), ("dec", dec[0]))}
        head = g.node_of(lp)
        # from the solve statement, every path to the record passes truncation and blocking, in that order
        order = g.every_path_passes(n["solve"], n["rec"], [n["trunc"]]) and g.every_path_passes(n["trunc"], n["rec"], [n["upd"]]) and \
            g.dominates(n["trunc"], n["upd"]) and g.dominates(n["upd"], n["rec"])
        ctx.check(order, R, f, "order", "solve -> truncate -> block -> record on every path", "a solution can be recorded without having been truncated and blocked first")
        # between two solver calls the file was updated: from record back to the solver call only via the loop head, and no solve without passing update after a successful solve
        nxt = g.every_path_passes(n["solve"], n["solve"], [n["upd"], g.exit])
        ctx.check(nxt, R, f, "block before next solve", "after a model was found, the next solver call happens only after the blocking clause was written",
                  "the solver can be called again without the previous solution having been blocked")
        once = g.every_path_passes(n["rec"], n["rec"], [n["dec"], g.exit]) and g.every_path_passes(n["dec"], n["dec"], [n["rec"], g.exit])
        ctx.check(once, R, f, "one decrement per record", "exactly one decrement per recorded solution", "count and the recorded solutions can get out of step")
    # no rebinding of `solution` between truncation and record
    writes = [s for s in inside if isinstance(s, (ast.Assign, ast.AugAssign)) and
              dotted(s.targets[0] if isinstance(s, ast.Assign) else s.target) == "solution"]
    ctx.check(len(writes) == 2, R, f, "solution bindings", "`solution` is bound by the solver call and the truncation only", "`solution` is re-bound %d times inside the loop" % len(writes))

    # ---- plumbing
    R = "C02.plumbing"
    s_ = ctx.fn("sample_non_uniform:sample_non_uniform")
    F = Facts(s_)
    fact(ctx, R, s_, "compute call", F.assigns("solutions"), ["compute_solutions(cnf_file, support, count)"], "support and the requested count reach the loop")
    fact(ctx, R, s_, "wrap", F.returns(), ["[Solution(_b0, 1) for _b0 in compute_solutions(cnf_file, support, count)]"], "every solution is returned")
    it = ctx.fn("iterate_sat:IterateSATGen.sample")
    cs = [c for c in calls(it.node) if call_attr(c) == "sample_non_uniform"]
    ctx.require(len(cs) == 1, "IterateSATGen.sample: sample_non_uniform call not found")
    args = [ast.unparse(a) for a in cs[0].args]
    ctx.check(args[0] == "sample_count" and args[3] == "block.variables_per_sample()", R, it, "args %s" % [args[0], args[3]],
              "the requested count and the trial-variable prefix are passed", "IterateSATGen passes count `%s`, support `%s`" % (args[0], args[3]), cs[0])
    F = Facts(it)
    dec = [r for r in F.returns() if "Gen.decode" in r]
    ctx.check(len(dec) == 1 and dec[0].startswith("SamplingResult([Gen.decode(block, _b0.assignment) for _b0 in sample_non_uniform(sample_count, "), R, it, "decode all",
              "every returned assignment is decoded", "IterateSATGen returns %s" % F.returns())
    st = ctx.fn("main:synthesize_trials")
    fact(ctx, R, st, "keep", Facts(st).assigns("raw_samples"), [Facts(st).assigns("raw_samples")[0]] if Facts(st).assigns("raw_samples") and
         Facts(st).assigns("raw_samples")[0].endswith(".samples[:samples]") else ["<sampling result>.samples[:samples]"], "the first `samples` results are kept, in order")
    cm = ctx.fn("cryptominisat:cryptominisat_solve")
    F = Facts(cm)
    ctx.check(F.returns()[0] == "[]" and F.returns()[-1] == "None" and len(F.returns()) == 3, R, cm, "solver result", "unsatisfiable -> [] (falsy), unknown -> None (falsy)",
              "cryptominisat_solve result mapping changed: %s" % F.returns())

    C07.crossing_facts(ctx, R="C02.crossing")
    # 'exactly the valid sequences' needs the formula to have exactly the valid sequences as models: C01's clauses (which
    # bring C10 / C14 / C15 / C16 / C18 / C26 with them), under their own rule names
    if not ctx.is_control:
        from ..report import include
        include(ctx, "C01")

    mod = sys.modules[__name__]
    control(ctx, mod, "drop the blocking call",
            lambda s: variants.in_function(s, "sweetpea/_internal/core/generate/sample_non_uniform.py", "compute_solutions", "        update_file(filename, solution)\n", "        pass\n"), "C02.record")
    control(ctx, mod, "a third way out of the loop",
            lambda s: variants.in_function(s, "sweetpea/_internal/core/generate/sample_non_uniform.py", "compute_solutions", "        count -= 1\n", "        count -= 1\n        if len(solutions) > 100000:\n            return solutions\n"), "C02.loop")
    ctx.min_instances("C02.loop", 2)
    ctx.min_instances("C02.record", 8)
    ctx.min_instances("C02.plumbing", 6)
    ctx.min_instances("C02.crossing", 14)
