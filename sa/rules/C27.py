"""C27 -- solver input and output text is faithful."""
import ast
import sys

from ..astutil import call_attr, dotted, statements, calls, walk_body
from ..facts import Facts, fact
from ..report import control
from ..strfmt import str_parts, consts, skeleton
from ..sym import env_for
from .. import variants

TECHNIQUE = "writer/reader agreement on string skeletons: constant prefixes, terminators, token positions and field indices extracted from the string builders and from the parser predicates (AST), compared pairwise"
EXPLANATION = """
Decides that writers and readers agree on every token and field position: (sampling set) the writer's line prefix
'c ind ' is what parse_cnf_file recognises (startswith), the parser skips exactly as many tokens as the prefix has
and drops the '0' terminator the writer emits, the chunks cover range(0, len, 10) with width-10 slices and list
Var(1..support); (clauses) CNF.__str__ writes each clause as its literals followed by ' 0' and a newline, Var prints
its signed integer, both project parsers split on whitespace, convert to int and drop the trailing 0, and skip
comment and header lines by prefix; (header) 'p cnf <vars> <clauses>' -- readers take field 2, update_header
rewrites field 3 by the number of added clauses (exactly one per blocking clause) and keeps fields 0-2; (solver
output) the pycryptosat wrapper writes 'v ' + signed literals for variables 1.. + ' 0' and cryptominisat_solve keeps
the 'v' lines, strips the marker and converts to int; the python sampler wrappers write 'v <lits> 0[:1]' and
build_solution takes all tokens but the last as the assignment and the part after ':' of the last as the frequency;
(blocking clause) update_file negates every element of the recorded (support-truncated) solution and nothing else,
terminates with 0, appends it as the last line and keeps all earlier lines.
"""
NOT_DECIDED = ("'declares at least as many variables as the formula uses': _num_vars is the number of distinct variables, equal to "
               "the maximum only when the numbering has no gaps (a runtime fact); behaviour of the external solvers.")


def sampling_set_lines(ctx, rule="C27.sampling-set"):
    f = ctx.fn("cnf:CNF.as_unigen_string")
    F = Facts(f)
    fact(ctx, rule, f, "chunks", F.assigns("support_chunks"), ["[[_b1 for _b1 in ite((support_set_length is not None), [Var(_b0) for _b0 in range(1, 1 + support_set_length)], ite((sampled_variables is not None), sampled_variables, []))[_b0:10 + _b0]] for _b0 in range(0, len(ite((support_set_length is not None), [Var(_b0) for _b0 in range(1, 1 + support_set_length)], ite((sampled_variables is not None), sampled_variables, []))), 10)]"],
         "the sampling set is split into consecutive chunks of ten covering the whole list")
    st = [s for s in F.stmts if isinstance(s, ast.Assign) and dotted(s.targets[0]) == "support_string"]
    ctx.require(len(st) == 1, "as_unigen_string: support_string not found")
    v = st[0].value
    ctx.require(isinstance(v, ast.Call) and call_attr(v) == "join" and isinstance(v.args[0], (ast.GeneratorExp, ast.ListComp)),
                "as_unigen_string: support_string is not a join over the chunks")
    sep = ast.literal_eval(v.func.value) if isinstance(v.func.value, ast.Constant) else None
    parts = str_parts(v.args[0].elt)
    cs = consts(parts)
    prefix, term = (cs[0] if cs else ""), (cs[-1] if cs else "")
    mid = [p for p in parts if p[0] != "const"]
    ctx.check(sep == "\n" and dotted(v.args[0].generators[0].iter) == "support_chunks", rule, f, "line per chunk", "one line per chunk",
              "sampling-set lines are joined with %r over %s" % (sep, ast.unparse(v.args[0].generators[0].iter)))
    from ..sym import Env as _E27, sym as _sym27
    mid_nf = str(_sym27(ast.parse(mid[0][1], mode="eval").body, _E27())) if len(mid) == 1 else ""
    ctx.check(prefix == "c ind " and term == " 0" and len(mid) == 1 and mid_nf in ("' '.join([str(_b0) for _b0 in chunk])", "' '.join(map(str, chunk))"), rule, f,
              "line format %s" % skeleton(parts), "line = 'c ind ' + variables separated by blanks + ' 0'",
              "sampling-set line format is %s" % skeleton(parts), st[0])
    ins = F.assigns("unigen_string") or [r_ for r_ in F.returns() if ".replace(" in r_]     # assigned to a local, or returned directly
    ctx.check(len(ins) == 1 and ins[0].startswith("self.as_dimacs_string(fresh_variable_count).replace('\\n', concat('\\n', ") and ins[0].endswith(", 1)"),
              rule, f, "placement", "the lines are inserted right after the problem line", "placement of the sampling-set lines changed: %s" % (ins[0][:100] if ins else ins))
    # reader
    g = ctx.fn("tools.unigen:parse_cnf_file")
    tests = [s for s in statements(g.node) if isinstance(s, ast.If)]
    ind = [s for s in tests if "startswith" in ast.unparse(s.test) and "ind" in ast.unparse(s.test)]
    ctx.require(len(ind) == 1, "parse_cnf_file: sampling-set branch not found")
    pfx = [a.value for c in ast.walk(ind[0].test) if isinstance(c, ast.Call) and call_attr(c) == "startswith" for a in c.args if isinstance(a, ast.Constant)]
    ctx.check(len(pfx) == 1 and prefix.startswith(pfx[0]) and pfx[0].strip() == prefix.strip(), rule, g, "reader prefix %s" % pfx,
              "the reader recognises the writer's prefix", "the reader looks for %s, the writer emits lines starting with %r" % (pfx, prefix), ind[0])
    body = ast.unparse(ind[0])
    ntok = len(prefix.split())
    skip = [s for s in ind[0].body if isinstance(s, ast.Assign) and dotted(s.targets[0]) == "parts"]
    ctx.check(len(skip) == 1 and ast.unparse(skip[0].value).replace(" ", "") == "line.split()[%d:]" % ntok, rule, g, "reader skip",
              "the reader skips exactly the %d prefix tokens" % ntok, "the reader takes `%s`; the prefix %r has %d tokens" % (
                  ast.unparse(skip[0].value) if skip else "?", prefix, ntok), ind[0])
    Fgp = Facts(g)
    exts = [x for x in ind[0].body if isinstance(x, ast.Expr) and isinstance(x.value, ast.Call) and dotted(x.value.func) == "sampling_set.extend"]
    ext_nf = str(Fgp.at(exts[0], exts[0].value.args[0])) if len(exts) == 1 else None
    ctx.check(ext_nf in ("[int(_b0) for _b0 in line.split()[%d:] if ('0' != _b0)]" % ntok, "[int(_b0) for _b0 in line.strip().split()[%d:] if ('0' != _b0)]" % ntok) and isinstance(ind[0].body[-1], ast.Continue), rule, g, "reader terminator",
              "the reader drops the '0' terminator and collects all variables", "the reader's handling of the terminator / collection changed")
    order = [ast.unparse(s.test) for s in tests if "startswith" in ast.unparse(s.test)]
    ctx.check(order[:2] == ["line.startswith('c ind')", "line.startswith('c')"], rule, g, "reader order", "sampling-set lines are recognised before generic comments",
              "prefix tests are ordered %s: a generic comment test before the 'c ind' test would swallow the sampling set" % order[:3])


def header_increment(ctx, R, u):
    """the new header is update_header(1, <first line>), directly or through the one-line wrapper add_clause_to_header"""
    F = Facts(u)
    uh = F.assigns("updated_header")
    L0 = "filename.read_text().strip().splitlines()[0]"
    ah = u.nested.get("add_clause_to_header")
    ok = uh == ["update_header(1, %s)" % L0]
    if not ok and ah is not None:
        ok = uh == ["add_clause_to_header(%s)" % L0] and Facts(ah).returns() == ["update_header(1, %s)" % ah.params[0]]
    ctx.check(ok, R, u, "one clause: header %s" % uh, "one blocking clause -> the clause count of the first line grows by exactly one",
              "the header of the updated file is `%s`%s: the clause count must grow by exactly one per blocking clause" % (
                  uh, (" with add_clause_to_header returning %s" % Facts(ah).returns()) if ah is not None else ""))


def check(ctx):
    sampling_set_lines(ctx)

    # ---- clause lines
    R = "C27.clauses"
    f = ctx.fn("cnf:CNF.__str__")
    r = [s for s in f.node.body if isinstance(s, ast.Return)]
    ctx.require(len(r) == 1 and isinstance(r[0].value, ast.Call) and call_attr(r[0].value) == "join", "CNF.__str__: join not found")
    gen = r[0].value.args[0]
    parts = str_parts(gen.elt)
    ctx.check(skeleton(parts) == "{clause} 0\n" and ast.literal_eval(r[0].value.func.value) == "" and
              ast.unparse(gen.generators[0].iter) in ("reversed(self._vals)", "self._vals") and not gen.generators[0].ifs, R, f, "clause line %r" % skeleton(parts),
              "every clause is written as its literals followed by ' 0' and a newline", "clause line format is %r over %s" % (skeleton(parts), ast.unparse(gen.generators[0].iter)))
    f = ctx.fn("cnf:Clause.__str__")
    fact(ctx, R, f, "Clause.__str__", Facts(f).returns(), ["' '.join([str(_b0) for _b0 in self])"], "literals separated by single blanks, all of them")
    f = ctx.fn("cnf:Var.__str__")
    fact(ctx, R, f, "Var.__str__", Facts(f).returns(), ["str(self._val)"], "a literal prints as its signed integer")
    # readers
    g = ctx.fn("cryptominisat:_use_pycryptosat_library")
    body = ast.unparse(g.node)
    ctx.check("if line.startswith('c') or not line:\n                continue" in body and "if line.startswith('p'):" in body and
              "literals = [int(x) for x in line.split()]" in body and "if literals and literals[-1] == 0:\n                literals = literals[:-1]" in body and
              "clauses.append(literals)" in body and "solver.add_clause(clause)" in body, R, g, "pycryptosat reader",
              "comments / header skipped by prefix, literals split on blanks, trailing 0 dropped, every clause added",
              "the DIMACS reader of _use_pycryptosat_library changed shape")
    g = ctx.fn("tools.unigen:parse_cnf_file")
    body = ast.unparse(g.node)
    ctx.check("clause = [int(x) for x in line.split() if x != '0']" in body and "clauses.append(clause)" in body and
              "if line.startswith('p cnf'):" in body and "num_vars = int(parts[2])" in body, R, g, "parse_cnf_file reader",
              "clause tokens converted to int without the 0 terminator; header field 2 is the variable count", "parse_cnf_file clause/header reading changed")

    # ---- header
    R = "C27.header"
    f = ctx.fn("cnf:CNF.as_dimacs_string")
    st = [s for s in statements(f.node) if isinstance(s, ast.Assign) and dotted(s.targets[0]) == "header"]
    ctx.require(len(st) == 1, "as_dimacs_string: header not found")
    sk = skeleton(str_parts(st[0].value))
    ctx.check(sk == "p cnf {fresh_variable_count} {len(self)}\n\n", R, f, "header %r" % sk, "header = 'p cnf <variables> <clauses>'", "header format is %r" % sk, st[0])
    fact(ctx, R, f, "header default", Facts(f).assigns("fresh_variable_count"), ["self._num_vars"], "variable count defaults to the formula's own count")
    r = [s for s in f.node.body if isinstance(s, ast.Return)]
    ctx.check(ast.unparse(r[0].value) == "header + str(self)", R, f, "header + clauses", "header followed by exactly the formula's clauses", "as_dimacs_string returns %s" % ast.unparse(r[0].value))
    u = ctx.fn("sample_non_uniform:update_file")
    uh = u.nested.get("update_header")
    ctx.require(uh is not None, "update_file.update_header not found")
    F = Facts(uh)
    fact(ctx, R, uh, "clause count field", F.assigns("new_clause_count"), ["additional_clause_count + int(header.strip().split()[3])"], "field 3 (clause count) is increased by the number of added clauses")
    fact(ctx, R, uh, "other fields", F.returns(), ["' '.join(concat(header.strip().split()[:3], [str(additional_clause_count + int(header.strip().split()[3]))]))"],
         "fields 0-2 ('p cnf <vars>') are kept")
    header_increment(ctx, R, u)

    # ---- blocking clause
    R = "C27.blocking"
    F = Facts(u)
    fact(ctx, R, u, "negation", F.assigns("negated_solution"), ["[-_b0 for _b0 in solution]"], "every element of the recorded solution is negated, nothing else")
    fact(ctx, R, u, "terminator", F.assigns("negated_solution_str"), ["' '.join([str(_b0) for _b0 in concat([-_b0 for _b0 in solution], [0])])"], "blank-separated, terminated by 0")
    ul = [s for s in F.stmts if isinstance(s, ast.Assign) and dotted(s.targets[0]) == "updated_lines"]
    ctx.check(len(ul) == 1 and ast.unparse(ul[0].value) == "[updated_header] + lines[1:] + [negated_solution_str]", R, u, "file layout",
              "new header, all earlier lines, then the blocking clause", "updated file is assembled as %s" % (ast.unparse(ul[0].value) if ul else "?"))
    ctx.ok(R, u, "header source: the first line (checked with the header increment)", trivial=True)
    ctx.check(F.exprs()[-1:] == ["filename.write_text('\\n'.join(%s))" % F.assigns("updated_lines")[0]] if F.assigns("updated_lines") else False, R, u, "write back",
              "the lines are written back newline-separated", "update_file no longer writes the assembled lines back")
    cs = ctx.fn("sample_non_uniform:compute_solutions")
    F = Facts(cs)
    ctx.check("update_file(filename, cryptominisat_solve(filename, use_docker)[:support])" in F.exprs(), R, cs, "blocked = recorded",
              "the blocked assignment is the support-truncated solver result", "compute_solutions blocks %s" % [e for e in F.exprs() if e.startswith("update_file")])

    # ---- solver output
    R = "C27.output"
    g = ctx.fn("cryptominisat:_use_pycryptosat_library")
    Fg_ = Facts(g)
    term_ = [x for x in Fg_.stmts if isinstance(x, ast.Expr) and ast.unparse(x) in ("solution_parts.append('0')", 'solution_parts.append("0")')]
    lit_nf = str(Fg_.at(term_[0], ast.Name(id="solution_parts", ctx=ast.Load()))) if term_ else None
    ctx.check(len(term_) == 1 and lit_nf is not None and __import__("re").fullmatch(r"\[ite\((?P<s>.+)\[_b0\], str\(_b0\), str\(-_b0\)\) for _b0 in range\(1, len\((?P=s)\)\)\]", lit_nf) is not None, R, g, "pycryptosat literals",
              "variables 1.. as signed literals (true -> i, false -> -i), then the 0 terminator",
              "the literal rendering of the pycryptosat wrapper changed: %s" % lit_nf)
    ctx.ok(R, g, "pycryptosat polarity (part of the literal term)", trivial=True)
    outs = [s for s in statements(g.node) if isinstance(s, ast.Assign) and dotted(s.targets[0]) == "output"]
    sks = sorted(skeleton(str_parts(s.value)) for s in outs)
    ctx.check(sks == ["s SATISFIABLE\nv {' '.join(solution_parts)}\n", "s UNSATISFIABLE\n"], R, g, "pycryptosat output %s" % sks,
              "status line, then one 'v ' line with the literals", "wrapper output formats are %s" % sks)
    codes = sorted(ast.unparse(s.value) for s in statements(g.node) if isinstance(s, ast.Assign) and dotted(s.targets[0]) == "returncode")
    ctx.check(codes == ["10", "20"], R, g, "return codes", "10 satisfiable / 20 unsatisfiable as the CLI", "wrapper return codes are %s" % codes)
    cs_ = ctx.fn("cryptominisat:cryptominisat_solve")
    F = Facts(cs_)
    ctx.check(F.returns() == ["[]", "[int(_b0) for _b0 in ''.join([_b0 for _b0 in map(str.strip, call_cryptominisat(input_file, docker_mode)[0].strip().splitlines()) if _b0.startswith('v')]).replace('v', '').split()]", "None"],
              R, cs_, "solve parse", "unsatisfiable -> []; satisfiable -> the ints of the 'v' lines; unknown -> None", "cryptominisat_solve returns %s" % F.returns())
    tests = [t for t in F.tests()]
    ctx.check(tests == ["(call_cryptominisat(input_file, docker_mode)[1] is CryptoMiniSATReturnCode.Unsatisfiable)",
                        "(call_cryptominisat(input_file, docker_mode)[1] is CryptoMiniSATReturnCode.Satisfiable)"], R, cs_, "solve dispatch",
              "dispatch on the solver's return code", "cryptominisat_solve tests %s" % tests)
    rc = ctx.repo.cls("cryptominisat:CryptoMiniSATReturnCode")
    vals = {k: ast.unparse(v) for k, v in rc.class_attrs.items()}
    ctx.check(vals.get("Satisfiable") == "10" and vals.get("Unsatisfiable") == "20", R, rc, "codes", "Satisfiable = 10, Unsatisfiable = 20", "return code table is %s" % vals)
    for ref, term in (("tools.unigen:call_unigen_python", " 0:1"), ("tools.unigen:call_cmsgen_python", " 0")):
        w = ctx.fn(ref)
        # the sample line, wherever it is built: the outermost string expression whose first constant is "v "
        lines_ = []
        for node in ast.walk(w.node):
            if isinstance(node, (ast.BinOp, ast.JoinedStr)):
                try:
                    cs2 = consts(str_parts(node))
                except Exception:
                    continue
                if cs2[:1] == ["v "]:
                    lines_.append((node, cs2))
        outer = [(n_, c_) for n_, c_ in lines_ if not any(n_ is not m_ and any(x is n_ for x in ast.walk(m_)) for m_, _c in lines_)]
        ctx.require(len(outer) == 1, "%s: the sample line ('v ' ...) was not found" % w.fq)
        cs2 = outer[0][1]
        ctx.check(cs2 == ["v ", term], R, w, "sample line %s" % cs2, "sample line = 'v ' + literals + %r" % term, "%s writes sample lines %s" % (w.qual, cs2), outer[0][0])
    b = ctx.fn("sample_uniform:build_solution")
    F = Facts(b)
    ctx.check(F.assigns("assignment") == ["[int(_b0) for _b0 in line.replace('v', '').strip().split()[:-1]]"] and
              F.assigns("frequency") == ["int(line.replace('v', '').strip().split()[-1].split(':')[-1])"], R, b, "build_solution",
              "assignment = all tokens but the last (terminator[:frequency]); frequency = part after ':'", "build_solution changed: %s / %s" % (F.assigns("assignment"), F.assigns("frequency")))
    cm = ctx.fn("tools.unigen:call_cmsgen_python")
    Fcm = Facts(cm)
    users = [x for x in Fcm.stmts if not isinstance(x, (ast.For, ast.If, ast.Try, ast.With, ast.While)) and
             any(isinstance(n_, ast.Name) and n_.id == "sample_lits" and isinstance(n_.ctx, ast.Load) for n_ in ast.walk(x)) and
             any(isinstance(n_, ast.Constant) and n_.value == "v " for n_ in ast.walk(x))]
    lits = str(Fcm.at(users[0], ast.Name(id="sample_lits", ctx=ast.Load()))) if users else ""
    ctx.check(lits.startswith("[ite(((_b0 < len(") and "[1])) and " in lits and "[1][_b0]), str(_b0), str(-_b0)) for _b0 in ite(parse_cnf_file(input_file)[1], parse_cnf_file(input_file)[1], "
              "list(range(1, 1 + parse_cnf_file(input_file)[2])))]" in lits, R, cm, "cmsgen literals",
              "exactly the sampling-set variables (all variables when the file names none), each signed by the model", "call_cmsgen_python renders the literals as `%s`" % lits[:200])
    su = ctx.fn("sample_uniform:sample_uniform")
    r = [s for s in statements(su.node) if isinstance(s, ast.Return)]
    Fsu = Facts(su)
    # normal form of the returned value with the local that holds the parsed list expanded; the slice start stays symbolic
    env_su = Fsu.snaps[id(r[-1])].copy()
    env_su.values.pop("sample_set", None)
    from ..sym import _sym as _sym_su
    t = str(_sym_su(r[-1].value, env_su))
    ctx.check(".splitlines() if (_b0 and not(_b0.startswith('c')))][sample_set:]" in t and t.startswith("[build_solution(_b0) for _b0 in ") and ".strip().splitlines()" in t, R, su, "sample lines",
              "every non-comment output line is a solution", "sample_uniform parses %s" % t)

    mod = sys.modules[__name__]
    control(ctx, mod, "writer prefix changes, reader does not",
            lambda s: variants.in_function(s, "sweetpea/_internal/core/cnf.py", "CNF.as_unigen_string", '"c ind "', '"c ind: "'), "C27.sampling-set")
    control(ctx, mod, "blocking clause skips the first variable",
            lambda s: variants.in_function(s, "sweetpea/_internal/core/generate/sample_non_uniform.py", "update_file", "for var in solution]", "for var in solution[1:]]"), "C27.blocking")
    control(ctx, mod, "header update touches the variable count",
            lambda s: variants.in_function(s, "sweetpea/_internal/core/generate/sample_non_uniform.py", "update_file", "int(segments[3])", "int(segments[2])"), "C27.header")
    ctx.min_instances("C27.sampling-set", 8)
    ctx.min_instances("C27.clauses", 5)
    ctx.min_instances("C27.header", 6)
    ctx.min_instances("C27.blocking", 6)
    ctx.min_instances("C27.output", 11)
