"""C13 -- combinatorial unranking functions are bijections with correct counts (structural part)."""
import ast
import sys

from ..astutil import call_attr, dotted, statements, calls, walk_body
from ..cfg import guard_stack
from ..facts import Facts, fact
from ..report import control
from ..sym import Env, Poly, _sym, forward, sym_at
from .. import variants

TECHNIQUE = "radix-pairing rule (digit `x % r` and shift `x //= r'` of one loop body use the same radix, digit read before the shift), range-span rule for digit loops, sibling comparison of the count / unrank dispatchers (same case split, same arguments, closed form paired with its unranker), test-bound = decrement pairing in the index searches, memo-key / memo-value hygiene, sibling comparison of the recursive and the continuation-based counter"
EXPLANATION = """
Decides the part of the bijection claim that is visible in the shape of the code: (radix) in every loop that peels
digits off an index -- extract_components, compute_jth_combination, compute_jth_inversion_sequence,
UCSolutionEnumerator.generate_preamble_sample -- the digit `x % r` is read before the shift and the shift divides
by the same radix expression; (span) the digit loops cover exactly the l positions / m radices n, n-1, .. they
must: range spans are computed symbolically; (dispatch) the counting dispatcher
count_prefixes_of_permutations_with_copies and the unranking dispatcher
compute_jth_prefix_of_permutations_with_copies take the same case split in the same order, give
k_prefixes_of_permutations_with_copies the same arguments apart from the find index (-1 for counting), and the
closed form pow(q, first_n) of the small case is paired with compute_jth_combination(first_n, q, j), whose space
is n ** l; the same pairing holds in the enumerator between __count_solutions and jth_permutation_indices /
generate_trial_values / generate_preamble_sample; (search) every index search subtracts exactly the bound it has
just tested (`if find < X .. else find -= X`, `if idx >= n: idx -= n`), restores the counter it borrowed when it
skips, and by-passes the memo (never consults it) when the target lies inside the memoised subtree; (memo) both
counters key the shared memo by (start_i, need_n) and store a value that does not contain the caller's multiplier;
(siblings) the recursive counter and the continuation-based one enumerate the same children (start_i + 1,
need_n - v) with the same interleaving weight count_interleavings(v, need_n), the same range 0..min(capacity,
need_n), the same feasibility cut and the same base cases; (closed forms) count_remaining_permutations is
(sum c)! / prod c! and the full-length case of count_permutations_with_copies is (q m)! / m! ** q.
"""
NOT_DECIDED = "bijectivity and the counts themselves (the index arithmetic inside construct_permutation, count_interleavings and the DP recurrence is not proved correct, only kept consistent between its siblings)."

COMB = "sweetpea/_internal/combinatorics.py"


def _range_span(call, env):
    """(start, stop, step, count) polys of range(...) -- count only for step +-1."""
    if not (isinstance(call, ast.Call) and isinstance(call.func, ast.Name) and call.func.id == "range"):
        return None
    a = [_sym(x, env) for x in call.args]
    if len(a) == 1:
        start, stop, step = Poly.const(0), a[0], Poly.const(1)
    elif len(a) == 2:
        start, stop, step = a[0], a[1], Poly.const(1)
    elif len(a) == 3:
        start, stop, step = a
    else:
        return None
    sv = step.const_value()
    if sv == 1:
        cnt = stop - start
    elif sv == -1:
        cnt = start - stop
    else:
        cnt = None
    return start, stop, step, cnt


def rule_radix(ctx):
    R = "C13.radix"
    repo = ctx.repo
    fns = [f for f in repo.all_functions if f.module.short in ("combinatorics",) or
           (f.module.short == "random" and f.cls is not None and f.cls.name == "UCSolutionEnumerator")]
    n = 0
    for f in fns:
        if isinstance(f.node, ast.Lambda):
            continue
        snaps = forward(f.node)
        for lp in [s for s in statements(f.node) if isinstance(s, (ast.For, ast.While))]:
            body = lp.body
            # shifts: X //= R | X = X // R | d, X = divmod(X, R)
            shifts = []
            for i, st in enumerate(body):
                if isinstance(st, ast.AugAssign) and isinstance(st.op, ast.FloorDiv) and isinstance(st.target, ast.Name):
                    shifts.append((i, st, st.target.id, st.value))
                elif isinstance(st, ast.Assign) and len(st.targets) == 1 and isinstance(st.targets[0], ast.Name) and \
                        isinstance(st.value, ast.BinOp) and isinstance(st.value.op, ast.FloorDiv) and \
                        isinstance(st.value.left, ast.Name) and st.value.left.id == st.targets[0].id:
                    shifts.append((i, st, st.targets[0].id, st.value.right))
                elif isinstance(st, ast.Assign) and isinstance(st.value, ast.Call) and call_attr(st.value) == "divmod" and \
                        isinstance(st.targets[0], ast.Tuple) and len(st.value.args) == 2 and isinstance(st.value.args[0], ast.Name) and \
                        any(isinstance(t, ast.Name) and t.id == st.value.args[0].id for t in st.targets[0].elts):
                    # divmod reads the digit and shifts with one radix by construction
                    n += 1
                    ctx.ok(R, f, "divmod(%s) pairs digit and shift" % ast.unparse(st.value.args[1]), st)
            for i, st, x, rad in shifts:
                digits = []
                for j, st2 in enumerate(body):
                    for node in ast.walk(st2):
                        if isinstance(node, ast.BinOp) and isinstance(node.op, ast.Mod) and isinstance(node.left, ast.Name) and node.left.id == x:
                            digits.append((j, st2, node))
                if not digits:
                    continue
                n += 1
                r2 = sym_at(snaps, st, rad)
                for j, st2, node in digits:
                    r1 = sym_at(snaps, st2, node.right)
                    ctx.check(r1 == r2, R, f, "digit %s / shift %s" % (ast.unparse(node), ast.unparse(st)),
                              "digit and shift use the same radix %s" % r1,
                              "the digit is taken modulo `%s` but the index is divided by `%s`: indices no longer map one-to-one onto digit vectors" % (r1, r2), st)
                    ctx.check(j < i, R, f, "order %s" % ast.unparse(node), "the digit is read before the index is shifted",
                              "`%s` is evaluated after `%s`: the least significant digit is lost" % (ast.unparse(node), ast.unparse(st)), st2)
    ctx.extra["digit_loops"] = n


def rule_exact(ctx):
    """index arithmetic is exact: integer operators only"""
    R = "C13.exact"
    repo = ctx.repo
    n = 0
    for f in repo.all_functions:
        if isinstance(f.node, ast.Lambda) or f.parent is not None:
            continue
        in_comb = f.module.short == "combinatorics"
        in_enum = f.module.short == "random" and f.cls is not None and f.cls.name == "UCSolutionEnumerator" and \
            any(t in f.name for t in ("count", "generate", "jth", "components", "sum_combination"))
        if not (in_comb or in_enum):
            continue
        n += 1
        bad = None
        for node in ast.walk(f.node):
            if isinstance(node, (ast.BinOp, ast.AugAssign)) and isinstance(node.op, ast.Div):
                bad = node
            elif isinstance(node, ast.Call) and isinstance(node.func, ast.Name) and node.func.id in ("float", "round"):
                bad = node
            elif isinstance(node, ast.Call) and dotted(node.func) in ("math.floor", "math.ceil", "math.log", "math.sqrt", "math.pow", "math.exp"):
                bad = node
            elif isinstance(node, ast.Constant) and isinstance(node.value, float):
                bad = node
        ctx.check(bad is None, R, f, "integer arithmetic in %s" % f.qual, "only exact integer operators (// % * + - pow factorial) touch indices and counts",
                  "`%s` brings floating point into the index arithmetic of %s: beyond 2**53 distinct indices collapse and counts are off by rounding" % (
                      ast.unparse(bad) if bad is not None else "", f.qual), bad)
    ctx.require(n >= 25, "only %d counting / unranking functions found" % n)


def rule_span(ctx):
    R = "C13.span"
    f = ctx.fn("combinatorics:compute_jth_combination")
    ctx.require(f.params == ["l", "n", "j"], "compute_jth_combination: parameters changed %s" % f.params)
    loops = [s for s in f.node.body if isinstance(s, ast.For)]
    ctx.require(len(loops) == 1 and isinstance(loops[0].target, ast.Name), "compute_jth_combination: digit loop not found")
    k = loops[0].target.id
    sp = _range_span(loops[0].iter, Env())
    ok = sp is not None and sp[3] == Poly.atom("l") and (
        (sp[2].const_value() == -1 and sp[0] == Poly.atom("l") - Poly.const(1)) or (sp[2].const_value() == 1 and sp[0] == Poly.const(0)))
    ctx.check(ok, R, f, "positions %s" % ast.unparse(loops[0].iter), "the digit loop fills exactly the positions 0..l-1",
              "the digit loop `%s` does not cover exactly the l positions of the combination" % ast.unparse(loops[0].iter), loops[0])
    stores = [s for s in loops[0].body if isinstance(s, ast.Assign) and isinstance(s.targets[0], ast.Subscript)]
    ctx.check(len(stores) == 1 and ast.unparse(stores[0].targets[0].slice) == k and ast.unparse(stores[0].value) in ("j % n",), R, f, "store",
              "position k receives the current digit j % n", "the digit store changed: %s" % [ast.unparse(s) for s in stores])
    F = Facts(f)
    ctx.check(F.assigns("combination") == ["[None]*l"] or F.assigns("combination") == ["(l)*[None]"] or "l" in "".join(F.assigns("combination")), R, f, "length",
              "the result has l entries", "the result list is %s" % F.assigns("combination"), trivial=True)

    f = ctx.fn("combinatorics:compute_jth_inversion_sequence")
    ctx.require(f.params == ["n", "m", "j"], "compute_jth_inversion_sequence: parameters changed %s" % f.params)
    loops = [s for s in f.node.body if isinstance(s, ast.For)]
    ctx.require(len(loops) == 1 and isinstance(loops[0].target, ast.Name), "compute_jth_inversion_sequence: loop not found")
    sp = _range_span(loops[0].iter, Env())
    ok = sp is not None and sp[3] == Poly.atom("m") and sp[2].const_value() == -1 and sp[0] == Poly.atom("n")
    ctx.check(ok, R, f, "radices %s" % ast.unparse(loops[0].iter), "m radices n, n-1, .., n-m+1: one per prefix position, each the number of still unused elements",
              "the radix loop `%s` is not n, n-1, .. for m positions" % ast.unparse(loops[0].iter), loops[0])
    k = loops[0].target.id
    app = [s for s in loops[0].body if isinstance(s, ast.Expr) and isinstance(s.value, ast.Call) and call_attr(s.value) == "append"]
    Fi_ = Facts(f)
    # the appended digit, through a local or directly: j mod the radix
    dig_nf = str(Fi_.at(app[0], app[0].value.args[0])) if len(app) == 1 else ""
    ctx.check(len(app) == 1 and dig_nf == "(j)%%(%s)" % k, R, f, "one digit per radix",
              "one digit (j mod radix) is appended per radix", "the digit bookkeeping changed: appended `%s`" % dig_nf)
    pf = ctx.fn("combinatorics:compute_jth_permutation_prefix")
    Fp = Facts(pf)
    ctx.check(Fp.returns() == ["construct_permutation(compute_jth_inversion_sequence(n, m, j), n)"], R, pf, "prefix = construct(inversion)",
              "the prefix is built from the inversion sequence over the same n", "compute_jth_permutation_prefix returns %s" % Fp.returns())
    cp = ctx.fn("combinatorics:construct_permutation")
    Fc = Facts(cp)
    its = Fc.iters()
    ctx.check("enumerate(inversion_sequence)" in its and "[False for _b0 in range(orig_n)]" in "".join(Fc.assigns("used")), R, cp, "construct",
              "one output per digit; a used-flag per element of the ground set", "construct_permutation changed: %s" % its)
    # the skip search: skip counts only unused elements, lands on an unused element, marks it used
    src = [ast.unparse(s) for s in statements(cp.node)]
    ok = "used[idx] = True" in src and any(s.startswith("permutation[") and s.endswith("= idx") for s in src) and \
        sum(1 for s in statements(cp.node) if isinstance(s, ast.While) and ast.unparse(s.test) == "used[idx]") == 2 and \
        any(isinstance(s, ast.If) and ast.unparse(s.test) == "not used[idx]" and [ast.unparse(b) for b in s.body] == ["skip -= 1"] for s in statements(cp.node))
    ctx.check(ok, R, cp, "skip search", "skips count unused elements only; the chosen element is unused and becomes used",
              "the skip search of construct_permutation changed")
    ec = ctx.fn("combinatorics:extract_components")
    Fe = Facts(ec)
    ctx.check(Fe.iters() == ["sizes"] and Fe.returns() == ["components"] if False else Fe.iters() == ["sizes"], R, ec, "all dimensions", "one digit per dimension size, in order",
              "extract_components iterates %s" % Fe.iters())


def _chain(f):
    """if / elif / else chain at the top of a function body -> [(test src or None, return expr node)]"""
    out = []

    def walk(stmts):
        for st in stmts:
            if isinstance(st, ast.If):
                rets = [s for s in st.body if isinstance(s, ast.Return)]
                if rets:
                    out.append((st.test, rets[0].value))
                if st.orelse:
                    walk(st.orelse)
            elif isinstance(st, ast.Return):
                out.append((None, st.value))
    walk(f.node.body)
    return out


def _strip_cast(e):
    while isinstance(e, ast.Call) and isinstance(e.func, ast.Name) and e.func.id == "cast" and len(e.args) == 2:
        e = e.args[1]
    return e


def rule_dispatch(ctx):
    R = "C13.dispatch"
    cnt = ctx.fn("combinatorics:count_prefixes_of_permutations_with_copies")
    unr = ctx.fn("combinatorics:compute_jth_prefix_of_permutations_with_copies")
    ctx.require(cnt.params == ["q", "m_or_counters", "first_n", "pmemo"] and unr.params == ["q", "m_or_counters", "first_n", "j", "pmemo"],
                "dispatcher signatures changed: %s / %s" % (cnt.params, unr.params))
    Fc, Fu = Facts(cnt), Facts(unr)
    ctx.check(Fc.assigns("m") == ["m_or_counters"] and Fu.assigns("m") == ["m_or_counters"], R, cnt, "m", "m is the uniform copy count in both", "m is bound differently", trivial=True)
    cc, cu = _chain(cnt), _chain(unr)
    env = Env(defs={"m": ast.Name(id="m_or_counters", ctx=ast.Load())})

    def norm_t(t):
        return None if t is None else str(_sym(t, env))

    def norm_call(e):
        e = _strip_cast(e)
        if isinstance(e, ast.Call):
            return call_attr(e), [str(_sym(a, env)) for a in e.args]
        return None, [str(_sym(e, env))]
    cc_n = [(norm_t(t), norm_call(e)) for t, e in cc]
    cu_n = [(norm_t(t), norm_call(e)) for t, e in cu]
    # counting-only alternatives of the general routine may be interposed on the counting side
    COUNT_ONLY = {"recur_count_prefixes_of_permutations_with_copies"}
    cc_core = [(t, c) for t, c in cc_n if c[0] not in COUNT_ONLY]
    ctx.check([t for t, _ in cc_core] == [t for t, _ in cu_n], R, cnt, "case split %s" % [t for t, _ in cc_core],
              "count and unrank take the same case split in the same order",
              "the counting dispatcher splits on %s, the unranking dispatcher on %s" % ([t for t, _ in cc_core], [t for t, _ in cu_n]))
    for (t, (cn, ca)), (t2, (un, ua)) in zip(cc_core, cu_n):
        if cn == "k_prefixes_of_permutations_with_copies":
            ok = un == cn and len(ca) == 5 and len(ua) == 5 and ca[:3] == ua[:3] and ca[4] == ua[4] and ca[3] == "-1" and ua[3] == "j" and ca[4] == "pmemo"
            ctx.check(ok, R, unr, "general case [%s]" % t, "same routine, same q / copies / length / memo; find = -1 counts, find = j unranks",
                      "under `%s` counting calls %s%s but unranking calls %s%s" % (t, cn, ca, un, ua))
        elif cn == "pow":
            ctx.check(t == "(first_n <= m_or_counters)", R, cnt, "closed form applies [%s]" % t,
                      "q ** first_n counts the prefixes exactly when no element can run out of copies: first_n <= m",
                      "the closed form pow(q, first_n) is used under `%s`; it counts prefixes of permutations with m copies only while first_n <= m "
                      "(beyond that it also counts sequences that use an element more than m times)" % t)
            ok = un == "compute_jth_combination" and len(ua) == 3 and len(ca) == 2 and ua[0] == ca[1] and ua[1] == ca[0] and ua[2] == "j"
            ctx.check(ok, R, unr, "closed form [%s]" % t, "pow(q, first_n) counts what compute_jth_combination(first_n, q, j) enumerates (n ** l)",
                      "under `%s` the count is pow%s but the unranker is %s%s (expected compute_jth_combination(exponent, base, j))" % (t, ca, un, ua))
        else:
            ctx.bad(R, cnt, "branch %s" % cn, "unknown counting branch `%s` under `%s`" % (cn, t))
    for t, (cn, ca) in cc_n:
        if cn in COUNT_ONLY:
            ctx.check(ca == ["q", "m_or_counters", "first_n", "pmemo"], R, cnt, "recursive counter args", "the recursive counter gets the same q / m / length / memo",
                      "the recursive counter is called with %s" % ca)
    # compute_jth_combination's space: documented n ** l
    # -------- enumerator pairings
    R2 = "C13.enumerator"
    cs = ctx.fn("random:UCSolutionEnumerator.__count_solutions")
    ji = ctx.fn("random:UCSolutionEnumerator.jth_permutation_indices")
    Fcs, Fji = Facts(cs), Facts(ji)
    t_cnt = [t for t in Fcs.tests() if "_crossing_is_unweighted" in t and "complex_crossing_instances" in t]
    t_unr = Fji.tests()
    ctx.check(len(t_cnt) == 1 and t_unr == t_cnt, R2, ji, "permutation case split %s" % t_unr, "counting and unranking of crossing permutations split on the same condition",
              "__count_solutions splits on %s, jth_permutation_indices on %s" % (t_cnt, t_unr))
    rets = Fji.returns()
    ctx.check(rets == ["compute_jth_permutation_prefix(crossing_size, trial_count, component)",
                       "compute_jth_prefix_of_permutations_with_copies(crossing_size, self._m_or_counters, trial_count, component, pmemo)"], R2, ji, "unrankers",
              "distinct elements -> permutation prefixes; copies -> prefixes of permutations with copies over self._m_or_counters", "jth_permutation_indices returns %s" % rets)
    perm = Fcs.assigns("permutations")
    want_cnt = "count_prefixes_of_permutations_with_copies(len(self._crossing_instances), self._m_or_counters, first_n, pmemo)"
    n_ = "len(self._crossing_instances)*self.__complex_crossing_instances"
    ok = len(perm) == 3 and perm[0] == "factorial(%s)" % n_ and perm[2] == want_cnt and \
        perm[1] == "(factorial(%s))//(factorial(-first_n + %s))" % (n_, n_)
    ctx.check(ok, R2, cs, "permutation counts", "n! / (n - first_n)! for distinct elements; the prefix counter over the same self._m_or_counters otherwise",
              "the permutation count is computed as %s" % perm)
    # independent factors: pow(len(levels), first_n) <-> compute_jth_combination(trial_count, len(levels), idx)
    poss = Fcs.assigns("possibilities")
    gt = ctx.fn("random:UCSolutionEnumerator.generate_trial_values")
    combo = Facts(gt).assigns("combo")
    ok = len(poss) == 1 and poss[0].startswith("pow(len(") and poss[0].endswith(", first_n)") and \
        combo == ["compute_jth_combination(trial_count, len(levels), components[2][j])"]
    ctx.check(ok, R2, gt, "independent factors", "pow(#levels, first_n) candidates counted, compute_jth_combination(trials, #levels, index) enumerated",
              "independent-factor count %s vs unranker %s" % (poss, combo))
    # the levels list: counted list is the one stored for unranking
    src = [ast.unparse(s) for s in statements(cs.node)]
    ctx.check("ind_factor_levels.append((f, levels))" in src, R2, cs, "levels shared", "the filtered level list that is counted is the one kept for unranking",
              "the counted level list is not the one stored in ind_factor_levels")
    # preamble
    cp = ctx.fn("random:UCSolutionEnumerator.__count_preamble_solutions")
    gp = ctx.fn("random:UCSolutionEnumerator.generate_preamble_sample")
    Fcp, Fgp = Facts(cp), Facts(gp)
    srcp = [ast.unparse(s) for s in statements(cp.node)]
    ok = "self._basic_factor_levels.append((f, levels))" in srcp and "combos *= len(levels)" in srcp and Fcp.returns()[-1:] == ["pow(combos, self._preamble_size)"] \
        and Fcp.returns()[0] == "1"
    ctx.check(ok, R2, cp, "preamble count", "(prod #levels) ** preamble size over the stored (factor, levels) list", "__count_preamble_solutions changed: %s" % Fcp.returns())
    its = Fgp.iters()
    ok = its == ["self._basic_factor_levels", "range(self._preamble_size)"]
    ctx.check(ok, R2, gp, "preamble digits", "one digit of radix #levels per stored factor and preamble trial: the digit space is the counted space",
              "generate_preamble_sample iterates %s" % its)


def rule_search(ctx):
    R = "C13.search"
    k = ctx.fn("combinatorics:k_prefixes_of_permutations_with_copies")
    gs = guard_stack(k.node)
    snaps = forward(k.node)
    decs = [s for s in statements(k.node) if isinstance(s, ast.AugAssign) and isinstance(s.op, ast.Sub) and dotted(s.target) == "find"]
    ctx.require(len(decs) == 2, "k_prefixes: expected two `find -= ...` sites, found %d" % len(decs))
    for d in decs:
        amount = str(sym_at(snaps, d, d.value))
        ok = False
        for t, pol in reversed(gs[id(d)]):
            if isinstance(t, ast.Compare) and dotted(t.left) == "find" and len(t.ops) == 1 and isinstance(t.ops[0], ast.Lt) and not pol:
                ok = str(sym_at(snaps, d, t.comparators[0])) == amount
                break
        ctx.check(ok, R, k, "find -= %s" % amount, "the index is reduced by exactly the bound it was just found not to be below",
                  "`%s` is not the else-branch of `if find < %s`: the search skips a different number of arrangements than the subtree holds" % (ast.unparse(d), amount), d)
    # memo bypass
    byp = [s for s in statements(k.node) if isinstance(s, ast.Assign) and dotted(s.targets[0]) == "m_value" and isinstance(s.value, ast.Constant) and s.value.value is None]
    ctx.require(len(byp) == 1, "k_prefixes: memo bypass not found")
    inner = gs[id(byp[0])]
    tests = [(ast.unparse(t), pol) for t, pol in inner[-2:]]
    ctx.check(tests == [("m_value and find > -1", True), ("find < total", True)], R, k, "memo bypass", "the memoised count is dropped exactly when the target lies inside that subtree",
              "the memo bypass is guarded by %s" % tests, byp[0])
    tot = [s for s in statements(k.node) if isinstance(s, ast.Assign) and dotted(s.targets[0]) == "total"]
    ctx.check(len(tot) == 1 and ast.unparse(tot[0].value) in ("m_value * multiplier", "multiplier * m_value"), R, k, "subtree size",
              "the subtree holds memoised count x multiplier arrangements", "total is %s" % [ast.unparse(s.value) for s in tot])
    # leaf: construct when find < multiplier
    leaf = [s for s in statements(k.node) if isinstance(s, ast.Return) and isinstance(s.value, ast.Call) and call_attr(s.value) == "_construct_permutation_with_copies"]
    ctx.require(len(leaf) == 1, "k_prefixes: leaf construction not found")
    tests = [(ast.unparse(t), pol) for t, pol in gs[id(leaf[0])][-3:]]
    args = [ast.unparse(a) for a in leaf[0].value.args]
    ctx.check(tests == [("need_n == 0", True), ("find > -1", True), ("find < multiplier", True)] and args == ["find", "q", "first_n", "buckets_to_counters(buckets, q)"], R, k, "leaf",
              "at a complete allocation holding `multiplier` arrangements the residual index selects one of them", "leaf construction guarded by %s with args %s" % (tests, args), leaf[0])
    # _construct_permutation_with_copies: borrow / test / restore
    c = ctx.fn("combinatorics:_construct_permutation_with_copies")
    gs2 = guard_stack(c.node)
    borrow = [s for s in statements(c.node) if isinstance(s, ast.AugAssign) and ast.unparse(s) == "counters[i] -= 1"]
    restore = [s for s in statements(c.node) if isinstance(s, ast.AugAssign) and ast.unparse(s) == "counters[i] += 1"]
    skip = [s for s in statements(c.node) if isinstance(s, ast.AugAssign) and isinstance(s.op, ast.Sub) and dotted(s.target) == "idx"]
    ctx.require(len(borrow) == 1 and len(skip) == 1, "_construct_permutation_with_copies: borrow / skip statements not found")
    cntst = [s for s in statements(c.node) if isinstance(s, ast.Assign) and isinstance(s.value, ast.Call) and call_attr(s.value) == "count_remaining_permutations"]
    ctx.require(len(cntst) == 1 and ast.unparse(cntst[0].value.args[0]) == "counters", "_construct_permutation_with_copies: continuation count not found")
    nn = dotted(cntst[0].targets[0])
    Fc_ = Facts(c)
    NNF = str(Fc_.at(skip[0], ast.Name(id=nn, ctx=ast.Load())))
    cs_skip = Fc_.conds(skip[0])
    ctx.check("(%s <= idx)" % NNF in cs_skip and str(Fc_.at(skip[0], skip[0].value)) == NNF, R, c, "idx -= %s" % nn, "the index is reduced by exactly the continuation count it was found not to be below",
              "`%s` under %s" % (ast.unparse(skip[0]), cs_skip), skip[0])
    same_branch = len(restore) == 1 and Fc_.conds(restore[0]) == cs_skip
    ctx.check(same_branch, R, c, "restore", "the borrowed copy is returned exactly when the element is skipped", "the counter is not restored exactly on the skip branch")
    body_order = [ast.unparse(s) for s in statements(c.node)]
    ctx.check(body_order.index("counters[i] -= 1") < body_order.index(ast.unparse(cntst[0])), R, c, "borrow before count",
              "the continuation is counted with the element's copy removed", "the continuation count no longer follows the borrow")
    acc = [s for s in statements(c.node) if isinstance(s, ast.Expr) and ast.unparse(s) == "sequence.append(i)"]
    ctx.check(len(acc) == 1 and "(idx < %s)" % NNF in Fc_.conds(acc[0]), R, c, "accept", "otherwise the element is emitted",
              "the accept branch changed: %s" % ([Fc_.conds(a) for a in acc]))
    ctx.check("(0 < counters[i])" in Fc_.conds(borrow[0]), R, c, "only available elements", "only elements with copies left are tried",
              "the borrow is no longer guarded by `counters[i] > 0`")
    # combinations without replacement: greedy combinatorial number system
    w = ctx.fn("combinatorics:compute_jth_combination_without_replacement")
    Fw = Facts(w)
    whiles = [s for s in statements(w.node) if isinstance(s, ast.While)]
    ctx.require(len(whiles) == 2, "compute_jth_combination_without_replacement: loops not found")
    inner_t = ast.unparse(whiles[1].test)
    dec = [s for s in statements(w.node) if isinstance(s, ast.AugAssign) and dotted(s.target) == "j"]
    ctx.check(inner_t == "c + 1 < n and n_choose_m_given_m_factorial(c + 1, m, f_m) <= j" and len(dec) == 1 and
              ast.unparse(dec[0]) == "j -= n_choose_m_given_m_factorial(c, m, f_m)", R, w, "greedy digit",
              "the largest c with C(c, m) <= j is found with the same binomial that is then subtracted", "the greedy search is `%s` / `%s`" % (inner_t, [ast.unparse(d) for d in dec]))
    ctx.check(Fw.augs("m") == ["-= 1"] and ast.unparse(whiles[0].test) == "m > 0" and "c = m - 1" in [ast.unparse(s) for s in statements(w.node)], R, w, "m digits",
              "one digit per remaining m, each search starting at the smallest candidate m - 1", "digit loop changed")


def rule_memo(ctx):
    R = "C13.memo"
    for ref in ("combinatorics:k_prefixes_of_permutations_with_copies", "combinatorics:recur_count_prefixes_of_permutations_with_copies.recur"):
        f = ctx.fn(ref)
        gets = [c for c in calls(f.node) if dotted(c.func) == "memo.get"]
        sets = [s for s in statements(f.node) if isinstance(s, ast.Assign) and isinstance(s.targets[0], ast.Subscript) and dotted(s.targets[0].value) == "memo"]
        ctx.require(len(gets) == 1 and len(sets) == 1, "%s: memo get/set sites changed" % ref)
        kg, ks = ast.unparse(gets[0].args[0]), ast.unparse(sets[0].targets[0].slice)
        ctx.check(kg == ks == "(start_i, need_n)", R, f, "key %s" % kg, "the shared memo is keyed by (start_i, need_n) on read and write",
                  "memo is read with key %s and written with key %s (the other counter uses (start_i, need_n))" % (kg, ks), sets[0])
    k = ctx.fn("combinatorics:k_prefixes_of_permutations_with_copies")
    st = [s for s in statements(k.node) if isinstance(s, ast.Assign) and isinstance(s.targets[0], ast.Subscript) and dotted(s.targets[0].value) == "memo"][0]
    # the stored expression, expanded through the assignment that precedes it in the same block
    blocks = [b for n in ast.walk(k.node) for b in (getattr(n, "body", None), getattr(n, "orelse", None)) if isinstance(b, list) and any(x is st for x in b)]
    ctx.require(len(blocks) == 1, "k_prefixes: memo store not found in a block")
    blk = blocks[0]
    expr = st.value
    if isinstance(expr, ast.Name):
        prev = [x for x in blk[:blk.index(st)] if isinstance(x, ast.Assign) and dotted(x.targets[0]) == expr.id]
        ctx.require(len(prev) >= 1, "k_prefixes: the value stored in the memo is not computed in the same branch")
        expr = prev[-1].value
    val = _sym(expr, Env())
    toks = {n.id for n in ast.walk(expr) if isinstance(n, ast.Name)}
    ctx.check(not (toks & {"multiplier", "find", "next_mult", "total"}), R, k, "stored value %s" % val, "the memoised count is independent of the caller's multiplier and of the target index",
              "the value stored in the memo (`%s`) depends on the search state" % val, st)
    ctx.check(str(val) == "count + this_mult*value", R, k, "record", "recorded count = sum over v of child count x interleavings", "the recorded value is `%s`" % val, st)
    both = ctx.fn("combinatorics:recur_count_prefixes_of_permutations_with_copies")
    ctx.check(Facts(both).assigns("memo") == ["pmemo.memo"] and Facts(k).assigns("memo") == ["pmemo.memo"], R, both, "same table", "both counters use pmemo.memo",
              "the counters no longer share pmemo.memo")


def rule_siblings(ctx):
    R = "C13.siblings"
    r = ctx.fn("combinatorics:recur_count_prefixes_of_permutations_with_copies.recur")
    k = ctx.fn("combinatorics:k_prefixes_of_permutations_with_copies")
    Fr = Facts(r)
    # recursive side
    loops = [s for s in statements(r.node) if isinstance(s, ast.For)]
    ctx.require(len(loops) == 1, "recur: child loop not found")
    it = ast.unparse(loops[0].iter)
    subs = Fr.assigns("subs")
    augs = Fr.augs("combos")
    ctx.check(it == "range(0, min(m, need_n) + 1)" and subs == ["recur(1 + start_i, need_n - v, q, m)"] and augs == ["+= count_interleavings(v, need_n)*recur(1 + start_i, need_n - v, q, m)"], R, r, "recursive children",
              "v = 0..min(m, need_n); child (start_i + 1, need_n - v) weighted by count_interleavings(v, need_n)", "recursive counter: range %s, child %s, sum %s" % (it, subs, augs))
    cases_r = Fr.cases()
    fixed = sorted((c, v) for c, v in cases_r if v in ("0", "1"))
    other = [(c, v) for c, v in cases_r if v not in ("0", "1")]
    tests_r = cases_r
    from ..facts import same_cases
    want_cases = [(("(0 != need_n)", "(m*q - m*start_i < need_n)", "(start_i < q)"), "0"), (("(0 != need_n)", "(q <= start_i)"), "0"), (("(0 == need_n)",), "1"),
                  (("(0 != need_n)", "(need_n <= m*q - m*start_i)", "(start_i < q)"), "<memo or sum>")]
    found_cases = [(c, v if v in ("0", "1") else "<memo or sum>") for c, v in cases_r]
    ctx.check(same_cases(found_cases, want_cases), R, r, "recursive cuts", "base 1 at need_n == 0; 0 beyond q; 0 when the remaining capacity (q - start_i) m is short",
              "recursive counter tests %s" % tests_r[:3])
    # continuation side
    src = {ast.unparse(s) for s in statements(k.node)}
    want = ["next_mult = count_interleavings(v, need_n)",
            "ks.append((DoCount, (start_i + 1, need_n - v, (v, buckets), next_mult * multiplier)))",
            "ks.append((DoNext, (v + 1, start_i, need_n, count, buckets, multiplier, next_mult)))",
            "ks.append((DoRecord, (v, start_i, need_n, count, next_mult)))",
            "ks.append((DoNext, (0, start_i, need_n, 0, buckets, multiplier, 0)))",
            "count += value * this_mult"]
    for w in want:
        ctx.check(w in src, R, k, w[:70], "continuation frame as in the recursive counter", "the continuation-based counter no longer contains `%s`" % w)
    tk = [ast.unparse(s.test) for s in statements(k.node) if isinstance(s, ast.If)]
    ctx.check("v < min(available_at(start_i), need_n)" in tk and "need_n == 0" in tk and "start_i >= q" in tk and "available_after(start_i) < need_n" in tk, R, k, "continuation cuts",
              "same range 0..min(capacity, need_n), same base cases and feasibility cut", "continuation-based counter tests %s" % tk)
    aa = ctx.fn("combinatorics:k_prefixes_of_permutations_with_copies.available_after")
    at = ctx.fn("combinatorics:k_prefixes_of_permutations_with_copies.available_at")
    ctx.check(Facts(aa).returns() == ["sum(m_or_counters[start_i:])", "m_or_counters*q - m_or_counters*start_i"] and
              Facts(at).returns() == ["m_or_counters[start_i]", "m_or_counters"], R, k, "capacities", "capacity after start_i: (q - start_i) m, or the tail sum of the counters; at start_i: m or its counter",
              "capacity helpers changed: %s %s" % (Facts(aa).returns(), Facts(at).returns()))
    b2c = ctx.fn("combinatorics:buckets_to_counters")
    srcb = [ast.unparse(s) for s in statements(b2c.node)]
    ctx.check("counters[i] = rev_buckets[0]" in srcb and "i += 1" in srcb and Facts(b2c).returns() == [Facts(b2c).returns()[0]] and "rev_buckets = (cast(Tuple[int, Any], buckets)[0], rev_buckets)" in srcb, R, b2c, "allocation order",
              "the reversed cons list is reversed back: allocation v of choice i lands in counters[i]", "buckets_to_counters changed")
    # closed forms
    R = "C13.closed"
    crp = ctx.fn("combinatorics:count_remaining_permutations")
    Fc = Facts(crp)
    rets = [ast.unparse(s.value) for s in statements(crp.node) if isinstance(s, ast.Return)]
    prods = [ast.unparse(s) for s in statements(crp.node) if isinstance(s, (ast.Assign, ast.AugAssign)) and "factorial" in ast.unparse(s)]
    guards = [ast.unparse(s.test) for s in statements(crp.node) if isinstance(s, ast.If)]
    # the accumulator may carry any name
    import re as _re13
    accn = _re13.match(r"factorial\(sum\(counters\)\) // ([A-Za-z_][A-Za-z0-9_]*)$", rets[0]).group(1) if len(rets) == 1 and _re13.match(r"factorial\(sum\(counters\)\) // ([A-Za-z_][A-Za-z0-9_]*)$", rets[0]) else "d"
    rets = [r_.replace("// " + accn, "// d") for r_ in rets]
    prods = [_re13.sub(r"(?<![A-Za-z0-9_])%s(?![A-Za-z0-9_])" % accn, "d", p_) for p_ in prods]
    ctx.check(rets == ["factorial(sum(counters)) // d"] and prods in (["d = d * factorial(c)"], ["d *= factorial(c)"]) and guards in ([], ["c > 1"], ["c > 0"], ["c >= 2"], ["c >= 1"]) and
              Fc.iters() == ["counters"], R, crp, "multinomial", "(sum c)! / prod c!", "count_remaining_permutations changed: %s %s %s" % (rets, prods, guards))
    cpc = ctx.fn("combinatorics:count_permutations_with_copies")
    Fp = Facts(cpc)
    ctx.check(Fp.cases() == [(("(first_n != m*q)",), "count_prefixes_of_permutations_with_copies(q, m, first_n, PermutationMemo())"),
                             (("(first_n == m*q)",), "(factorial(m*q))//(pow(factorial(m), q))")], R, cpc, "full length", "(q m)! / m! ** q; prefixes through the dispatcher",
              "count_permutations_with_copies changed: %s" % (Fp.cases(),))
    ci = ctx.fn("combinatorics:count_interleavings")
    ctx.check(Facts(ci).returns() == ["count_remaining_permutations([need_n - v, v])"], R, ci, "interleavings", "C(need_n, v) as a two-class multinomial", "count_interleavings returns %s" % Facts(ci).returns())
    ncm = ctx.fn("combinatorics:n_choose_m_given_m_factorial")
    Fn = Facts(ncm)
    ctx.check(Fn.tests()[:2] == ["(n < m)", "(m == n)"] and Fn.returns()[:2] == ["0", "1"] and [ast.unparse(s) for s in statements(ncm.node) if isinstance(s, ast.Return)][-1] == "return p // f_m" and
              "h = n - m" in [ast.unparse(s) for s in statements(ncm.node)] and "p *= n" in [ast.unparse(s) for s in statements(ncm.node)], R, ncm, "binomial", "falling factorial n (n-1) .. (n-m+1) over m!",
              "n_choose_m_given_m_factorial changed")
    for ref, want in (("combinatorics:construct_permutation_with_copies", ["_construct_permutation_with_copies(idx, q, m*q, [m for _b0 in range(q)])"]),
                      ("combinatorics:construct_permutation_with_varying_copies", None)):
        f = ctx.fn(ref)
        rr = Facts(f).returns()
        if want is not None:
            ctx.check(rr == want, R, f, "wrapper", "q elements, m copies each, full length q m", "%s returns %s" % (f.qual, rr))
        else:
            src = [ast.unparse(s) for s in statements(f.node)]
            ctx.check("counters = counters[:]" in src and src[-1] == "return _construct_permutation_with_copies(idx, q, sum(counters), counters)", R, f, "wrapper (copy)",
                      "the caller's counters are copied before the search consumes them", "%s changed: %s" % (f.qual, src))


def check(ctx):
    rule_exact(ctx)
    rule_radix(ctx)
    rule_span(ctx)
    rule_dispatch(ctx)
    rule_search(ctx)
    rule_memo(ctx)
    rule_siblings(ctx)
    mod = sys.modules[__name__]
    control(ctx, mod, "float division in the digit loop", lambda s: variants.in_function(s, COMB, "compute_jth_inversion_sequence", "j //= k", "j = int(j / k)"), "C13.exact")
    control(ctx, mod, "closed form beyond its range (both dispatchers)",
            lambda s: variants.in_function(variants.in_function(s, COMB, "compute_jth_prefix_of_permutations_with_copies", "if first_n <= m:", "if first_n <= q:"),
                                           COMB, "count_prefixes_of_permutations_with_copies", "if first_n <= m:", "if first_n <= q:"), "C13.dispatch")
    control(ctx, mod, "shift by a different radix", lambda s: variants.in_function(s, COMB, "compute_jth_combination", "j //= n", "j //= (n - 1)"), "C13.radix")
    control(ctx, mod, "one-sided case split", lambda s: variants.in_function(s, COMB, "compute_jth_prefix_of_permutations_with_copies", "if first_n <= m:", "if first_n < m:"), "C13.dispatch")
    control(ctx, mod, "skip a different amount", lambda s: variants.in_function(s, COMB, "k_prefixes_of_permutations_with_copies", "                        find -= total\n", "                        find -= m_value\n"), "C13.search")
    control(ctx, mod, "multiplier leaks into the memo", lambda s: variants.in_function(s, COMB, "k_prefixes_of_permutations_with_copies", "            memo[(start_i, need_n)] = value\n", "            memo[(start_i, need_n)] = value * multiplier\n"), "C13.memo")
    ctx.min_instances("C13.exact", 25)
    ctx.min_instances("C13.radix", 8)
    ctx.require(ctx.extra.get("digit_loops", 0) >= 4, "only %s digit loops found (4 confirmed by hand)" % ctx.extra.get("digit_loops"))
    ctx.min_instances("C13.span", 7)
    ctx.min_instances("C13.dispatch", 5)
    ctx.min_instances("C13.enumerator", 6)
    ctx.min_instances("C13.search", 10)
    ctx.min_instances("C13.memo", 5)
    ctx.min_instances("C13.siblings", 11)
    ctx.min_instances("C13.closed", 6)
