"""C24 -- documented block-combinator equivalences hold (structural part)."""
import ast
import sys

from ..absint import Enum, Rec, Splice, Sym, AllOf, run_constructor, defaults_of, Interp
from ..astutil import call_attr, dotted, statements, calls
from ..model import AnalysisError
from ..report import control
from .. import variants

TECHNIQUE = "abstract interpretation of the five block constructors' syntax trees over symbolic designs (opaque lists, concrete enum members) to the vector of actuals that reaches _create, compared field by field for both sides of every documented law over the complete product of modes, alignments and small crossing counts; plus an alias rule (argument blocks are read-only)"
EXPLANATION = """
Decides that the two sides of each documented law reach MultiCrossBlockRepeat._create with the same argument vector and
the same refusals. Each constructor body (MultiCrossBlock, CrossBlock, Repeat, Merge; Nest for the alias rule) is
interpreted abstractly on its syntax tree: user data are opaque symbols, enum members / None / crossing counts are
concrete, so every branch the constructors take on mode and alignment is followed; a statement outside the understood
fragment is an analysis error. Laws (frozen from docs/_source/api/main.rst and the property): L1 MultiCrossBlock(design,
crossings, cs, rcc, mode, alignment) = Merge([CrossBlock(design, c, [], rcc) for c in crossings], cs, mode, alignment)
for 1..3 crossings x 3 modes x (3 alignments + omitted); L2 Repeat(block, cs) = Merge([block], cs, REPEAT,
EQUAL_PREAMBLE); L3 Repeat(block, []) = block and Merge([block]) = block; L4 CrossBlock(design, crossing, cs, rcc) =
MultiCrossBlock(design, [crossing], cs, rcc, WEIGHT); L2 / L3 for blocks of every alignment with 1 or 2 crossings.
Compared fields: design (ordered, de-duplicated), crossings, crossing sustain counts, crossing weights, constraint
multiset, require_complete_crossing, mode, alignment; a refusal on one side only is a difference. (read-only) no
constructor mutates a list it merely aliases from an argument block or a parameter (in-place += / append / extend /
insert / sort on an alias), which would leak one combinator's constraints into every later use of the block.  The laws
equate what reaches _create; how _create turns that into trial counts and crossing weights is C16's clause, evaluated here
as well under its own rule names.
"""
NOT_DECIDED = "that equal _create inputs give equal sequence sets (assumed: _create is deterministic in them), the effect of the weight recomputation inside _create for WEIGHT / EQUAL modes, and laws for blocks whose own construction was refused."

X = "sweetpea/_internal/cross_block.py"
MODES = ["WEIGHT", "REPEAT", "EQUAL"]
ALIGNS = ["EQUAL_PREAMBLE", "POST_PREAMBLE", "PARALLEL_START"]


def mode(m):
    return Enum("RepeatMode", m)


def align(a):
    return Enum("AlignmentMode", a)


def block_from_create(name, vec):
    """summary of a block after _create accepted this vector (fields the combinators read)"""
    ncross = len(vec["crossings"])
    return Rec(name, {
        "orig_design": vec["design"], "orig_crossings": vec["crossings"], "orig_constraints": vec["constraints"],
        "crossing_sustain_counts": vec["crossing_sustain_counts"], "crossing_weights": vec["crossing_weights"],
        "require_complete_crossing": vec["require_complete_crossing"], "alignment": vec["alignment"],
        # desugared state: distinct symbols, so that a constructor that passes it on no longer matches the law
        "crossings": tuple(Sym("%s.desugared_crossing%d" % (name, i)) for i in range(ncross)),
        "design": (Splice("%s.desugared_design" % name),), "constraints": (Splice("%s.desugared_constraints" % name),),
    })


def opaque_block(name, alignment, ncross):
    return Rec(name, {
        "orig_design": (Splice("%s.orig_design" % name),),
        "orig_crossings": tuple(Sym("%s.crossing%d" % (name, i)) for i in range(ncross)),
        "orig_constraints": (Splice("%s.orig_constraints" % name),),
        "crossing_sustain_counts": tuple(Sym("%s.sustain%d" % (name, i)) for i in range(ncross)),
        "crossing_weights": tuple(Sym("%s.weight%d" % (name, i)) for i in range(ncross)),
        "require_complete_crossing": Sym("%s.rcc" % name), "alignment": alignment,
        "crossings": tuple(Sym("%s.desugared_crossing%d" % (name, i)) for i in range(ncross)),
        "design": (Splice("%s.desugared_design" % name),), "constraints": (Splice("%s.desugared_constraints" % name),),
    })


def own_vector(b):
    """the vector an existing block stands for (mode is not stored: the weights are already final)"""
    f = b.fields
    return {"design": f["orig_design"], "crossings": f["orig_crossings"], "crossing_sustain_counts": f["crossing_sustain_counts"],
            "crossing_weights": f["crossing_weights"], "constraints": f["orig_constraints"],
            "require_complete_crossing": f["require_complete_crossing"], "alignment": f["alignment"], "mode": None}


def norm(vec, ignore_mode=False):
    def atoms(v):
        if isinstance(v, AllOf):
            return tuple(sorted(map(repr, v.items)))
        if v is True:
            return ()
        return (repr(v),)
    out = {
        "design": tuple(map(repr, vec["design"])),
        "crossings": tuple(map(repr, vec["crossings"])),
        "crossing_sustain_counts": tuple(map(repr, vec["crossing_sustain_counts"])),
        "crossing_weights": tuple(map(repr, vec["crossing_weights"])),
        "constraints": tuple(sorted(map(repr, vec["constraints"]))),
        "require_complete_crossing": atoms(vec["require_complete_crossing"]),
        "alignment": repr(vec["alignment"]),
    }
    if not ignore_mode:
        out["mode"] = repr(vec["mode"])
    return out


class Side:
    def __init__(self, kind, vec=None, text=None, notes=()):
        self.kind, self.vec, self.text, self.notes = kind, vec, text, list(notes)


def construct(ctx, ref, args):
    f = ctx.fn(ref)
    from .. import absint as _ai
    _ai.HELPERS.clear()
    _ai.HELPERS.update({n: h.node for n, h in f.module.functions.items() if isinstance(h.node, ast.FunctionDef) and h.cls is None})
    full = {}
    d = defaults_of(f.node)
    it = Interp(f.node, {}, f.fq)
    for p in f.params:
        if p == "self":
            continue
        if p in args:
            full[p] = args[p]
        elif p in d:
            full[p] = it.ev(d[p])
        else:
            raise AnalysisError("%s: no value for parameter %s in the law instantiation" % (f.fq, p))
    r = run_constructor(f.node, full, f.fq)
    if r[0] == "refuse":
        return Side("refuse", text=r[1], notes=r[2])
    return Side("create", vec=r[1], notes=r[2])


def compare(ctx, R, law, cell, lhs, rhs, where, ignore_mode=False, known_domain=None):
    """returns True when equal"""
    if lhs.kind == "refuse" and rhs.kind == "refuse":
        ctx.ok(R, where, "%s [%s]: both sides refuse" % (law, cell), trivial=True)
        return True
    if lhs.kind != rhs.kind:
        who = "left" if lhs.kind == "refuse" else "right"
        txt = lhs.text if lhs.kind == "refuse" else rhs.text
        construct_ = "%s: %s side refuses (%s)" % (law, who, (known_domain or txt)[:90])
        ctx.bad(R, where, construct_, "%s [%s]: the %s-hand side raises `%s` while the other side builds a block" % (law, cell, who, txt))
        return False
    a, b = norm(lhs.vec, ignore_mode), norm(rhs.vec, ignore_mode)
    diff = [k for k in a if a[k] != b[k]]
    if not diff:
        ctx.ok(R, where, "%s [%s]: same _create vector" % (law, cell))
        return True
    k = diff[0]
    ctx.bad(R, where, "%s: %s differs" % (law, ", ".join(diff)),
            "%s [%s]: the two sides reach _create with different %s: %s vs %s" % (law, cell, k, a[k], b[k]))
    return False


def rule_laws(ctx):
    R = "C24.law"
    D, CS, RCC = (Splice("design"),), (Splice("cs"),), Sym("rcc")
    mcb, cb, mg, rp = "cross_block:MultiCrossBlock.__init__", "cross_block:CrossBlock.__init__", "cross_block:Merge.__init__", "cross_block:Repeat.__init__"
    where_m, where_r, where_c = ctx.fn(mg), ctx.fn(rp), ctx.fn(cb)
    n = 0
    # ---- L1
    for nc in (1, 2, 3):
        crossings = tuple(Sym("crossing%d" % i) for i in range(nc))
        for m in MODES:
            for a in ALIGNS + [None]:
                args = {"design": D, "crossings": crossings, "constraints": CS, "require_complete_crossing": RCC, "mode": mode(m)}
                margs = {"constraints": CS, "mode": mode(m)}
                if a is not None:
                    args["alignment"] = align(a)
                    margs["alignment"] = align(a)
                lhs = construct(ctx, mcb, args)
                subs = []
                sub_refused = None
                for i, c in enumerate(crossings):
                    s = construct(ctx, cb, {"design": D, "crossing": c, "constraints": (), "require_complete_crossing": RCC})
                    if s.kind == "refuse":
                        sub_refused = s
                        break
                    subs.append(block_from_create("CrossBlock%d" % i, s.vec))
                if sub_refused is not None:
                    rhs = sub_refused
                else:
                    margs["blocks"] = tuple(subs)
                    rhs = construct(ctx, mg, margs)
                n += 1
                compare(ctx, R, "L1 MultiCrossBlock = Merge of CrossBlocks", "%d crossings, %s, %s" % (nc, m, a or "alignment omitted"), lhs, rhs, where_m)
    # ---- L2 / L3 over opaque blocks
    for a in ALIGNS:
        for nc in (1, 2):
            B = opaque_block("block", align(a), nc)
            lhs = construct(ctx, rp, {"block": B, "constraints": CS})
            rhs = construct(ctx, mg, {"blocks": (B,), "constraints": CS, "mode": mode("REPEAT"), "alignment": align("EQUAL_PREAMBLE")})
            n += 1
            compare(ctx, R, "L2 Repeat(block, cs) = Merge([block], cs, REPEAT, EQUAL_PREAMBLE)", "block alignment %s, %d crossing(s)" % (a, nc), lhs, rhs, where_r,
                    known_domain="Merge refuses a block built with another alignment" if a != "EQUAL_PREAMBLE" else None)
            # L3: Merge([block]) = block
            m1 = construct(ctx, mg, {"blocks": (B,)})
            n += 1
            compare(ctx, R, "L3 Merge([block]) = block", "block alignment %s, %d crossing(s)" % (a, nc), m1, Side("create", vec=own_vector(B)), where_m, ignore_mode=True)
            # L3: Repeat(block, []) = block -- Repeat is documented to use EQUAL_PREAMBLE, so the law is stated for such blocks
            if a == "EQUAL_PREAMBLE":
                r1 = construct(ctx, rp, {"block": B, "constraints": ()})
                n += 1
                compare(ctx, R, "L3 Repeat(block, []) = block", "block alignment %s, %d crossing(s)" % (a, nc), r1, Side("create", vec=own_vector(B)), where_r, ignore_mode=True)
    # ---- L4
    c = Sym("crossing")
    lhs = construct(ctx, cb, {"design": D, "crossing": c, "constraints": CS, "require_complete_crossing": RCC})
    rhs = construct(ctx, mcb, {"design": D, "crossings": (c,), "constraints": CS, "require_complete_crossing": RCC, "mode": mode("WEIGHT")})
    n += 1
    compare(ctx, R, "L4 CrossBlock = MultiCrossBlock of one crossing in WEIGHT mode", "", lhs, rhs, where_c)
    ctx.extra["law_cells"] = n
    ctx.require(n >= 50, "only %d law cells were evaluated" % n)
    # the block summary is what _create records
    cr = ctx.fn("cross_block:MultiCrossBlockRepeat._create")
    src = [ast.unparse(s) for s in statements(cr.node)]
    for line in ("self.orig_design = design", "self.orig_crossings = crossings", "self.orig_constraints = constraints", "self.alignment = normalize_alignment(who, alignment)"):
        ctx.check(line in src, R, cr, line, "_create records what the block summary of the law table assumes", "_create no longer contains `%s`" % line)
    blk = ctx.fn("block:Block.__init__")
    srcb = [ast.unparse(s) for s in statements(blk.node)]
    for line in ("self.crossing_sustain_counts = list(crossing_sustain_counts).copy()", "self.crossing_weights = list(crossing_weights).copy()", "self.require_complete_crossing = require_complete_crossing"):
        ctx.check(line in srcb, R, blk, line, "Block.__init__ records what the block summary assumes", "Block.__init__ no longer contains `%s`" % line)
    params = ctx.fn("cross_block:MultiCrossBlockRepeat._create").params
    ctx.check(params == ["self"] + Interp.CREATE_FORMALS, R, cr, "_create signature", "_create's formals are those the vectors are bound to", "_create's parameters changed: %s" % params)


MUTATORS = {"append", "extend", "insert", "sort", "reverse", "remove", "pop", "clear", "update", "add", "setdefault"}


def _mutated_params(g, seen=None):
    """indices of the positional parameters that function `g` mutates in place (mutator call, subscript store / delete, augmented
    assignment on the bare parameter before any rebinding), following calls to functions of the same module one level down"""
    seen = seen or set()
    if g.fq in seen:
        return set()
    seen = seen | {g.fq}
    ps = [a.arg for a in g.node.args.posonlyargs + g.node.args.args]
    live = set(ps)
    out = set()
    for st in statements(g.node):
        if isinstance(st, ast.Assign) and len(st.targets) == 1 and isinstance(st.targets[0], ast.Name) and st.targets[0].id in live:
            live.discard(st.targets[0].id)         # rebound: later mutations are on a new object
            continue
        if isinstance(st, ast.AugAssign) and isinstance(st.target, ast.Name) and st.target.id in live:
            out.add(ps.index(st.target.id))
        for c in ast.walk(st) if not isinstance(st, (ast.For, ast.If, ast.While, ast.With, ast.Try)) else []:
            if isinstance(c, ast.Call) and isinstance(c.func, ast.Attribute) and c.func.attr in MUTATORS and isinstance(c.func.value, ast.Name) and c.func.value.id in live:
                out.add(ps.index(c.func.value.id))
            if isinstance(c, ast.Subscript) and isinstance(c.ctx, (ast.Store, ast.Del)) and isinstance(c.value, ast.Name) and c.value.id in live:
                out.add(ps.index(c.value.id))
            if isinstance(c, ast.Call) and isinstance(c.func, ast.Name) and c.func.id in g.module.functions:
                h = g.module.functions[c.func.id]
                for i in _mutated_params(h, seen):
                    if i < len(c.args) and isinstance(c.args[i], ast.Name) and c.args[i].id in live:
                        out.add(ps.index(c.args[i].id))
    return out


def rule_readonly(ctx, R="C24.read-only"):
    n = 0
    for ref in ("cross_block:MultiCrossBlock.__init__", "cross_block:CrossBlock.__init__", "cross_block:Repeat.__init__", "cross_block:Merge.__init__",
                "cross_block:Nest.__init__", "cross_block:MultiCrossBlockRepeat._create", "block:Block.__init__"):
        f = ctx.fn(ref)
        params = set(f.params) - {"self"}
        alias = {}       # local name -> source text it aliases

        def rooted(e):
            """Name / attribute chain rooted at a parameter (no copy) -> text"""
            cur = e
            while isinstance(cur, ast.Attribute):
                cur = cur.value
            if isinstance(cur, ast.Name) and isinstance(e, (ast.Name, ast.Attribute)):
                if cur.id in params:
                    return ast.unparse(e)
                if cur.id in alias and isinstance(e, ast.Name):
                    return alias[cur.id]
            return None
        bad = []
        for st in statements(f.node):
            if isinstance(st, ast.Assign) and len(st.targets) == 1 and isinstance(st.targets[0], ast.Name):
                r = rooted(st.value)
                name = st.targets[0].id
                if r is not None:
                    alias[name] = r
                else:
                    alias.pop(name, None)
                    if name in params:
                        params.discard(name)        # rebound to a fresh value
            elif isinstance(st, ast.AugAssign):
                r = rooted(st.target) if isinstance(st.target, (ast.Name, ast.Attribute)) else None
                if r is not None and not ast.unparse(st.target).startswith("self."):
                    bad.append((st, "%s (aliases %s)" % (ast.unparse(st.target), r)))
            for c in ast.walk(st) if not isinstance(st, (ast.For, ast.If, ast.While, ast.With, ast.Try)) else []:
                if isinstance(c, ast.Call) and isinstance(c.func, ast.Attribute) and c.func.attr in MUTATORS:
                    r = rooted(c.func.value)
                    if r is not None and not ast.unparse(c.func.value).startswith("self."):
                        bad.append((st, "%s.%s (aliases %s)" % (ast.unparse(c.func.value), c.func.attr, r)))
                if isinstance(c, ast.Subscript) and isinstance(c.ctx, (ast.Store, ast.Del)):
                    r = rooted(c.value)
                    if r is not None and not ast.unparse(c.value).startswith("self."):
                        bad.append((st, "%s[...] (aliases %s)" % (ast.unparse(c.value), r)))
                # a helper of the module that mutates the list it is handed (append / += / item store on its parameter)
                if isinstance(c, ast.Call) and isinstance(c.func, ast.Name) and c.func.id in f.module.functions:
                    h = f.module.functions[c.func.id]
                    for i in sorted(_mutated_params(h)):
                        if i < len(c.args):
                            r = rooted(c.args[i])
                            if r is not None and not ast.unparse(c.args[i]).startswith("self."):
                                bad.append((st, "%s through %s(), which mutates its parameter `%s` in place (aliases %s)" % (
                                    ast.unparse(c.args[i]), h.name, [a.arg for a in h.node.args.posonlyargs + h.node.args.args][i], r)))
        # a parameter list that is mutated in place (append / += on the parameter itself) also mutates the caller's list -- or the shared default
        for st in statements(f.node):
            for c in ast.walk(st) if not isinstance(st, (ast.For, ast.If, ast.While, ast.With, ast.Try)) else []:
                if isinstance(c, ast.Call) and isinstance(c.func, ast.Attribute) and c.func.attr in MUTATORS and isinstance(c.func.value, ast.Name) and c.func.value.id in params:
                    bad.append((st, "parameter `%s` (.%s)" % (c.func.value.id, c.func.attr)))
        n += 1
        ctx.check(not bad, R, f, "%s mutates no argument" % f.qual, "%s builds its lists fresh; argument blocks and parameter lists are only read" % f.qual,
                  "%s mutates %s in place: the change is visible in the argument block (its orig_* lists are what every later Repeat / Merge / Nest of that block reads)" % (
                      f.qual, bad[0][1] if bad else ""), bad[0][0] if bad else None)
    ctx.require(n == 7, "constructors not found")


def check(ctx):
    rule_laws(ctx)
    rule_readonly(ctx)
    # the block summary of the law table (orig_* = the caller's pre-desugaring values) is what _create records and what the combinators read
    from . import C23
    C23.rule_kind(ctx, R="C24.summary")
    # the laws equate what reaches _create; the two sides then denote the same sequences only if _create derives trial counts and
    # crossing weights from those arguments in one way (mode handling included): C16's clauses, under their own rule names
    if not ctx.is_control or getattr(ctx, "nested_ok", False):
        from ..report import include
        include(ctx, "C16")
    mod = sys.modules[__name__]
    control(ctx, mod, "Merge takes weights from the sustain counts",
            lambda s: variants.in_function(s, X, "Merge.__init__", "for w in b.crossing_weights:", "for w in b.crossing_sustain_counts:"), "C24.law")
    control(ctx, mod, "CrossBlock in EQUAL mode",
            lambda s: variants.in_function(s, X, "CrossBlock.__init__", "mode=RepeatMode.WEIGHT", "mode=RepeatMode.EQUAL"), "C24.law")
    control(ctx, mod, "Repeat appends to the block's own constraint list",
            lambda s: variants.in_function(
                variants.in_function(s, X, "Repeat.__init__", "block.orig_constraints + constraints,", "all_constraints,"),
                X, "Repeat.__init__", "        self._create(who,\n",
                "        all_constraints = block.orig_constraints\n        all_constraints += constraints\n        self._create(who,\n"), "C24.read-only")
    ctx.min_instances("C24.law", 55)
    ctx.min_instances("C24.read-only", 7)
    ctx.min_instances("C24.summary", 14)
