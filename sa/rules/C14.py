"""C14 -- trial/factor/level variables are allocated and decoded consistently."""
import ast
import sys

from ..astutil import call_attr, dotted, statements, calls
from ..facts import Facts, fact
from ..report import control
from .. import variants

TECHNIQUE = "sibling comparison of the five encoders and two decoders of the variable layout against a frozen fact table (strides, region boundary, level order, applicability query), on symbolic normal forms"
EXPLANATION = """
Decides that all encoders and decoders of the variable layout use the same strides, the same region boundary and
the same level order, and that auxiliaries start above the layout: per branch on has_complex_window the multiplier
of the preceding-trial count is variables_per_trial() (grid factors) / len(f.levels) (complex-window factors) in
_encode_variable and factor_variables_for_trial, and the decoder's modulus is the same quantity; the grid /
complex boundary is grid_variables() in first_variable_for_level, decode_variable and Gen.decode (<= / > on
1-based variables, < on the 0-based index); the grid level order is get_all_levels(filter(not has_complex_window,
act_design)) in the encoder, the decoder and Consistency.apply (which walks the same order with len(f.levels)
steps); complex factors are laid out in act_design order with variables_for_factor(f) variables each, in encoder,
decoder and Consistency.apply; the per-trial applicability is always asked with the sustain division; variables are
1-based = 0-based index + 1 everywhere; build_backend_request starts fresh at 1 + variables_per_sample(), and
variables_per_sample / grid_variables / variables_per_trial are the documented sums.  (memo-key) a memo table of the Block family is keyed by
every parameter its method reads (the parameter itself or a copy / constant shift of it, not a projection).
"""
NOT_DECIDED = "the numeric offsets for a concrete design, excluded-level handling in factor_variables_for_trial, and window shifts of derivations (C01/C15)."

R = "C14.layout"
SIMPLE = "[_b0 for _b0 in self.act_design if not(_b0.has_complex_window)]"
PREV = "self._get_previous_trials_variable_count(f, %s)"


def rule_memo_key(ctx, R="C14.memo-key"):
    """A memo table of the Block family (an attribute dictionary that one method both looks up and stores into) must be keyed by
    everything the cached value depends on: every parameter the method reads has to occur in the key -- itself, or a local that
    is only ever a copy / a constant shift of it.  A projection of a parameter (a call result, an attribute) identifies a class of
    arguments, not the argument, and makes two different computations share one entry."""
    blockbase = ctx.repo.cls("block:Block")
    n = 0
    for c in [blockbase] + list(blockbase.all_subclasses()):
        for name, m in sorted(c.methods.items()):
            if isinstance(m.node, ast.Lambda):
                continue
            loads, stores = {}, {}
            for x in ast.walk(m.node):
                if isinstance(x, ast.Subscript) and dotted(x.value) and dotted(x.value).startswith("self.") and isinstance(x.ctx, ast.Store):
                    stores.setdefault(dotted(x.value), []).append(x.slice)
                # a lookup that tolerates absence marks a memo table: table.get(key) / key in table
                if isinstance(x, ast.Compare) and len(x.ops) == 1 and isinstance(x.ops[0], (ast.In, ast.NotIn)) and dotted(x.comparators[0]) and \
                        dotted(x.comparators[0]).startswith("self."):
                    loads.setdefault(dotted(x.comparators[0]), []).append(x.left)
                if isinstance(x, ast.Call) and call_attr(x) == "get" and dotted(x.func.value) and dotted(x.func.value).startswith("self.") and x.args:
                    loads.setdefault(dotted(x.func.value), []).append(x.args[0])
            tables = sorted(set(loads) & set(stores))
            if not tables:
                continue
            params = [a.arg for a in m.node.args.posonlyargs + m.node.args.args if a.arg != "self"]
            read = {x.id for x in ast.walk(m.node) if isinstance(x, ast.Name) and isinstance(x.ctx, ast.Load) and x.id in params}
            # what a local stands for: the parameters it copies (x = p, x += const, x -= const); None when it is anything else
            stands = {p: {p} for p in params}
            changed = True
            while changed:
                changed = False
                for st in statements(m.node):
                    if isinstance(st, ast.Assign) and len(st.targets) == 1 and isinstance(st.targets[0], ast.Name):
                        t = st.targets[0].id
                        if t in params:
                            continue
                        if isinstance(st.value, ast.Name) and st.value.id in stands and stands[st.value.id] is not None:
                            new = (stands.get(t) or set()) | stands[st.value.id] if stands.get(t, set()) is not None else None
                        else:
                            new = None
                        if t not in stands or stands[t] != new:
                            if not (t in stands and stands[t] is None):
                                stands[t] = new
                                changed = True
            for tb in tables:
                for key in loads[tb] + stores[tb]:
                    k = key
                    if isinstance(k, ast.Name):
                        defs = [st.value for st in statements(m.node) if isinstance(st, ast.Assign) and len(st.targets) == 1 and dotted(st.targets[0]) == k.id]
                        if len(defs) == 1:
                            k = defs[0]
                    covered = set()
                    parts = k.elts if isinstance(k, ast.Tuple) else [k]
                    for e in parts:
                        if isinstance(e, ast.Name) and stands.get(e.id):
                            covered |= stands[e.id]
                    n += 1
                    missing = sorted(read - covered)
                    ctx.check(not missing, R, m, "%s[%s]" % (tb, ast.unparse(k)), "the memo key names every parameter the method reads",
                              "%s.%s caches in %s under the key `%s`, which does not contain the parameter(s) %s the cached value is computed from (only a "
                              "projection of them, or nothing): calls with different %s share one entry" % (
                                  c.name, name, tb, ast.unparse(k), ", ".join("`%s`" % p for p in missing), " / ".join(missing)), key)
    ctx.require(n >= 2, "memo tables of the Block family: %d keyed accesses found (_cached_previous_count confirmed by hand)" % n)


def check(ctx):
    # ---------------------------------------------------------------- encoders
    f = ctx.fn("block:Block._encode_variable")
    F = Facts(f)
    fact(ctx, R, f, "_encode_variable base", F.assigns("offset"), ["self.first_variable_for_level(f, l)"],
         "the encoded variable starts from the level's first variable")
    fact(ctx, R, f, "_encode_variable branch", F.tests(), ["f.has_complex_window"], "one branch per layout region")
    fact(ctx, R, f, "_encode_variable strides", F.augs("offset"),
         ["+= len(f.levels)*" + PREV % "trial", "+= " + PREV % "trial" + "*self.variables_per_trial()"],
         "stride per preceding applicable trial: len(f.levels) for complex-window factors, variables_per_trial() on the grid")
    fact(ctx, R, f, "_encode_variable 1-based", F.returns(), ["1 + ite(f.has_complex_window, self.first_variable_for_level(f, l) + len(f.levels)*self._get_previous_trials_variable_count(f, trial), self.first_variable_for_level(f, l) + self._get_previous_trials_variable_count(f, trial)*self.variables_per_trial())"], "variables are 1-based (index + 1)")
    # the complex stride must be in the true branch of has_complex_window
    br = [s for s in F.stmts if isinstance(s, ast.If)]
    ok = len(br) == 1 and "len(f.levels)" in ast.unparse(br[0].body[0]) and "variables_per_trial" in ast.unparse(br[0].orelse[0])
    ctx.check(ok, R, f, "_encode_variable branch polarity", "complex stride under has_complex_window, grid stride otherwise",
              "the strides of _encode_variable are attached to the wrong branches of has_complex_window")

    f = ctx.fn("block:Block.factor_variables_for_trial")
    F = Facts(f)
    fact(ctx, R, f, "factor_variables_for_trial applicability", F.tests()[:1],
         ["not(f.applies_to_trial(1 + (-1 + t)//(self.sustain_count(f))))"], "applicability asked with the sustain division")
    rets_ = [x for x in F.stmts if isinstance(x, ast.Return) and x.value is not None and not (isinstance(x.value, ast.List) and not x.value.elts)]
    ctx.require(len(rets_) == 1, "factor_variables_for_trial: result return not found")
    off = str(F.at(rets_[0], ast.Name(id="offset", ctx=ast.Load())))
    want_off = "ite(f.has_complex_window, len(f.levels)*%s, %s*self.variables_per_trial())" % (PREV % "t", PREV % "t")
    ctx.check(off == want_off, R, f, "factor_variables_for_trial strides %s" % off, "same strides as _encode_variable: complex stride under has_complex_window, grid stride otherwise",
              "factor_variables_for_trial offsets its variables by `%s`, expected `%s`" % (off, want_off), rets_[0])
    ctx.ok(R, f, "factor_variables_for_trial branch polarity (part of the stride term)", trivial=True)
    r = F.returns()
    ctx.check(len(r) == 1 and r[0].startswith("[1 + _b0 + ") and " for _b0 in [self.first_variable_for_level(f, _b0) for _b0 in " in r[0],
              R, f, "factor_variables_for_trial 1-based", "each level's first variable + offset + 1",
              "factor_variables_for_trial returns `%s`" % (r[0][:140] if r else r))

    f = ctx.fn("block:Block.first_variable_for_level")
    F = Facts(f)
    fact(ctx, R, f, "first_variable_for_level returns", F.returns(),
         ["offset + self.grid_variables()", "get_all_levels(%s).index((factor, level))" % SIMPLE],
         "complex-window factors start at grid_variables(); grid levels are numbered by get_all_levels over the grid factors")
    fact(ctx, R, f, "first_variable_for_level complex order", F.iters(), ["[_b0 for _b0 in self.act_design if _b0.has_complex_window]"],
         "complex-window factors are laid out in act_design order")
    fact(ctx, R, f, "first_variable_for_level complex offsets", F.augs("offset"),
         ["+= f.levels.index(level)", "+= self.variables_for_factor(f)"],
         "each preceding complex factor occupies variables_for_factor(f) variables; the level adds its index")
    body = ast.unparse(f.node)
    ctx.check("if f == factor:\n                offset += f.levels.index(level)\n                break" in body, R, f,
              "first_variable_for_level stop", "the scan stops at the factor itself", "the complex-factor scan no longer stops at the factor itself")

    # ---------------------------------------------------------------- decoders
    f = ctx.fn("block:Block.decode_variable")
    F = Facts(f)
    fact(ctx, R, f, "decode_variable 0-based", F.augs("variable"), ["-= 1"], "decoder shifts the 1-based variable to a 0-based index")
    t = F.tests()
    ctx.check(t[:1] == ["(-1 + variable < self.grid_variables())"], R, f, "decode_variable boundary %s" % t[:1],
              "grid region = indices below grid_variables()", "decode_variable region test is %s" % t[:1])
    fact(ctx, R, f, "decode_variable modulus", F.assigns("variable"), ["(-1 + variable)%(self.variables_per_trial())"],
         "position within the trial = index mod variables_per_trial() (the encoder's grid stride)")
    fact(ctx, R, f, "decode_variable grid order", F.assigns("self._simple_tuples"), ["get_all_levels(%s)" % SIMPLE],
         "decode table = get_all_levels over the grid factors (the encoder's order)")
    r = F.returns()
    ctx.check(r == ["self._simple_tuples[(-1 + variable)%(self.variables_per_trial())]",
                    "get_all_levels([f])[(-1 - self.first_variable_for_level(f, f.levels[0]) + variable)%(len(f.levels))]"], R, f,
              "decode_variable returns", "grid: table lookup; complex: (index - factor start) mod len(f.levels) (the encoder's complex stride)",
              "decode_variable returns %s" % r)
    fact(ctx, R, f, "decode_variable complex order", F.iters(), ["[_b0 for _b0 in self.act_design if _b0.has_complex_window]"],
         "complex-window factors scanned in act_design order")
    ctx.check("(-1 + variable in range(self.first_variable_for_level(f, f.levels[0]), self.first_variable_for_level(f, f.levels[0]) + self.variables_for_factor(f)))" in t,
              R, f, "decode_variable complex range", "a complex factor owns [start, start + variables_for_factor(f))",
              "decode_variable complex range test changed: %s" % t)

    f = ctx.fn("base:Gen.decode")
    F = Facts(f)
    sol = "[_b0 for _b0 in solution if (0 < _b0)]"
    fact(ctx, R, f, "Gen.decode positives", F.assigns("solution"), [sol], "only true variables are decoded")
    fact(ctx, R, f, "Gen.decode grid split", F.assigns("simple_variables"),
         ["[_b0 for _b0 in %s if (_b0 <= block.grid_variables())]" % sol], "grid variables: v <= grid_variables() (1-based)")
    fact(ctx, R, f, "Gen.decode complex split", F.assigns("complex_variables"),
         ["[_b0 for _b0 in %s if (block.grid_variables() < _b0)]" % sol], "complex variables: v > grid_variables()")
    fact(ctx, R, f, "Gen.decode complex start", F.assigns("start"), ["1 + block.first_variable_for_level(f, f.levels[0])"],
         "a complex factor's 1-based start = first variable + 1")
    fact(ctx, R, f, "Gen.decode complex end", F.assigns("end"),
         ["1 + block.first_variable_for_level(f, f.levels[0]) + block.variables_for_factor(f)"], "end = start + variables_for_factor(f)")
    ex = [e for e in F.exprs() if "applies_to_trial" in e]
    ctx.check(len(ex) == 1 and ex[0].startswith("[].append(ite(f.applies_to_trial(1 + (n)//(block.sustain_count(f))), ") and
              ex[0].endswith(".pop(0), ''))"), R, f, "Gen.decode fill", "empty entry exactly where the factor does not apply (sustain-divided query)",
              "Gen.decode's per-trial fill changed: %s" % (ex[0][:120] if ex else ex))
    ctx.check("range(block.trials_per_sample())" in F.iters(), R, f, "Gen.decode trials", "one entry per trial", "Gen.decode no longer emits one entry per trial")
    ctx.check(F.exprs()[:1] == ["solution.sort()"], R, f, "Gen.decode order", "variables decoded in ascending order (trial order)", "Gen.decode no longer sorts the solution")
    st = F.assigns("string_tuples")
    ctx.check(len(st) == 1 and st[0].startswith("[(_b0[0].name, _b0[1].name) for _b0 in [block.decode_variable(_b0) for _b0 in "),
              R, f, "Gen.decode names", "factor and level names come from decode_variable", "Gen.decode's name extraction changed")

    # ---------------------------------------------------------------- sizes
    f = ctx.fn("cross_block:MultiCrossBlockRepeat.variables_per_trial")
    F = Facts(f)
    fact(ctx, R, f, "variables_per_trial", F.assigns("self._variables_per_trial"),
         ["sum([len(_b0.levels) for _b0 in [_b0 for _b0 in self.act_design if not(_b0.has_complex_window)]])"],
         "variables per trial = number of levels of the grid factors")
    f = ctx.fn("cross_block:MultiCrossBlockRepeat.grid_variables")
    fact(ctx, R, f, "grid_variables", Facts(f).returns(), ["self.trials_per_sample()*self.variables_per_trial()"], "grid = trials x variables per trial")
    f = ctx.fn("block:Block.variables_per_sample")
    fact(ctx, R, f, "variables_per_sample", Facts(f).returns(), ["reduce(lambda _b0,_b1: _b0 + self.variables_for_factor(_b1), self.act_design, 0)"],
         "support = sum of variables_for_factor over act_design")
    f = ctx.fn("block:Block.variables_for_factor")
    fact(ctx, R, f, "variables_for_factor", Facts(f).returns(),
         ["reduce(lambda _b0,_b1: ite(f.applies_to_trial(1 + (-1 + _b1)//(self.sustain_count(f))), _b0 + len(f.levels), _b0), "
          "range(1 + start, 1 + ite(end, end, self.trials_per_sample())), 0)"],
         "len(f.levels) variables per applicable trial (sustain-divided query) of the range")
    f = ctx.fn("block:Block._get_previous_trials_variable_count")
    F = Facts(f)
    ctx.check("f.applies_to_trial(1 + (-1 + t)//(self.sustain_count(f)))" in F.tests() and F.augs("count") == ["+= 1"] and
              "(t < trial)" in F.tests(), R, f, "_get_previous_trials_variable_count",
              "counts the applicable trials strictly before `trial` (sustain-divided query)", "the preceding-trial count changed")
    f = ctx.fn("block:Block.build_backend_request")
    fact(ctx, R, f, "fresh start", Facts(f).assigns("fresh"), ["1 + self.variables_per_sample()"], "auxiliary variables start right above the layout")
    f = ctx.fn("level:get_all_levels")
    fact(ctx, R, f, "get_all_levels", Facts(f).returns(), ["[(_b0, _b1) for _b0 in design for _b1 in _b0.levels]"],
         "level order = factors in order, each factor's levels in order")
    f = ctx.fn("block:Block.__init__")
    fact(ctx, R, f, "act_design", Facts(f).assigns("self.act_design"), ["[_b0 for _b0 in self.design if not(self.factor_is_implied(_b0))]"],
         "act_design = design order minus implied factors")

    # ---------------------------------------------------------------- Consistency walks the same layout
    f = ctx.fn("constraint:Consistency.apply")
    F = Facts(f)
    fact(ctx, R, f, "Consistency order", F.iters(),
         ["range(block.trials_per_sample())", "[_b0 for _b0 in block.act_design if not(_b0.has_complex_window)]", "[_b0 for _b0 in block.act_design if _b0.has_complex_window]"],
         "trial by trial over the grid factors in act_design order, then the complex factors in act_design order")
    fact(ctx, R, f, "Consistency start", F.assigns("next_var"), ["1"], "first variable is 1")
    fact(ctx, R, f, "Consistency steps", F.augs("next_var"), ["+= len(f.levels)", "+= block.variables_for_factor(f)"],
         "steps len(f.levels) per grid factor and variables_for_factor(f) per complex factor")
    fact(ctx, R, f, "Consistency grid request", F.assigns("new_request"), ["LowLevelRequest('EQ', 1, list(range(next_var, len(f.levels) + next_var)))"],
         "exactly one level of a factor per trial")
    fact(ctx, R, f, "Consistency complex chunks", F.assigns("chunks"),
         ["list(chunk_list([_b0 + next_var for _b0 in range(block.variables_for_factor(f))], len(f.levels)))"],
         "complex factor variables chunked by len(f.levels)")
    ctx.check(F.augs("backend_request.ll_requests") == ["+= [LowLevelRequest('EQ', 1, _b0) for _b0 in " + F.assigns("chunks")[0] + "]"] if F.assigns("chunks") else False,
              R, f, "Consistency complex request", "exactly one level per applicable trial of a complex factor", "Consistency's complex-factor requests changed")
    nest_ok = False
    outer = [s for s in f.node.body if isinstance(s, ast.For)]
    if len(outer) == 2 and isinstance(outer[0].body[0], ast.For):
        nest_ok = True
    ctx.check(nest_ok, R, f, "Consistency nesting", "grid loop nested trial-major (trial outside, factor inside)",
              "Consistency.apply loop nesting changed (the grid is trial-major)")

    # ---------------------------------------------------------------- get_variable / encode_combination delegate
    f = ctx.fn("block:Block.get_variable")
    fact(ctx, R, f, "get_variable", Facts(f).returns(), ["self._encode_variable(level[0], level[1], trial_number)"], "get_variable = _encode_variable")
    f = ctx.fn("block:Block.encode_combination")
    fact(ctx, R, f, "encode_combination", Facts(f).returns(), ["tuple([self._encode_variable(_b0, _b1, trial) for (_b0, _b1) in combination.items()])"],
         "a combination is the tuple of its members' variables at that trial")

    rule_memo_key(ctx)
    mod = sys.modules[__name__]
    control(ctx, mod, "complex branch of _encode_variable uses the grid stride",
            lambda s: variants.in_function(s, "sweetpea/_internal/block.py", "Block._encode_variable",
                                           "offset += len(f.levels) * previous_trials", "offset += self.variables_per_trial() * previous_trials"), "C14.layout")
    control(ctx, mod, "fresh starts inside the layout",
            lambda s: variants.in_function(s, "sweetpea/_internal/block.py", "Block.build_backend_request",
                                           "fresh = 1 + self.variables_per_sample()", "fresh = self.variables_per_sample()"), "C14.layout")
    control(ctx, mod, "previous-trial memo keyed by a projection of the factor",
            lambda s: variants.in_function(variants.in_function(s, "sweetpea/_internal/block.py", "Block._get_previous_trials_variable_count",
                                                                "key = (f, t)", "key = (self.sustain_count(f), t)"),
                                           "sweetpea/_internal/block.py", "Block._get_previous_trials_variable_count",
                                           "self._cached_previous_count[(f, t)] = count", "self._cached_previous_count[(self.sustain_count(f), t)] = count"), "C14.memo-key")
    ctx.min_instances("C14.layout", 45)
    ctx.min_instances("C14.memo-key", 2)
