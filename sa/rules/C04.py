"""C04 -- RandomGen returns only valid trial sequences."""
import ast
import sys

from ..astutil import call_attr, dotted, statements, calls
from ..cfg import CFG
from ..facts import Facts, fact
from ..registry import concrete
from ..report import control
from .. import variants
from . import C07

TECHNIQUE = "must-pass-through rule on the CFG of the rejection loop (accept only through the false branch of the violation test on the same candidate), unfiltered-iteration rule, conformance registry over the Constraint family, crossing re-check conditions"
EXPLANATION = """
Decides that no candidate can be accepted without passing every constraint's rejection test and, where
construction does not guarantee them, the additional crossing checks, and that no constraint opts out silently:
(accept) in RandomGen.__sample the only statement that adds to the returned samples is reachable only through the
false branch of __are_constraints_violated(block, run, ...) evaluated on the same `run`, which was completed by
fill_in_nonpreamble_uncrossed_derived first and is not re-bound in between; (all constraints)
__are_constraints_violated iterates block.constraints without filter and returns True on the first constraint whose
potential_sample_conforms is falsy; (crossings) the crossing re-check runs whenever the design has crossed
complex-window derived factors or more than one crossing, covers every crossing except the main one (all of them in
the complex case), returns True as soon as the mismatch exceeds acceptable_error, and False only at the end; the
public entry point uses acceptable_error 0; (registry) every concrete constraint class whose
is_complex_for_combinatoric() is (inherited) True has a potential_sample_conforms that can return False; bodies that
always return True are allowed only for the frozen table {Consistency, Cross, Derivation: by construction of the
candidates; Reify, MinimumTrials, ContinuousConstraint: not predicates on the discrete sequence}; the
'complex' flag that routes IterateGen/UniformGen to RandomGen is computed from all constraints and factors.
Per-constraint geometry agreement with the SAT side is C07's.
"""
NOT_DECIDED = "that candidates are built correctly (crossing by permutation, derived levels by predicate) and any conformance arithmetic beyond C07."

CONSTANT_TRUE_OK = {
    "Consistency": "one level per factor and trial by construction of candidates",
    "Cross": "main crossing by permutation; other crossings re-checked in __are_constraints_violated",
    "Derivation": "derived levels are computed from their predicates when candidates are filled in",
    "Reify": "not a predicate on sequences",
    "MinimumTrials": "acts on the trial count",
    "ContinuousConstraint": "continuous values are checked in Block._check_constraints (C22)",
}


def _always_true(f) -> bool:
    rets = [s for s in statements(f.node) if isinstance(s, ast.Return)]
    return bool(rets) and all(isinstance(r.value, ast.Constant) and r.value.value is True for r in rets)


def check(ctx):
    repo = ctx.repo
    R = "C04.accept"
    f = ctx.fn("random:RandomGen.__sample")
    g = CFG(f.node)
    F = Facts(f)
    rets = [s for s in statements(f.node) if isinstance(s, ast.Return)]
    final = rets[-1]
    ctx.require(isinstance(final.value, ast.Call) and call_attr(final.value) == "SamplingResult" and isinstance(final.value.args[0], ast.Name),
                "__sample: final SamplingResult(<samples>, ..) not found")
    sv = final.value.args[0].id
    adds = [s for s in statements(f.node) if (isinstance(s, ast.Expr) and isinstance(s.value, ast.Call) and dotted(s.value.func) in (sv + ".append", sv + ".extend", sv + ".insert"))
            or (isinstance(s, ast.AugAssign) and dotted(s.target) == sv)]
    ctx.require(len(adds) >= 1, "__sample: nothing is ever added to the returned samples")
    tests = [s for s in statements(f.node) if isinstance(s, ast.If) and any(isinstance(c, ast.Call) and call_attr(c) == "__are_constraints_violated" for c in ast.walk(s.test))]
    ctx.check(len(tests) == 1, R, f, "tests %d" % len(tests), "one violation test guards acceptance", "expected exactly one __are_constraints_violated test, found %d" % len(tests))
    if len(tests) == 1:
        t = tests[0]
        tn = g.node_of(t)
        neg = isinstance(t.test, ast.UnaryOp) and isinstance(t.test.op, ast.Not)
        accept_label = "T" if neg else "F"
        call = [c for c in ast.walk(t.test) if isinstance(c, ast.Call) and call_attr(c) == "__are_constraints_violated"][0]
        for a in adds:
            an = g.node_of(a)
            # every path from the loop's candidate generation to the add passes the test ...
            gens = [s for s in statements(f.node) if isinstance(s, ast.Assign) and isinstance(s.value, ast.Call) and call_attr(s.value) == "generate_random_samples"]
            ctx.require(len(gens) == 1, "__sample: generate_random_samples call not found")
            via_test = g.every_path_passes(g.node_of(gens[0]), an, [tn])
            # ... and leaves it through the accepting edge only
            wrong = g.reachable(tn, edge_filter=lambda a_, b_, lab: not (a_ is tn and lab == accept_label))
            ctx.check(via_test and an.id not in wrong, R, f, "add %s" % ast.unparse(a),
                      "`%s` is reachable only through the non-violated branch of the rejection test" % ast.unparse(a).split("\n")[0],
                      "`%s` can be reached without the candidate having passed __are_constraints_violated (a candidate could be "
                      "returned unchecked)" % ast.unparse(a).split("\n")[0], a)
            val = a.value.args[0] if isinstance(a, ast.Expr) else a.value
            cand = ast.unparse(call.args[1]) if len(call.args) > 1 else "?"
            ctx.check(cand in [n.id for n in ast.walk(val) if isinstance(n, ast.Name)], R, f, "same candidate %s" % cand,
                      "the value added is derived from the candidate `%s` that was tested" % cand,
                      "the value added to the samples (%s) is not derived from the tested candidate `%s`" % (ast.unparse(val), cand), a)
            rebind = [s for s in statements(f.node) if isinstance(s, ast.Assign) and dotted(s.targets[0]) == cand and
                      g.has(s) and g.node_of(s).id in g.reachable(tn, avoid=[g.node_of(gens[0])]) and g.every_path_passes(tn, an, []) is False and
                      an.id in g.reachable(g.node_of(s), avoid=[g.node_of(gens[0])])]
            ctx.check(not rebind, R, f, "rebind", "the candidate is not re-bound between test and acceptance",
                      "`%s` is re-bound after the rejection test and before it is added: %s" % (cand, [ast.unparse(s) for s in rebind]))
        fill = [s for s in statements(f.node) if isinstance(s, ast.Assign) and isinstance(s.value, ast.Call) and call_attr(s.value) == "fill_in_nonpreamble_uncrossed_derived"]
        ctx.check(len(fill) == 1 and g.dominates(g.node_of(fill[0]), tn) and dotted(fill[0].targets[0]) == ast.unparse(call.args[1]), R, f, "fill before test",
                  "derived levels are filled in before the candidate is tested", "the candidate is tested before fill_in_nonpreamble_uncrossed_derived completed it")
        args = [ast.unparse(a) for a in call.args]
        ctx.check(len(args) == 6 and args[0] in ("cast(CrossBlock, block)", "block") and args[2] == "enumerator" and args[5] == "acceptable_error", R, f,
                  "test args %s" % args, "the test gets the block, the enumerator and the acceptable error", "__are_constraints_violated is called with %s" % args)
        body_end = ast.unparse(t.body[-1]) if not neg else ""
        ctx.check(neg or body_end == "continue", R, f, "reject path", "a violating candidate is dropped (continue)", "the violating branch no longer drops the candidate: ends with `%s`" % body_end)
    pub = ctx.fn("random:RandomGen.sample")
    fact(ctx, R, pub, "default error", Facts(pub).returns(), ["RandomGen.__sample(block, sample_count, 0)"], "the class entry point tolerates no crossing mismatch")
    gate = [s for s in f.node.body if isinstance(s, ast.If) and ast.unparse(s.test) == "block.show_errors()"]
    ctx.check(len(gate) == 1 and ast.unparse(gate[0].body[0]) == "return SamplingResult([], {})", R, f, "error gate", "fatal design errors yield no samples", "the show_errors gate of RandomGen changed")

    # ---- all constraints
    R = "C04.constraints"
    v = ctx.fn("random:RandomGen.__are_constraints_violated")
    Fv = Facts(v)
    lp = [s for s in v.node.body if isinstance(s, ast.For)]
    if not lp:
        # the loop over block.constraints sits under a condition: judge the condition (it must run for every candidate)
        nested = [s for s in statements(v.node) if isinstance(s, ast.For) and dotted(s.iter) == "block.constraints"]
        ctx.require(len(nested) >= 1, "__are_constraints_violated: constraint loop not found")
        ctx.bad(R, v, "conditional rejection loop", "the loop that consults the block's constraints runs only under %s: candidates are accepted without being checked otherwise" % Fv.conds(nested[0]), nested[0])
        lp = nested
    first = lp[0]
    ok = dotted(first.iter) == "block.constraints" and len(first.body) == 1 and isinstance(first.body[0], ast.If) and not first.body[0].orelse and \
        ast.unparse(first.body[0].test) == "not %s.potential_sample_conforms(sample, block)" % first.target.id and ast.unparse(first.body[0].body[0]) == "return True"
    ctx.check(ok, R, v, "loop %s" % ast.unparse(first).split("\n")[0], "every constraint of the block is consulted; the first non-conforming one rejects",
              "the rejection loop changed: `%s` / `%s`" % (ast.unparse(first.iter), ast.unparse(first.body[0]).split("\n")[0] if first.body else ""), first)
    ctx.check(first in v.node.body and (v.node.body.index(first) == 0 or all(isinstance(s, ast.Expr) for s in v.node.body[:v.node.body.index(first)])), R, v, "loop first",
              "the constraint loop is unconditional", "the constraint loop is no longer executed unconditionally")
    cond = [s for s in v.node.body if isinstance(s, ast.If)]
    ctx.require(len(cond) == 1, "__are_constraints_violated: crossing re-check not found")
    t = str(Fv.at(cond[0], cond[0].test))
    ctx.check(t == "((1 < len(block.crossings)) or enumerator.has_crossed_complex_derived_factors)", R, v, "re-check condition %s" % t,
              "crossings are re-checked with complex crossed derived factors or several crossings", "the crossing re-check runs when `%s`" % t, cond[0])
    inner = [s for s in statements(v.node) if isinstance(s, ast.If) and "main_crossing" in ast.unparse(s.test)]
    ctx.check(len(inner) == 1 and str(Fv.at(inner[0], inner[0].test)) == "((enumerator._partitions.main_crossing != i) or enumerator.has_crossed_complex_derived_factors)", R, v, "which crossings",
              "every crossing but the main one (all in the complex case)", "the set of re-checked crossings changed: %s" % (ast.unparse(inner[0].test) if inner else "?"))
    cl = [s for s in statements(v.node) if isinstance(s, ast.For) and dotted(s.iter) is None and "block.crossings" in ast.unparse(s.iter)]
    ctx.check(len(cl) == 1 and ast.unparse(cl[0].iter) == "enumerate(block.crossings)", R, v, "crossing loop", "all crossings are enumerated", "the crossing loop iterates %s" % [ast.unparse(s.iter) for s in cl])
    rej = [s for s in statements(v.node) if isinstance(s, ast.If) and ast.unparse(s.test) == "bad > acceptable_error"]
    ctx.check(len(rej) == 2 and all(ast.unparse(s.body[0]) == "return True" for s in rej), R, v, "threshold", "reject as soon as the mismatch exceeds acceptable_error (after full rounds and after the leftover)",
              "the mismatch threshold tests changed (%d found)" % len(rej))
    last = v.node.body[-1]
    ctx.check(isinstance(last, ast.Return) and ast.unparse(last) == "return False" and
              [ast.unparse(s) for s in statements(v.node) if isinstance(s, ast.Return)].count("return False") == 1, R, v, "accept", "False (not violated) only after everything was checked",
              "__are_constraints_violated can return False early")
    en = ctx.fn("random:UCSolutionEnumerator.__init__")
    fact(ctx, R, en, "complex flag", Facts(en).assigns("self.has_crossed_complex_derived_factors"), ["(1 < self.__complex_crossing_instances)"],
         "the flag is set exactly when crossed complex-window factors multiply the crossing")

    # ---- registry
    R = "C04.registry"
    base = repo.cls("base_constraint:Constraint")
    bdef = base.methods.get("is_complex_for_combinatoric")
    ctx.require(bdef is not None and ast.unparse(bdef.node.body[-1]) == "return True", "Constraint.is_complex_for_combinatoric default is no longer True")
    n = 0
    for c in sorted(base.all_subclasses(), key=lambda c: c.name):
        if not concrete(c):
            continue
        n += 1
        psc = c.lookup("potential_sample_conforms")
        ctx.require(psc is not None, "%s has no potential_sample_conforms" % c.fq)
        chain = [psc]
        # follow delegation to helper methods of the class (e.g. _potential_counts_conform)
        trivial_true = _always_true(psc)
        if trivial_true:
            ok = c.name in CONSTANT_TRUE_OK
            if ok:
                ctx.exception(c.name, CONSTANT_TRUE_OK[c.name])
            ctx.check(ok, R, c, "%s constant-True conformance" % c.name, "%s: conformance by construction (%s)" % (c.name, CONSTANT_TRUE_OK.get(c.name, "")),
                      "%s.potential_sample_conforms always returns True: RandomGen (and the mismatch checker) never reject a sequence that "
                      "violates this constraint" % c.name, psc.node)
        else:
            can_false = any(isinstance(r, ast.Return) and not (isinstance(r.value, ast.Constant) and r.value.value is True) for r in statements(psc.node))
            ctx.check(can_false, R, c, "%s can reject" % c.name, "%s.potential_sample_conforms can reject" % c.name, "%s.potential_sample_conforms cannot return a falsy value" % c.name)
            # no accept that does not depend on the sample: an early `return True` must be guarded by a test on data derived from `sample`
            from ..cfg import guard_stack as _gs
            gs = _gs(psc.node)
            sample_name = psc.params[1] if len(psc.params) > 1 else "sample"
            derived = {sample_name}
            for _ in range(3):
                for st in statements(psc.node):
                    tgt = None
                    if isinstance(st, ast.Assign):
                        tgt, val = st.targets, st.value
                    elif isinstance(st, ast.For):
                        tgt, val = [st.target], st.iter
                    if tgt is not None and any(isinstance(x, ast.Name) and x.id in derived for x in ast.walk(val)):
                        for t in tgt:
                            derived |= {x.id for x in ast.walk(t) if isinstance(x, ast.Name)}
            top = psc.node.body
            for r in statements(psc.node):
                if isinstance(r, ast.Return) and isinstance(r.value, ast.Constant) and r.value.value is True and r is not top[-1]:
                    guards = gs.get(id(r), [])
                    dep = any(isinstance(x, ast.Name) and x.id in derived for t, _p in guards for x in ast.walk(t))
                    in_loop_over_sample = any(isinstance(lp, (ast.For, ast.While)) and any(y is r for y in ast.walk(lp)) and
                                              any(isinstance(x, ast.Name) and x.id in derived for x in ast.walk(lp.iter if isinstance(lp, ast.For) else lp.test))
                                              for lp in statements(psc.node))
                    # the tail of a checking block: an earlier statement of the same block already examined the candidate
                    after_check = False
                    for node in ast.walk(psc.node):
                        for fld in ("body", "orelse"):
                            b = getattr(node, fld, None)
                            if isinstance(b, list) and any(x is r for x in b):
                                i = [k for k, x in enumerate(b) if x is r][0]
                                after_check = any(isinstance(y, ast.Name) and y.id in derived for x in b[:i] for y in ast.walk(x))
                    if c.name == "LatinSquare" and [ast.unparse(t) for t, _p in guards] == ["len(self.factors) == 1"]:
                        ctx.exception("LatinSquare", "a Latin square over a single factor constrains nothing")
                        continue
                    ctx.check(dep or in_loop_over_sample or after_check, R, psc, "%s early accept" % c.name, "an early `return True` of %s depends on the candidate" % c.name,
                              "%s.potential_sample_conforms accepts (`return True` under %s) without looking at the candidate sequence: for those designs RandomGen and the mismatch "
                              "checker never reject a violation of this constraint" % (c.name, [ast.unparse(t) for t, _p in guards]), r)
    ctx.require(n >= 15, "only %d concrete constraint classes" % n)
    for cname in ("AtMostKInARow", "AtLeastKInARow", "ExactlyK", "ExactlyKInARow", "ExactlyKMultipleInARow"):
        h = ctx.fn("constraint:%s._potential_counts_conform" % cname)
        ctx.check(not _always_true(h), R, h, "%s counts" % cname, "%s judges the run lengths" % cname, "%s._potential_counts_conform always returns True" % cname)
    cr = ctx.fn("cross_block:MultiCrossBlockRepeat._create")
    flag = [s for s in statements(cr.node) if isinstance(s, ast.If) and "is_complex_for_combinatoric" in ast.unparse(s.test)]
    from ..sym import cond_literals
    lits = cond_literals(flag[0].test, True, Facts(cr).snaps.get(id(flag[0]))) if flag else []
    want_l = sorted(["not([_b0 for _b0 in self.constraints if _b0.is_complex_for_combinatoric()])",
                     "not([_b0 for _b0 in _desugar_factors_with_weights(design, [_b0 for _b0 in crossings if (0 < len(_b0))])[0] if _b0.has_complex_window])"])
    ctx.check(len(flag) == 1 and sorted(lits) == want_l
              and ast.unparse(flag[0].body[0]) == "self.complex_factors_or_constraints = False", R, cr, "routing flag",
              "RandomGen is auto-selected only when no constraint is complex for the combinatoric sampler and no factor has a complex window",
              "the routing flag complex_factors_or_constraints is cleared under %s" % lits)
    for ref, solver in (("iterate:IterateGen.sample", "IterateSATGen"), ("uniform:UniformGen.sample", "UniGen")):
        d = ctx.fn(ref)
        body = ast.unparse(d.node)
        ctx.check("if block.complex_factors_or_constraints:\n        return %s.sample(block, sample_count)\n    else:\n        return RandomGen.sample(block, sample_count)" % solver in body,
                  R, d, "%s routing" % d.cls.name, "complex designs go to the formula-based sampler, the rest to RandomGen", "%s routing changed" % d.cls.name)

    C07.crossing_facts(ctx, R="C04.crossing")
    C07.applicability_sites(ctx, R="C04.applicability")

    mod = sys.modules[__name__]
    control(ctx, mod, "append before the rejection test",
            lambda s: variants.in_function(s, "sweetpea/_internal/sampling_strategy/random.py", "RandomGen.__sample",
                                           "            run = enumerator.fill_in_nonpreamble_uncrossed_derived(run, trials_per_run)\n",
                                           "            run = enumerator.fill_in_nonpreamble_uncrossed_derived(run, trials_per_run)\n            samples.append(enumerator.factors_and_levels_to_names(run))\n"),
            "C04.accept")
    control(ctx, mod, "Exclude never rejects",
            lambda s: variants.in_function(s, "sweetpea/_internal/constraint.py", "Exclude.potential_sample_conforms",
                                           "            if l == level:\n                return False\n", "            pass\n"), "C04.registry")
    control(ctx, mod, "skip Pin in the rejection loop",
            lambda s: variants.in_function(s, "sweetpea/_internal/sampling_strategy/random.py", "RandomGen.__are_constraints_violated",
                                           "        for ct in block.constraints:\n", "        for ct in block.constraints:\n            if isinstance(ct, Exclude):\n                continue\n"), "C04.constraints")
    ctx.min_instances("C04.applicability", 10)
    ctx.min_instances("C04.accept", 6)
    ctx.min_instances("C04.constraints", 8)
    ctx.min_instances("C04.registry", 20)
