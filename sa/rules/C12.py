"""C12 -- adder and population-count circuits compute sums."""
import ast
import sys

from ..astutil import call_attr, dotted, statements
from ..facts import Facts, fact
from ..gadgets import extract
from ..model import AnalysisError
from ..report import control
from ..terms import TermEval, Lit, NONE, defines, ClauseV, CNFV
from .. import variants

TECHNIQUE = "DSL term extraction of the one-bit gadget builders into clause tables (operator meanings read off the dunder methods) decided by truth table against the gate, plus role/bit-order typing of the multi-bit builders on symbolic normal forms"
EXPLANATION = """
Decides: (gadgets) the clause table that half_adder, full_adder (with and without carry-in) and saturate_adder (with
and without carry-in) emit -- extracted from their expression trees by term rewriting, with the meaning of every
operator (~ | & ^ % + **, and_vars, or_vars, xor_vars, xnor_vars, distribute) read off the corresponding method body
of Var / Clause / CNF -- is the definitional CNF of the gate: for every input assignment exactly one output
assignment satisfies it, the first returned variable is the carry (majority), the second the sum (parity), the
saturating sum is the disjunction; full_adder without carry-in is the half adder; (emission) prepend / zero_out /
set_to_zero / set_to_one add exactly the unit clauses they promise, get_fresh numbers consecutively; (wiring) in
ripple_carry and ripple_saturate the carry component of each adder feeds the next iteration's carry-in and the sum
component is accumulated, operands are consumed least-significant first (reversed), ripple_carry returns
(final carry, LSB-first sums), ripple_saturate uses the saturating gadget exactly at bit position saturate_at,
appends the final carry only while the operands are narrower than saturate_at and returns MSB-first; pop_count pads
to a power of two with zero-fixed fresh variables and _pop_count_layer adds the two halves pairwise, rebuilding
MSB-first numbers ([carry] + reversed(LSB-first sums)).
"""
NOT_DECIDED = "that the composition computes the sum for every width (an induction over widths), saturation arithmetic for every count."

R = "C12.gadget"


def _maj(x):
    return sum(x) >= 2


def gadget_checks(ctx, te):
    repo = ctx.repo
    a, b, c = Lit("a"), Lit("b"), Lit("cin")
    half = ctx.fn("cnf:CNF.half_adder")
    full = ctx.fn("cnf:CNF.full_adder")
    sat = ctx.fn("cnf:CNF.saturate_adder")
    cases = [
        ("half_adder(a, b)", half, {"a": a, "b": b}, 2,
         lambda x: [x["a"] and x["b"], x["a"] != x["b"]]),
        ("full_adder(a, b, cin)", full, {"a": a, "b": b, "cin": c}, 2,
         lambda x: [_maj([x["a"], x["b"], x["cin"]]), (x["a"] + x["b"] + x["cin"]) % 2 == 1]),
        ("full_adder(a, b, None)", full, {"a": a, "b": b, "cin": NONE}, 2,
         lambda x: [x["a"] and x["b"], x["a"] != x["b"]]),
        ("saturate_adder(a, b, cin)", sat, {"a": a, "b": b, "cin": c}, 1,
         lambda x: [x["a"] or x["b"] or x["cin"]]),
        ("saturate_adder(a, b, None)", sat, {"a": a, "b": b, "cin": NONE}, 1,
         lambda x: [x["a"] or x["b"]]),
    ]
    out = {}
    for name, f, args, nout, spec in cases:
        g = extract(repo, te, f, args)
        out[name] = g
        if len(g.outputs) != nout or not all(isinstance(o, Lit) and not o.neg and o.name in g.fresh for o in g.outputs):
            ctx.bad(R, f, "%s outputs %s" % (name, g.outputs), "%s must return its %d fresh output variable(s); it returns %s" % (
                name, nout, g.outputs), f.node)
            continue
        onames = [o.name for o in g.outputs]
        extra = [v for v in g.fresh if v not in onames]

        def sp(x, onames=onames, spec=spec):
            return dict(zip(onames, spec(x)))
        if extra:
            ctx.bad(R, f, "%s unreturned fresh %s" % (name, extra),
                    "%s allocates fresh variable(s) %s that it does not return (their definition cannot be relied on)" % (name, extra), f.node)
            continue
        cex = defines(g.clauses, g.inputs, onames, sp)
        roles = "carry, sum" if nout == 2 else "saturating sum"
        ctx.check(cex is None, R, f, "%s: %s" % (name, cex),
                  "%s: %d clauses define (%s) = gate(%s) uniquely" % (name, len(g.clauses), roles, ", ".join(g.inputs)),
                  "%s is not the definitional CNF of its gate: %s" % (name, cex), f.node)
    ctx.extra["operator_methods_read"] = sorted(te.used_methods)
    return out


def emission_checks(ctx, te):
    R2 = "C12.emission"
    repo = ctx.repo
    x1, x2, v = Lit("x1"), Lit("x2"), Lit("v")
    # prepend: three type cases append exactly the clause(s)
    f = ctx.fn("cnf:CNF.prepend")
    F = Facts(f)
    fact(ctx, R2, f, "prepend cases", F.tests(), ["isinstance(other, Var)", "isinstance(other, Clause)", "isinstance(other, CNF)"],
         "prepend distinguishes Var / Clause / CNF")
    fact(ctx, R2, f, "prepend effects", F.exprs(), ["self._vals.append(Clause(other))", "self._vals.append(other)", "self._vals.extend(other._vals)"],
         "a Var becomes a unit clause, a Clause is added, a CNF contributes all its clauses")
    ctx.check(any("NotImplementedError" in r for r in F.raises()), R2, f, "prepend else", "anything else is refused", "prepend silently ignores other argument types")
    # zero_out / set_to_zero / set_to_one: what they hand to prepend
    f = ctx.fn("cnf:CNF.zero_out")
    st = [s for s in f.node.body if isinstance(s, ast.Assign)]
    ctx.require(len(st) == 1, "zero_out: expected one assignment")
    val = te.eval(st[0].value, {"in_list": [x1, x2]}, f)
    ok = isinstance(val, CNFV) and [repr(c) for c in val.clauses] == ["(~x1)", "(~x2)"]
    ctx.check(ok, R2, f, "zero_out %r" % (val,), "zero_out([x1, x2]) = unit clauses ~x1, ~x2", "zero_out builds %r" % (val,))
    ctx.check(Facts(f).exprs() == ["self.prepend(CNF([[~(_b0)] for _b0 in in_list]))"], R2, f, "zero_out emits", "the units are prepended",
              "zero_out no longer prepends its unit clauses")
    for name, want in (("set_to_zero", "self.prepend(~(variable))"), ("set_to_one", "self.prepend(variable)")):
        f = ctx.fn("cnf:CNF." + name)
        fact(ctx, R2, f, name, Facts(f).exprs(), [want], "%s asserts the %s literal" % (name, "negative" if "zero" in name else "positive"))
    f = ctx.fn("cnf:CNF.get_fresh")
    F = Facts(f)
    ctx.check(F.augs("self._num_vars") == ["+= 1"] and F.returns() == ["Var(self._num_vars)"], R2, f, "get_fresh",
              "fresh variables are numbered consecutively above everything allocated so far", "get_fresh changed: %s %s" % (F.augs("self._num_vars"), F.returns()))
    f = ctx.fn("cnf:CNF.get_n_fresh")
    fact(ctx, R2, f, "get_n_fresh", Facts(f).returns(), ["[self.get_fresh() for _b0 in range(n)]"], "n consecutive fresh variables, in order")
    f = ctx.fn("cnf:Var.__invert__")
    fact(ctx, R2, f, "Var.__invert__", Facts(f).returns(), ["Var(-self._val)"], "negation flips the sign of the DIMACS literal")


def wiring_checks(ctx):
    R3 = "C12.wiring"
    f = ctx.fn("cnf:CNF.ripple_carry")
    F = Facts(f)
    fact(ctx, R3, f, "ripple_carry order", F.iters(), ["zip(reversed(xs), reversed(ys))"], "operands (MSB-first lists) are consumed least-significant bit first")
    fact(ctx, R3, f, "ripple_carry initial carry", F.assigns("cin")[:1], ["None"], "no carry into the lowest bit")
    fact(ctx, R3, f, "ripple_carry carry chain", F.assigns("cin")[1:], ["self.full_adder(x, y, cin)[0]"], "component 0 (carry) of each adder feeds the next carry-in")
    fact(ctx, R3, f, "ripple_carry sums", F.exprs(), ["[].append(self.full_adder(x, y, cin)[1])"], "component 1 (sum) is accumulated (LSB-first)")
    r = [s for s in f.node.body if isinstance(s, ast.Return)]
    ctx.check(len(r) == 1 and ast.unparse(r[0].value) in ("(cast(Var, cin), s_accum)", "(cin, s_accum)"), R3, f, "ripple_carry result",
              "returns (final carry, LSB-first sums)", "ripple_carry returns %s" % (ast.unparse(r[0].value) if r else "?"))
    f = ctx.fn("cnf:CNF.ripple_saturate")
    F = Facts(f)
    fact(ctx, R3, f, "ripple_saturate order", F.iters(), ["enumerate(zip(reversed(xs), reversed(ys)))"], "least-significant bit first, position counted from 0")
    fact(ctx, R3, f, "ripple_saturate tests", F.tests(), ["(1 + i == saturate_at)", "(len(xs) < saturate_at)"],
         "saturating gadget exactly at bit position saturate_at (i + 1 == saturate_at); final carry kept only below the saturation width")
    fact(ctx, R3, f, "ripple_saturate carry chain", F.assigns("cin"), ["None", "self.full_adder(x, y, cin)[0]"], "carry chain as in ripple_carry")
    sums_ = F.exprs()
    merged_ = ["[].append(ite((1 + i == saturate_at), self.saturate_adder(x, y, cin), self.full_adder(x, y, cin)[1]))", "[].append(cin)", "[].reverse()"]
    fact(ctx, R3, f, "ripple_saturate sums", merged_ if sums_ == merged_ else sums_,
         merged_ if sums_ == merged_ else ["[].append(self.saturate_adder(x, y, cin))", "[].append(self.full_adder(x, y, cin)[1])", "[].append(cin)", "[].reverse()"],
         "saturated top bit / ordinary sums accumulated LSB-first, final carry appended, then reversed to MSB-first")
    sat_if = [s for s in statements(f.node) if isinstance(s, ast.If) and "saturate_at" in ast.unparse(s.test) and "i" in ast.unparse(s.test)]
    ok = len(sat_if) == 1 and "saturate_adder" in ast.unparse(sat_if[0].body[0]) and "full_adder" in ast.unparse(sat_if[0].orelse[0]) \
        and not any("cin =" in ast.unparse(s) for s in sat_if[0].body)
    ctx.check(ok, R3, f, "ripple_saturate branch", "the saturating gadget sits in the i+1 == saturate_at branch", "ripple_saturate's branches changed")
    r = [s for s in f.node.body if isinstance(s, ast.Return)]
    order = [type(s).__name__ for s in f.node.body][-3:]
    ctx.check(len(r) == 1 and dotted(r[0].value) == "s_accum" and ast.unparse(f.node.body[-2]) == "s_accum.reverse()", R3, f, "ripple_saturate result",
              "returns the accumulator after reversing (MSB-first)", "ripple_saturate no longer reverses before returning")

    f = ctx.fn("cnf:CNF.pop_count")
    F = Facts(f)
    pad = "self.get_n_fresh((2)**(math.ceil(math.log(len(in_list), 2))) - len(in_list))"
    fact(ctx, R3, f, "pop_count padding", F.assigns("aux_list"), [pad], "pads the inputs to the next power of two with fresh variables")
    fact(ctx, R3, f, "pop_count zero-fix", F.exprs()[-1:], ["self.zero_out(%s)" % pad], "every padding variable is fixed to 0")
    fact(ctx, R3, f, "pop_count start", F.returns(), ["self._pop_count_layer([[_b0] for _b0 in chain(in_list, %s)], saturate_at)" % pad],
         "one-bit numbers for all inputs and paddings go into the adder tree")
    ctx.check(F.tests()[:1] == ["not(in_list)"] and any("ValueError" in r for r in F.raises()), R3, f, "pop_count empty", "an empty input list is refused",
              "pop_count no longer refuses an empty list")
    f = ctx.fn("cnf:CNF._pop_count_layer")
    F = Facts(f)
    fact(ctx, R3, f, "_pop_count_layer base", (F.tests()[:1], F.returns()[:1]), (["(1 == len(bit_list))"], ["bit_list[0]"]), "a single number is the result")
    fact(ctx, R3, f, "_pop_count_layer halves", F.iters(), ["zip(bit_list[:(len(bit_list))//(2)], bit_list[(len(bit_list))//(2):])"],
         "numbers are added pairwise: first half with second half")
    from ..facts import canon_loopvars
    fact(ctx, R3, f, "_pop_count_layer sums", canon_loopvars(f, F.exprs()),
         ["[].append(concat([self.ripple_carry(_v0, _v1)[0]], list(reversed(self.ripple_carry(_v0, _v1)[1]))))",
          "[].append(self.ripple_saturate(_v0, _v1, saturate_at))", "[].reverse()"],
         "exact sum = [carry] + reversed(LSB-first sums) (MSB-first); saturating sum from ripple_saturate; list order restored")
    fact(ctx, R3, f, "_pop_count_layer recursion", F.returns()[1:], ["self._pop_count_layer([], saturate_at)"], "recursion on the list of partial sums")
    t = [s for s in statements(f.node) if isinstance(s, ast.If) and "saturate_at" in ast.unparse(s.test)]
    ctx.check(len(t) == 1 and ast.unparse(t[0].test) == "saturate_at == 0" and "ripple_carry" in ast.unparse(t[0].body[0]) and
              "ripple_saturate" in ast.unparse(t[0].orelse[0]), R3, f, "_pop_count_layer mode", "saturate_at == 0 selects exact addition",
              "the exact/saturating selection of _pop_count_layer changed")
    r = [s for s in f.node.body if isinstance(s, ast.Return)]
    ctx.check(dotted(r[-1].value.args[0]) == "var_list", R3, f, "_pop_count_layer passes sums", "the partial sums are what recursion continues with",
              "_pop_count_layer recurses on %s" % ast.unparse(r[-1].value.args[0]))


def optional_carry_checks(ctx):
    """The adders take an optional carry-in and test it by truthiness (`if not cin`, `if (cin)`): that is a presence
    test only while a Var is always truthy, i.e. while Var defines neither __bool__ nor __len__."""
    R = "C12.optional"
    cnf = ctx.repo.module("cnf")
    var = ctx.cls("cnf:Var")
    tests = []
    for name in ("full_adder", "saturate_adder", "ripple_carry", "ripple_saturate", "half_adder"):
        f = ctx.fn("cnf:CNF." + name)
        opt = [p for p in f.params if p != "self" and (f.param_annotation(p) is not None and "Optional" in ast.unparse(f.param_annotation(p)))]
        defaults = {a.arg for a, d in zip(f.node.args.args[len(f.node.args.args) - len(f.node.args.defaults):], f.node.args.defaults) if isinstance(d, ast.Constant) and d.value is None}
        names = set(opt) | defaults | ({"cin"} if name in ("ripple_carry", "ripple_saturate") else set())
        for st in statements(f.node):
            t = st.test if isinstance(st, (ast.If, ast.While)) else None
            for node in ([t] if t is not None else []) + [x.test for x in ast.walk(st) if isinstance(x, ast.IfExp)]:
                bare = node.operand if isinstance(node, ast.UnaryOp) and isinstance(node.op, ast.Not) else node
                if isinstance(bare, ast.Name) and bare.id in names:
                    tests.append((f, node))
    truthy_hooks = [m for m in ("__bool__", "__len__") if m in var.methods]
    for f, node in tests:
        ctx.check(not truthy_hooks, R, f, "presence test `%s`" % ast.unparse(node), "`%s` tests whether a carry was supplied (a Var is always truthy)" % ast.unparse(node),
                  "%s tests its optional carry by truthiness (`%s`) but Var defines %s: a supplied literal that evaluates false (e.g. a negated one) is treated as no carry at all, "
                  "and the adder silently degrades to a half adder" % (f.qual, ast.unparse(node), truthy_hooks), node)
    ctx.require(len(tests) >= 2, "only %d truthiness tests of an optional carry found" % len(tests))


def check(ctx):
    te = TermEval(ctx.repo)
    optional_carry_checks(ctx)
    gadget_checks(ctx, te)
    emission_checks(ctx, te)
    wiring_checks(ctx)
    mod = sys.modules[__name__]
    control(ctx, mod, "flip one literal in the full adder's sum",
            lambda s: variants.in_function(s, "sweetpea/_internal/core/cnf.py", "CNF.full_adder",
                                           "s_val     = (~a | ~b | cin) & (~a | b | ~cin)", "s_val     = (~a | ~b | cin) & (~a | b | cin)"), "C12.gadget")
    control(ctx, mod, "feed the sum into the carry chain",
            lambda s: variants.in_function(s, "sweetpea/_internal/core/cnf.py", "CNF.ripple_carry", "cin = c", "cin = s"), "C12.wiring")
    control(ctx, mod, "Var grows a polarity __bool__",
            lambda s: variants.replace_text(s, "sweetpea/_internal/core/cnf.py", "    def __int__(self) -> int:\n        return self._val\n",
                                            "    def __int__(self) -> int:\n        return self._val\n\n    def __bool__(self) -> bool:\n        return self._val > 0\n"), "C12.optional")
    control(ctx, mod, "Var.__invert__ returns the variable itself",
            lambda s: variants.in_function(s, "sweetpea/_internal/core/cnf.py", "Var.__invert__", "return Var(-self._val)", "return Var(self._val)"), "C12")
    ctx.min_instances("C12.gadget", 5)
    ctx.min_instances("C12.optional", 2)
    ctx.min_instances("C12.emission", 9)
    ctx.min_instances("C12.wiring", 20)
