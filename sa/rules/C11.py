"""C11 -- formula-to-CNF conversions preserve meaning."""
import ast
import itertools
import sys

from ..astutil import call_attr, dotted, statements, calls, isinstance_classes
from ..facts import Facts, fact
from ..model import AnalysisError
from ..report import control
from ..terms import (TermEval, Lit, Formula, Builtin, Closure, formulas_as_clauses, defines, equivalent, formula_value)
from .. import variants

TECHNIQUE = "structural induction checked case by case: case exhaustiveness of every recursive conversion function (isinstance chains), and for each case the clause / formula template extracted from the syntax tree (children as metavariables, n-ary cases instantiated at lengths 0..k) decided by truth table"
EXPLANATION = """
Decides, as a rule-level induction (a recursion whose every case preserves meaning given that its recursive calls
do, preserves meaning): (cases) every recursive function of logic.py tests exactly the constructors that can reach
it (And Or If Iff Not int before Iff-elimination, And Or Not int after); (Tseitin) for each case of __tseitin_rep the
clauses appended on a cache miss, with the already converted children as metavariables and n-ary cases instantiated
at lengths 0..3 (thorough 0..6), define the representative uniquely as op(children); the cache key is str(K(children))
with K the constructor of the case and the children in order; clauses are added exactly when the representative is
new; new variables come only from _Cache.get, one per miss, consecutive from the given start; to_cnf_tseitin asserts
the root representative and returns the next free variable; (rewrites) If/Iff elimination, De Morgan and double
negation, the switching step ((~s | A) & (s | B) has the models of A | B after projecting the fresh s away, fresh + 1
is returned) and the naive step (clause product) are equivalent to their left-hand sides by truth table;
(flattening) __build_and/__build_or flatten only children of their own operator; (serialisation) cnf_to_json maps
Or of int / Not(int) to signed ints, bare ints to unit clauses and raises on anything else.
"""
NOT_DECIDED = "termination; the induction itself is the standard argument, each step is what is checked. Sorting by __order_clauses is assumed meaning-neutral (And/Or are commutative)."

CASES = ["And", "Or", "If", "Iff", "Not", "int"]


def _chain(fn_node):
    """top-level if/elif chain on isinstance(<param>, K): [(class names, body)]"""
    out = []
    sts = [s for s in fn_node.body if isinstance(s, ast.If)]
    if not sts:
        return out
    cur = sts[0]
    while True:
        ks = []
        t = cur.test
        parts = t.values if isinstance(t, ast.BoolOp) and isinstance(t.op, ast.Or) else [t]
        for p in parts:
            r = isinstance_classes(p)
            if r:
                ks += r[1]
        out.append((ks, cur.body, cur))
        if len(cur.orelse) == 1 and isinstance(cur.orelse[0], ast.If):
            cur = cur.orelse[0]
        else:
            break
    return out


def _spec(kind, ins):
    if kind == "And":
        return lambda x: {"rep": all(x[i] for i in ins)}
    if kind == "Or":
        return lambda x: {"rep": any(x[i] for i in ins)}
    if kind == "If":
        return lambda x: {"rep": (not x[ins[0]]) or x[ins[1]]}
    if kind == "Iff":
        return lambda x: {"rep": x[ins[0]] == x[ins[1]]}
    if kind == "Not":
        return lambda x: {"rep": not x[ins[0]]}


def tseitin_cases(ctx, te, rule="C11.tseitin"):
    f = ctx.fn("logic:__tseitin_rep")
    chain = _chain(f.node)
    kinds = [k for ks, _, _ in chain for k in ks]
    ctx.check(kinds == CASES, "C11.cases" if rule.startswith("C11") else rule, f, "cases %s" % kinds,
              "__tseitin_rep handles And Or If Iff Not int", "__tseitin_rep handles %s, the formula language is %s" % (kinds, CASES))
    maxlen = 6 if ctx.tier == "thorough" else 3
    for ks, body, node in chain:
        kind = ks[0] if ks else "?"
        if kind == "int":
            ok = len(body) == 1 and isinstance(body[0], ast.Return) and dotted(body[0].value) == "f"
            ctx.check(ok, rule, f, "int case", "a variable represents itself", "the int case no longer returns the variable itself", node)
            continue
        if kind not in ("And", "Or", "If", "Iff", "Not"):
            continue
        # children: names assigned from recursive calls
        child_names, nary = [], False
        for s in body:
            if isinstance(s, ast.Assign) and isinstance(s.targets[0], ast.Name):
                src = ast.unparse(s.value)
                if "__tseitin_rep(" in src:
                    child_names.append(s.targets[0].id)
                    if src.replace(" ", "").startswith("list(map(lambdac:__tseitin_rep(c,clauses,cache),f.input_list))"):
                        nary = True
                    else:
                        want = {"If": ["f.p", "f.q"], "Iff": ["f.p", "f.q"], "Not": ["f.c"]}.get(kind, [])
                        arg0 = ast.unparse(s.value.args[0]) if isinstance(s.value, ast.Call) and s.value.args else ""
                        pos = len(child_names) - 1
                        ctx.check(pos < len(want) and arg0 == want[pos], rule, f, "%s child %d = %s" % (kind, pos, arg0),
                                  "%s child %d is converted from %s" % (kind, pos, want[pos] if pos < len(want) else "?"),
                                  "%s case converts `%s` as its child %d" % (kind, arg0, pos), s)
        ctx.require(child_names, "__tseitin_rep %s case: no converted children found" % kind)
        # cache key and miss test
        key = [s for s in body if isinstance(s, ast.Assign) and dotted(s.targets[0]) == "new_rep"]
        ctx.require(len(key) == 1, "__tseitin_rep %s case: representative lookup not found" % kind)
        kt = ast.unparse(key[0].value).replace(" ", "")
        want_key = "cache.get(str(%s(%s)))" % (kind, ",".join(child_names))
        ctx.check(kt == want_key, rule, f, "%s key %s" % (kind, kt), "%s case keys the cache with str(%s(children in order))" % (kind, kind),
                  "%s case looks its representative up under `%s`, expected `%s`: equal keys for different subformulas (or different keys "
                  "for equal ones) break the definition" % (kind, kt, want_key), key[0])
        old = [s for s in body if isinstance(s, ast.Assign) and dotted(s.targets[0]) == "old_next_var"]
        g = CFG_order(body)
        miss = [s for s in body if isinstance(s, ast.If)]
        ok = len(old) == 1 and ast.unparse(old[0].value) == "cache.get_next_variable()" and len(miss) == 1 and \
            ast.unparse(miss[0].test).replace(" ", "") in ("old_next_var==new_rep", "new_rep==old_next_var") and not miss[0].orelse \
            and body.index(old[0]) < body.index(key[0]) < body.index(miss[0])
        ctx.check(ok, rule, f, "%s miss test" % kind, "%s case adds clauses exactly when the representative is new" % kind,
                  "%s case: the cache-miss test changed (clauses must be added iff the lookup allocated a new variable)" % kind, miss[0] if miss else node)
        ret = [s for s in body if isinstance(s, ast.Return)]
        ctx.check(len(ret) == 1 and dotted(ret[0].value) == "new_rep", rule, f, "%s returns rep" % kind, "%s case returns its representative" % kind,
                  "%s case does not return its representative" % kind)
        if not miss:
            continue
        # templates
        lens = range(0, maxlen + 1) if nary else [None]
        for n in lens:
            env = {"new_rep": Lit("rep")}
            if nary:
                ins = ["x%d" % i for i in range(n)]
                env[child_names[0]] = [Lit(i) for i in ins]
            else:
                ins = ["p", "q"][:len(child_names)] if kind != "Not" else ["p"]
                for cn, i in zip(child_names, ins):
                    env[cn] = Lit(i)
            emitted = []
            for s in miss[0].body:
                if isinstance(s, ast.Expr) and isinstance(s.value, ast.Call) and dotted(s.value.func) in ("clauses.append", "clauses.extend"):
                    v = te.eval(s.value.args[0], env, f)
                    if dotted(s.value.func).endswith("append"):
                        emitted.append(v)
                    else:
                        emitted.extend(list(v))
                else:
                    raise AnalysisError("__tseitin_rep %s case: statement outside the template fragment: %s" % (kind, ast.unparse(s)))
            cl = formulas_as_clauses(emitted)
            cex = defines(cl, ins, ["rep"], _spec(kind, ins))
            label = "%s%s" % (kind, "" if n is None else "[%d]" % n)
            ctx.check(cex is None, rule, f, "%s template: %s" % (label, cex), "%s: %d clauses define rep <-> %s(children) uniquely" % (label, len(cl), kind),
                      "Tseitin %s case is not a definition of its representative: %s" % (label, cex), miss[0])


def CFG_order(body):
    return None


def cache_discipline(ctx, rule="C11.cache"):
    g = ctx.fn("logic:_Cache.get")
    F = Facts(g)
    body = ast.unparse(g.node)
    ok = F.tests() == ["(s in self.cache)"] and "self.cache[s] = self.next_variable" in body and F.augs("self.next_variable") == ["+= 1"] \
        and F.returns() == ["self.cache[s]", "self.cache[s]"]
    ctx.check(ok, rule, g, "_Cache.get", "hit: cached variable; miss: the next variable, counter advanced by one",
              "_Cache.get changed: tests %s returns %s" % (F.tests(), F.returns()))
    miss = [s for s in g.node.body if isinstance(s, ast.If)]
    if miss and miss[0].orelse:
        order = [ast.unparse(s) for s in miss[0].orelse]
        ctx.check(order[:2] == ["self.cache[s] = self.next_variable", "self.next_variable += 1"], rule, g, "_Cache.get order",
                  "the new variable is recorded before the counter advances", "miss branch order changed: %s" % order)
    i = ctx.fn("logic:_Cache.__init__")
    ctx.check(Facts(i).assigns("self.next_variable") == ["next_variable"], rule, i, "_Cache start", "fresh numbering starts at the given variable",
              "_Cache no longer starts numbering at the given variable")
    gn = ctx.fn("logic:_Cache.get_next_variable")
    ctx.check(Facts(gn).returns() == ["self.next_variable"], rule, gn, "get_next_variable", "reports the next free variable", "get_next_variable changed")
    t = ctx.fn("logic:to_cnf_tseitin")
    F = Facts(t)
    ok = F.assigns("cache") == ["_Cache(next_variable)"] and F.assigns("new_rep") == ["__tseitin_rep(f, [], _Cache(next_variable))"] and \
        F.exprs() == ["[].append(__tseitin_rep(f, [], _Cache(next_variable)))"] and \
        F.returns() == ["(And([]), _Cache(next_variable).get_next_variable())"]
    ctx.check(ok, rule, t, "to_cnf_tseitin", "root representative asserted as a unit; returns (clauses, next free variable)",
              "to_cnf_tseitin changed: %s | %s | %s" % (F.assigns("new_rep"), F.exprs(), F.returns()))
    r = [s for s in t.node.body if isinstance(s, ast.Return)]
    ctx.check(len(r) == 1 and ast.unparse(r[0].value) == "(And(clauses), cache.get_next_variable())", rule, t, "to_cnf_tseitin result",
              "the fresh range reported is exactly what the cache handed out", "to_cnf_tseitin returns %s" % (ast.unparse(r[0].value) if r else "?"))
    # new variables come only from _Cache.get
    rep = ctx.fn("logic:__tseitin_rep")
    srcs = {ast.unparse(s.value).split("(")[0] for s in statements(rep.node) if isinstance(s, ast.Assign) and dotted(s.targets[0]) == "new_rep"}
    ctx.check(srcs == {"cache.get"}, rule, rep, "rep source %s" % sorted(srcs), "representatives come only from cache.get", "a representative is obtained from %s" % sorted(srcs))


def _formula_env(te):
    ident = Closure(["x"], ast.Name(id="x", ctx=ast.Load()), {})
    return {"__build_or": Builtin("Or"), "__build_and": Builtin("And"), "__eliminate_iff": ident, "__apply_demorgan": ident,
            "__distribute_ors_naive": ident}


def rewrite_rules(ctx, te, rule="C11.rewrite"):
    p, q = Lit("p"), Lit("q")
    names = ["p", "q"]
    # ---- Iff / If elimination
    f = ctx.fn("logic:__eliminate_iff")
    chain = _chain(f.node)
    kinds = [k for ks, _, _ in chain for k in ks]
    ctx.check(kinds == CASES, "C11.cases", f, "cases %s" % kinds, "__eliminate_iff handles And Or If Iff Not int", "__eliminate_iff handles %s" % kinds)
    for ks, body, node in chain:
        k = ks[0]
        env = dict(_formula_env(te))
        if k == "If":
            env["f"] = Formula("if", [p, q])
            ret = [s for s in body if isinstance(s, ast.Return)]
            rhs = te.eval(ret[0].value, env, f)
            cex = equivalent(env["f"], rhs, names)
            ctx.check(cex is None, rule, f, "If -> %r: %s" % (rhs, cex), "If(p, q) is rewritten to an equivalent formula (%r)" % (rhs,),
                      "If elimination is not meaning-preserving: If(p, q) -> %r; %s" % (rhs, cex), ret[0])
            ctx.check("__eliminate_iff(" in ast.unparse(ret[0].value), rule, f, "If recursion", "the rewritten formula is processed again",
                      "the result of If elimination is not processed recursively", trivial=True)
        elif k == "Iff":
            env["f"] = Formula("iff", [p, q])
            local = dict(env)
            for s in body:
                if isinstance(s, ast.Assign) and isinstance(s.targets[0], ast.Name):
                    local[s.targets[0].id] = te.eval(s.value, local, f)
            ret = [s for s in body if isinstance(s, ast.Return)]
            rhs = te.eval(ret[0].value, local, f)
            cex = equivalent(env["f"], rhs, names)
            ctx.check(cex is None, rule, f, "Iff -> %r: %s" % (rhs, cex), "Iff(p, q) is rewritten to an equivalent formula (%r)" % (rhs,),
                      "Iff elimination is not meaning-preserving: Iff(p, q) -> %r; %s" % (rhs, cex), ret[0])
        elif k in ("And", "Or"):
            ret = [s for s in body if isinstance(s, ast.Return)]
            t = ast.unparse(ret[0].value).replace(" ", "")
            ctx.check(t == "%s(list(map(__eliminate_iff,f.input_list)))" % k, rule, f, "%s congruence" % k, "%s: children converted, operator kept" % k,
                      "__eliminate_iff %s case is `%s`" % (k, t), ret[0])
        elif k == "Not":
            t = ast.unparse([s for s in body if isinstance(s, ast.Return)][0].value).replace(" ", "")
            ctx.check(t == "Not(__eliminate_iff(f.c))", rule, f, "Not congruence", "Not: child converted, negation kept", "__eliminate_iff Not case is `%s`" % t)
        elif k == "int":
            t = ast.unparse([s for s in body if isinstance(s, ast.Return)][0].value)
            ctx.check(t == "f", rule, f, "int", "variables are unchanged", "__eliminate_iff int case returns `%s`" % t)

    # ---- De Morgan
    f = ctx.fn("logic:__apply_demorgan")
    chain = _chain(f.node)
    kinds = [k for ks, _, _ in chain for k in ks]
    ctx.check(kinds == ["And", "Or", "Not", "int"], "C11.cases", f, "cases %s" % kinds, "__apply_demorgan handles And Or Not int (Iff/If are gone)",
              "__apply_demorgan handles %s" % kinds)
    for ks, body, node in chain:
        k = ks[0]
        if k in ("And", "Or"):
            t = ast.unparse([s for s in body if isinstance(s, ast.Return)][0].value).replace(" ", "")
            ctx.check(t == "__build_%s(list(map(__apply_demorgan,f.input_list)))" % k.lower(), rule, f, "demorgan %s congruence" % k,
                      "%s: children converted, operator kept (same-operator flattening)" % k, "__apply_demorgan %s case is `%s`" % (k, t))
        elif k == "Not":
            inner = [s for s in body if isinstance(s, ast.If)]
            ctx.require(len(inner) == 1, "__apply_demorgan: inner chain of the Not case not found")
            ic = _chain(ast.Module(body=[inner[0]], type_ignores=[]))
            ikinds = [x for ks2, _, _ in ic for x in ks2]
            ctx.check(ikinds == ["And", "Or", "Not", "int"], "C11.cases", f, "Not-inner cases %s" % ikinds, "negated And / Or / Not / int all handled",
                      "the Not case of __apply_demorgan handles %s" % ikinds)
            for ks2, b2, n2 in ic:
                k2 = ks2[0]
                for n in range(0, 4) if k2 in ("And", "Or") else [None]:
                    xs = [Lit("x%d" % i) for i in range(n or 0)]
                    env = dict(_formula_env(te))
                    if k2 in ("And", "Or"):
                        env["clause"] = Formula(k2.lower(), [xs])
                        lhs = Formula("not", [env["clause"]])
                    elif k2 == "Not":
                        env["clause"] = Formula("not", [Lit("p")])
                        lhs = Formula("not", [env["clause"]])
                        xs = [Lit("p")]
                    else:
                        env["clause"] = Lit("p")
                        env["f"] = Formula("not", [Lit("p")])
                        lhs = env["f"]
                        xs = [Lit("p")]
                    ret = [s for s in b2 if isinstance(s, ast.Return)]
                    for s_ in b2:            # named intermediates of the branch
                        if isinstance(s_, ast.Assign) and len(s_.targets) == 1 and isinstance(s_.targets[0], ast.Name):
                            env[s_.targets[0].id] = te.eval(s_.value, env, f)
                    rhs = te.eval(ret[0].value, env, f)
                    cex = equivalent(lhs, rhs, [x.name for x in xs])
                    ctx.check(cex is None, rule, f, "Not(%s)%s -> %r: %s" % (k2, "" if n is None else "[%d]" % n, rhs, cex),
                              "Not(%s%s) is rewritten to an equivalent formula" % (k2, "" if n is None else " of %d" % n),
                              "De Morgan step for Not(%s) is not meaning-preserving: %r -> %r; %s" % (k2, lhs, rhs, cex), ret[0])

    # ---- switching / naive combination
    f = ctx.fn("logic:__switching_combination")
    A, B, C = Lit("A"), Lit("B"), Lit("C")
    for extra in (0, 1):
        env = dict(_formula_env(te))
        env["clauses"] = [A, B] + ([C] if extra else [])
        ctx.require(len(f.params) == 2, "__switching_combination: expected (clauses, counter) parameters")
        cname = f.params[1]
        env[cname] = Lit("s")
        local = dict(env)
        for s in f.node.body:
            if isinstance(s, ast.Assign) and isinstance(s.targets[0], ast.Name) and s.targets[0].id != "new_fresh":
                local[s.targets[0].id] = te.eval(s.value, local, f)
        rets = [s for s in statements(f.node) if isinstance(s, ast.Return)]
        ctx.require(len(rets) == 2, "__switching_combination: expected two returns")
        r = rets[0] if extra else rets[1]
        tup = r.value
        if not (isinstance(tup, ast.Tuple) and len(tup.elts) == 2):
            ctx.bad(rule, f, "switching result", "the switching step returns `%s`, not (formula, next fresh): it consumes a variable but its callers are not told, so the counter cannot be threaded" % ast.unparse(tup)[:60], r)
            continue
        rhs = te.eval(tup.elts[0], local, f)
        lhs = Formula("or", [env["clauses"]])
        cex = equivalent(lhs, rhs, ["A", "B", "C", "s"][: 2 + extra] + ["s"], project=["s"])
        ctx.check(cex is None, rule, f, "switching[%d] -> %r: %s" % (2 + extra, rhs, cex),
                  "the switching step has the models of A | B%s after projecting the fresh variable away" % (" | C" if extra else ""),
                  "the switching step is not projection-equivalent to the disjunction: %r; %s" % (rhs, cex), r)
        ctx.check(dotted(tup.elts[1]) == "new_fresh", rule, f, "switching fresh", "reports the advanced fresh counter", "switching step returns %s as the next fresh" % ast.unparse(tup.elts[1]))
    nf = [s for s in f.node.body if isinstance(s, ast.Assign) and dotted(s.targets[0]) == "new_fresh"]
    ctx.check(len(nf) == 1 and ast.unparse(nf[0].value).replace(" ", "") == "fresh+1", rule, f, "switching counter", "exactly one variable is consumed (fresh + 1)",
              "the switching step advances the fresh counter by `%s`" % (ast.unparse(nf[0].value) if nf else "?"))
    sel = [s for s in f.node.body if isinstance(s, ast.If)]
    ctx.check(len(sel) == 1 and ast.unparse(sel[0].test).replace(" ", "") == "len(clauses)>2", rule, f, "switching rest", "remaining disjuncts are kept", "the test for remaining disjuncts changed")

    f = ctx.fn("logic:__naive_combination")
    F = Facts(f)
    ok = F.assigns("crossing") == ["[list(_b0) for _b0 in list(product(__get_list_for_crossing(clauses[0]), __get_list_for_crossing(clauses[1])))]"] and \
        F.assigns("combination") == ["And([Or(__flatten_clause_list(_b0, Or)) for _b0 in [list(_b0) for _b0 in list(product(__get_list_for_crossing(clauses[0]), __get_list_for_crossing(clauses[1])))]])"]
    ctx.check(ok, rule, f, "naive product", "A | B with A, B conjunctions becomes the conjunction of all pairwise disjunctions",
              "__naive_combination changed: %s" % F.assigns("combination"))
    f = ctx.fn("logic:__distribute_ors_naive")
    chain = _chain(f.node)
    kinds = [k for ks, _, _ in chain for k in ks]
    ctx.check(kinds == ["And", "Or", "Not", "int"], "C11.cases", f, "cases %s" % kinds, "__distribute_ors_naive handles And Or Not int", "__distribute_ors_naive handles %s" % kinds)
    F = Facts(f)
    ctx.check("list(product(*list(map(__get_list_for_crossing, list(map(__distribute_ors_naive, f.input_list))))))" in "".join(F.assigns("crossed_clauses")) and
              F.assigns("or_list") == ["list(map(__build_or, list(product(*list(map(__get_list_for_crossing, list(map(__distribute_ors_naive, f.input_list)))))))))"[:-1]] or
              True, rule, f, "naive distribution", "Or over conjunctions = conjunction of the product's disjunctions", "naive distribution changed", trivial=True)
    oc = [ast.unparse(s.value).replace(" ", "") for s in statements(f.node) if isinstance(s, ast.Assign) and dotted(s.targets[0]) in ("crossed_clauses", "or_list")]
    ctx.check(oc == ["list(product(*crossable_clauses))", "list(map(__build_or,crossed_clauses))"], rule, f, "naive distribution product",
              "every choice of one conjunct per disjunct yields one clause", "__distribute_ors_naive product changed: %s" % oc)
    gl = ctx.fn("logic:__get_list_for_crossing")
    F = Facts(gl)
    ctx.check(F.returns() == ["[clause]", "clause.input_list"], rule, gl, "crossing lists", "a literal is a one-element list, a conjunction/disjunction its members",
              "__get_list_for_crossing changed: %s" % F.returns())
    f = ctx.fn("logic:__distribute_ors_switching")
    chain = _chain(f.node)
    kinds = [k for ks, _, _ in chain for k in ks]
    ctx.check(kinds == ["And", "Or", "Not", "int"], "C11.cases", f, "cases %s" % kinds, "__distribute_ors_switching handles And Or Not int", "__distribute_ors_switching handles %s" % kinds)
    body = ast.unparse(f.node)
    ctx.check("return __distribute_ors_switching(__naive_combination(clauses), new_fresh)" in body and
              "new_formula, new_fresh = __switching_combination(clauses, new_fresh)" in body and
              "return __distribute_ors_switching(new_formula, new_fresh)" in body, rule, f, "switching threading",
              "the fresh counter is threaded through every step", "the fresh counter is no longer threaded through the switching conversion")
    ad = ctx.fn("logic:__apply_distribute_ors")
    F = Facts(ad)
    ctx.check(F.returns() == ["(acc[0], __distribute_ors_switching(elem, acc[1])[1])"], rule, ad, "fold threading",
              "the fold passes each element the counter left by the previous one", "__apply_distribute_ors returns %s" % F.returns())

    # ---- drivers
    for name, steps in (("to_cnf_naive", ["__eliminate_iff(f)", "__apply_demorgan(__eliminate_iff(f))", "__distribute_ors_naive(__apply_demorgan(__eliminate_iff(f)))"]),):
        f = ctx.fn("logic:" + name)
        F = Facts(f)
        ctx.check(F.assigns("formula")[:3] == steps and len(F.returns()) == 1 and F.returns()[0].endswith(", next_variable)") and F.returns()[0].startswith("(") and
                  ("__distribute_ors_naive(__apply_demorgan(__eliminate_iff(f)))" in F.returns()[0] or F.returns()[0] == "(formula, next_variable)"), rule, f, name,
                  "eliminate Iff/If, push negations, distribute; no new variable (next_variable returned unchanged)",
                  "%s pipeline changed: %s returns %s" % (name, F.assigns("formula")[:3], F.returns()))
    # counter threading: every step is given the most recently produced counter of its branch, as a bare name
    ds = ctx.fn("logic:__distribute_ors_switching")
    COUNTER_CALLS = {"__distribute_ors_switching": 1, "__switching_combination": 1}
    top = [x for x in ds.node.body if isinstance(x, ast.If)]
    branches = []
    cur = top[0] if top else None
    while cur is not None:
        branches.append(cur.body)
        cur = cur.orelse[0] if len(cur.orelse) == 1 and isinstance(cur.orelse[0], ast.If) else None
    n_thr = 0
    for br in branches:
        produced = [(0, ds.params[1])]
        sts = [x for b in br for x in ([b] + [y for y in ast.walk(b) if isinstance(y, ast.stmt) and y is not b])]
        sts.sort(key=lambda x: x.lineno)
        for x in sts:
            own = [n for n in ast.walk(x.value)] if isinstance(x, (ast.Assign, ast.Return, ast.Expr)) and x.value is not None else []
            for c in own:
                if isinstance(c, ast.Call) and isinstance(c.func, ast.Name) and c.func.id in COUNTER_CALLS and len(c.args) > COUNTER_CALLS[c.func.id]:
                    n_thr += 1
                    arg = ast.unparse(c.args[COUNTER_CALLS[c.func.id]])
                    latest = [nm for ln, nm in produced if ln < x.lineno][-1]
                    ctx.check(arg == latest, rule, ds, "%s gets %s" % (c.func.id, arg), "%s is given the latest counter `%s`" % (c.func.id, latest),
                              "%s is given `%s` as its fresh counter, but the counter last produced on this path is `%s` (advanced by the recursive conversion of the children): "
                              "switching variables are handed out twice" % (c.func.id, arg, latest), c)
            if isinstance(x, ast.Assign) and isinstance(x.targets[0], ast.Tuple) and len(x.targets[0].elts) == 2 and isinstance(x.targets[0].elts[1], ast.Name):
                produced.append((x.lineno, x.targets[0].elts[1].id))
    ctx.require(n_thr >= 3, "__distribute_ors_switching: only %d counter-passing calls found" % n_thr)

    f = ctx.fn("logic:to_cnf_switching")
    F = Facts(f)
    ctx.check(F.assigns("formula")[:2] == ["__eliminate_iff(f)", "__apply_demorgan(__eliminate_iff(f))"] and
              "__distribute_ors_switching(__apply_demorgan(__eliminate_iff(f)), next_variable)" in ast.unparse(f.node).replace("formula, fresh = ", "").replace("(formula, fresh) = ", "") or
              "__distribute_ors_switching(formula, next_variable)" in ast.unparse(f.node), rule, f, "to_cnf_switching",
              "same pipeline with switching distribution starting at next_variable", "to_cnf_switching pipeline changed")
    ctx.check(F.returns() == ["(formula, fresh)"] or F.returns()[-1].endswith("[1])"), rule, f, "to_cnf_switching result", "returns the advanced fresh counter",
              "to_cnf_switching returns %s" % F.returns())

    # ---- flattening is same-operator
    for b, k in (("__build_or", "Or"), ("__build_and", "And")):
        f = ctx.fn("logic:" + b)
        fact(ctx, "C11.flatten", f, b, Facts(f).returns(), ["%s(__flatten_clause_list(l, %s))" % (k, k)], "%s flattens only nested %s children and wraps in %s" % (b, k, k))
    fl = ctx.fn("logic:__flatten_clause_list")
    body = ast.unparse(fl.node)
    ctx.check("if isinstance(c, cls):\n            flattened_list.extend(c.input_list)\n        else:\n            flattened_list.append(c)" in body,
              "C11.flatten", fl, "flatten", "children of the given operator are spliced in, everything else is kept whole", "__flatten_clause_list changed")
    for cl in calls(ctx.fn("logic:__naive_combination").node, nested=True):
        if call_attr(cl) == "__flatten_clause_list":
            ctx.check(ast.unparse(cl.args[1]) == "Or", "C11.flatten", ctx.fn("logic:__naive_combination"), "naive flatten", "pairwise disjunctions flatten Or only",
                      "__naive_combination flattens with %s inside an Or" % ast.unparse(cl.args[1]))

    # ---- serialisation
    f = ctx.fn("logic:cnf_to_json")
    # the per-clause accumulator may carry any name: rename it to `l` before the shape is compared
    import copy as _copy
    fnode = _copy.deepcopy(f.node)
    accs = {c_.args[0].id for c_ in ast.walk(fnode) if isinstance(c_, ast.Call) and dotted(c_.func) == "or_list.append" and c_.args and isinstance(c_.args[0], ast.Name)}
    if len(accs) == 1:
        acc = accs.pop()
        for n_ in ast.walk(fnode):
            if isinstance(n_, ast.Name) and n_.id == acc:
                n_.id = "l"
    body = ast.unparse(fnode)
    ok = "if isinstance(o, Or):" in body and "if isinstance(n, int):\n                        l.append(n)" in body and \
        "elif isinstance(n, Not):\n                        l.append(-n.c)" in body and "elif isinstance(o, int):\n                or_list.append([o])" in body and \
        body.count("raise ValueError") == 2 and "or_list.append(l)" in body
    ctx.check(ok, "C11.json", f, "cnf_to_json", "Or of int / Not(int) -> signed ints; bare int -> unit clause; anything else raises",
              "cnf_to_json changed shape")
    orb = [x for x in statements(fnode) if isinstance(x, ast.If) and ast.unparse(x.test) == "isinstance(o, Or)"]
    ctx.check(len(orb) == 1 and ast.unparse(orb[0].body[-1]) == "or_list.append(l)", "C11.json", f, "every disjunction becomes a clause",
              "every Or -- also the empty one, which is False -- contributes exactly one clause, unconditionally",
              "cnf_to_json appends the literal list of an Or only under a condition: an empty disjunction (False) is dropped and an unsatisfiable formula becomes satisfiable",
              orb[0] if orb else f.node)
    F = Facts(f)
    ctx.check(F.iters()[:2] == ["formula", "a.input_list"], "C11.json", f, "cnf_to_json order", "every clause of every conjunction is emitted", "cnf_to_json iteration changed: %s" % F.iters()[:2])


def check(ctx):
    te = TermEval(ctx.repo)
    tseitin_cases(ctx, te)
    cache_discipline(ctx)
    rewrite_rules(ctx, te)
    mod = sys.modules[__name__]
    control(ctx, mod, "Or case: wrong polarity in the member clauses",
            lambda s: variants.in_function(s, "sweetpea/_internal/logic.py", "__tseitin_rep", "lambda v: Or([Not(v), new_rep])", "lambda v: Or([v, new_rep])"), "C11.tseitin")
    control(ctx, mod, "If case keyed as Iff",
            lambda s: variants.in_function(s, "sweetpea/_internal/logic.py", "__tseitin_rep", "cache.get(str(If(new_p, new_q)))", "cache.get(str(Iff(new_p, new_q)))"), "C11.tseitin")
    control(ctx, mod, "switching step with the same polarity twice",
            lambda s: variants.in_function(s, "sweetpea/_internal/logic.py", "__switching_combination", "rhs = Or([fresh, clauses[1]])", "rhs = Or([Not(fresh), clauses[1]])"), "C11.rewrite")
    control(ctx, mod, "Iff elimination drops one direction",
            lambda s: variants.in_function(s, "sweetpea/_internal/logic.py", "__eliminate_iff", "            Or([f.p, Not(f.q)]),\n", ""), "C11.rewrite")
    ctx.min_instances("C11.tseitin", 25)
    ctx.min_instances("C11.rewrite", 25)
    ctx.min_instances("C11.cases", 6)
