"""C25 -- Nest holds outer levels fixed over each inner run."""
import ast
import sys

from ..astutil import call_attr, dotted, statements, calls, walk_body
from ..effects import Effects
from ..callgraph import CallGraph
from ..report import control
from ..siblings import Roles
from ..sym import Env, Poly, sym
from .. import variants
from . import C07

TECHNIQUE = "def-use alignment of the parallel crossing lists in Nest/Merge, ownership of the scaled constraint copies, registry of sustain_within_block overrides with a sibling rule on trial-valued parameters, and the Sustain sibling pair"
EXPLANATION = """
Decides that the sustain counts reach every consumer: (align) Nest concatenates crossings, crossing sustain counts
and crossing weights with the same operand order (outer block first), Merge appends them in the same loop; outer
sustain counts are inner_len x the outer block's counts with inner_len = inner trials - inner common preamble;
(copies) sustain_within_block(inner_len) is applied to fresh copies of exactly the outer block's constraints, the
inner block's constraints are passed unscaled; (install) _create installs Sustain() exactly when some crossing
sustain count differs from 1, and desugars it with the other constraints; (geometry) BlockGeometry.sustain scales
trial count, preamble and every per-factor sustain count by the same factor; every class that captures geometry
(init_within_block) also scales it in sustain_within_block; (sibling rule) every constraint attribute that is
measured in trials (k of the _KInARow family, trials of MinimumTrials) is multiplied by the sustain count -- if one
member of a family scales its count, all members with the same attribute do; (pair) the Sustain encoder and checker
agree (C07 pair); (disjoint) a factor cannot be crossed in both blocks; (group-alignment) the rounds of
the inner crossings stay inside the groups: Cross is laid over the whole sequence in rounds of the crossing size, so an inner
length that is not a whole number of rounds must be refused.  The length clause (C16) and the window scoping
of the inner block's constraints (C26) are evaluated here as well, under their own rule names.
"""
NOT_DECIDED = "the group structure of the returned sequences and associativity of nesting (runtime facts)."


def _expand_local(f, e):
    """expand a bare local Name once through its single top-level assignment"""
    if isinstance(e, ast.Name):
        defs = [s for s in f.node.body if isinstance(s, ast.Assign) and len(s.targets) == 1 and dotted(s.targets[0]) == e.id]
        if len(defs) == 1:
            return defs[0].value
    return e


def _concat_sides(f, e):
    """(left text, right text) of a two-operand list concatenation, locals expanded once"""
    e = _expand_local(f, e)
    if isinstance(e, ast.BinOp) and isinstance(e.op, ast.Add):
        l, r = _expand_local(f, e.left), _expand_local(f, e.right)
        return ast.unparse(l), ast.unparse(r)
    return None


def rule_geometry(ctx, R="C25.geometry"):
    repo = ctx.repo
    f = ctx.fn("block:BlockGeometry.sustain")
    r = [s for s in f.node.body if isinstance(s, ast.Return)]
    t = str(sym(r[0].value))
    ctx.check(t == "BlockGeometry(self.num_trials*sustain_count, self.preamble_size*sustain_count, {_b0: _b1*sustain_count for (_b0, _b1) in self.factor_to_sustain_count.items()})",
              R, f, "sustain()", "trial count, preamble and per-factor counts all scale", "BlockGeometry.sustain is `%s`" % t)
    base = repo.cls("base_constraint:Constraint")
    fam = base.all_subclasses()
    for c in fam:
        if "init_within_block" in c.methods:
            own = c.methods["init_within_block"]
            captures = any(isinstance(s, ast.Assign) and dotted(s.targets[0]) == "self.within_block" for s in statements(own.node))
            if not captures:
                ctx.ok(R, own, "%s.init_within_block delegates" % c.name, trivial=True)
                continue
            sw_ = c.lookup("sustain_within_block")
            ok = sw_ is not None and sw_.cls is not base and any(
                isinstance(s, ast.Assign) and dotted(s.targets[0]) == "self.within_block" and
                ast.unparse(s.value) == "self.within_block.sustain(sustain_count)" for s in statements(sw_.node))
            ctx.check(ok, R, c, "%s scales captured geometry" % c.name,
                      "%s captures geometry and scales it in sustain_within_block" % c.name,
                      "%s captures the block geometry in init_within_block but its sustain_within_block does not scale it "
                      "(self.within_block = self.within_block.sustain(sustain_count))" % c.fq)


def rule_group_alignment(ctx, R="C25.group-alignment"):
    """The groups of a Nest are inner_len trials long.  The Cross encoder and the crossing checkers lay the rounds of every crossing
    in chunks of its crossing size from the end of the preamble over the whole sequence -- Cross captures no block window.  The
    rounds of an inner crossing therefore stay inside the groups only when inner_len is a multiple of the round length: Nest has
    to refuse the other case (a `%` test on the inner length that raises before _create), or Cross has to be scoped per window."""
    from ..cfg import CFG
    nest = ctx.fn("cross_block:Nest.__init__")
    cross = ctx.repo.cls("constraint:Cross")
    ctx.require("apply" in cross.methods, "Cross.apply not found")
    scoped = any(isinstance(x, ast.Attribute) and x.attr == "within_block" for m in cross.methods.values() if not isinstance(m.node, ast.Lambda)
                 for x in ast.walk(m.node))
    inner_names = {"inner_len"}
    for st in statements(nest.node):
        if isinstance(st, ast.Assign) and len(st.targets) == 1 and isinstance(st.targets[0], ast.Name) and \
                "inner_block.trials_per_sample" in ast.unparse(st.value):
            inner_names.add(st.targets[0].id)
    g = CFG(nest.node)
    creates = [st for st in statements(nest.node) if isinstance(st, ast.Expr) and isinstance(st.value, ast.Call) and call_attr(st.value) == "_create"]
    ctx.require(len(creates) == 1, "%s: _create statement not found" % nest.fq)
    guards = []
    for st in statements(nest.node):
        if not isinstance(st, ast.If) or not any(isinstance(b, ast.Raise) for b in st.body):
            continue
        mods = [x for x in ast.walk(st.test) if isinstance(x, ast.BinOp) and isinstance(x.op, ast.Mod)]
        for mo in mods:
            left = ast.unparse(mo.left)
            if (any(n in left for n in inner_names) or "inner_block.trials_per_sample" in left) and "crossing_size" in ast.unparse(mo.right):
                guards.append(st)
    def top(st):
        """index of the top-level statement of Nest.__init__ that holds st (a guard inside a loop over the inner crossings is reached
        on every path through its loop statement)"""
        for i, t in enumerate(nest.node.body):
            if any(x is st for x in ast.walk(t)):
                return i
        return None
    guarded = any(top(st) is not None and top(creates[0]) is not None and top(st) < top(creates[0]) and
                  g.dominates(g.node_of(nest.node.body[top(st)]), g.node_of(creates[0])) for st in guards)
    ctx.check(scoped or guarded, R, nest, "inner rounds are not aligned with the groups",
              "an inner block whose length is not a whole number of rounds of its crossings is refused (or Cross is scoped per window)",
              "Nest forms groups of inner_len = inner trials - inner preamble, while Cross lays the rounds of the inner block's crossings in chunks of "
              "the crossing size over the whole sequence; nothing refuses an inner block whose length is not a multiple of its crossing's "
              "round (a trailing partial repetition from MinimumTrials): the rounds then straddle the groups and a group need not contain "
              "every inner combination", creates[0])


def check(ctx):
    repo = ctx.repo
    nest = ctx.fn("cross_block:Nest.__init__")
    rn = Roles(nest)
    R = "C25.align"
    cr = [c for c, st in rn.calls_named("_create")]
    ctx.require(len(cr) == 1, "%s: _create call not found" % nest.fq)
    kw = {k.arg: k.value for k in cr[0].keywords}
    ctx.require({"crossings", "crossing_sustain_counts", "crossing_weights", "constraints", "mode"} <= set(kw),
                "%s: _create is not called with the expected keywords" % nest.fq)
    sides = {}
    for name in ("crossings", "crossing_sustain_counts", "crossing_weights"):
        s = _concat_sides(nest, kw[name])
        ctx.require(s is not None, "%s: %s is not a two-operand concatenation" % (nest.fq, name))
        sides[name] = s
        order = ("outer" in s[0] and "inner" not in s[0].replace("inner_len", "")) and ("inner" in s[1] and "outer" not in s[1])
        ctx.check(order, R, nest, "%s = %s + %s" % (name, s[0], s[1]), "%s: outer block's part first, inner block's second" % name,
                  "%s is concatenated as `%s + %s`; the three parallel lists must all be outer-first or their entries "
                  "no longer describe the same crossing" % (name, s[0], s[1]), cr[0])
    ctx.check(sides["crossings"] == ("outer_block.orig_crossings", "inner_block.orig_crossings") or
              sides["crossings"] == ("outer_block.crossings", "inner_block.crossings"), R, nest, "crossings sources",
              "crossings come from both blocks", "crossings are `%s + %s`" % sides["crossings"])
    ctx.check(sides["crossing_weights"] == ("outer_block.crossing_weights", "inner_block.crossing_weights"), R, nest,
              "weights sources", "crossing weights come from both blocks", "crossing weights are `%s + %s`" % sides["crossing_weights"])
    t = sides["crossing_sustain_counts"]
    ctx.check(t[1] == "inner_block.crossing_sustain_counts", R, nest, "inner sustain", "inner counts are the inner block's, unscaled",
              "inner sustain counts are `%s`" % t[1])
    oc = [s for s in rn.stmts if isinstance(s, ast.Assign) and dotted(s.targets[0]) == "outer_sustain_counts"]
    ctx.require(len(oc) == 1, "%s: outer_sustain_counts not found" % nest.fq)
    got = str(rn.at(oc[0], oc[0].value))
    want = "[-_b0*inner_block.common_preamble_size() + _b0*inner_block.trials_per_sample() for _b0 in outer_block.crossing_sustain_counts]"
    ctx.check(got == want, R, nest, "outer sustain %s" % got,
              "outer sustain count = (inner trials - inner common preamble) x outer count",
              "outer sustain counts are `%s`" % got, oc[0])
    ctx.check(ast.unparse(kw["mode"]) == "RepeatMode.REPEAT", R, nest, "mode", "Nest repeats the inner block (REPEAT)",
              "Nest passes mode %s" % ast.unparse(kw["mode"]))
    cst = [st for c, st in rn.calls_named("_create")][0]
    rcc = str(rn.at(cst, kw.get("require_complete_crossing", ast.Constant(value=None))))
    ctx.check(rcc == "(inner_block.require_complete_crossing and outer_block.require_complete_crossing)", R, nest, "rcc",
              "complete crossing required iff both blocks require it", "require_complete_crossing is `%s`" % rcc)

    # ---- copies
    R = "C25.copies"
    cons = _expand_local(nest, kw["constraints"])
    parts = []

    def flat(e):
        if isinstance(e, ast.BinOp) and isinstance(e.op, ast.Add):
            flat(e.left)
            flat(e.right)
        else:
            parts.append(ast.unparse(_expand_local(nest, e)))
    flat(cons)
    ctx.check(sorted(parts) == sorted(["[copy.copy(ct) for ct in outer_block.orig_constraints]", "inner_block.orig_constraints", "constraints"]),
              R, nest, "constraints %s" % parts, "constraints = scaled copies of the outer block's + the inner block's + the new ones",
              "Nest passes constraints %s" % parts)
    sw = [c for c, st in rn.calls_named("sustain_within_block")]
    ctx.require(len(sw) == 1, "%s: sustain_within_block call not found" % nest.fq)
    arg = str(rn.term(sw[0].args[0]))
    loop = [s for s in rn.stmts if isinstance(s, ast.For) and any(x is sw[0] for x in ast.walk(s))]
    ctx.check(arg == "-inner_block.common_preamble_size() + inner_block.trials_per_sample()" and len(loop) == 1 and
              dotted(loop[0].iter) == "outer_constraints", R, nest, "scaling %s over %s" % (arg, dotted(loop[0].iter) if loop else "?"),
              "every outer constraint copy is scaled by inner_len", "outer constraints are scaled by `%s` over `%s`" % (
                  arg, dotted(loop[0].iter) if loop else "?"), sw[0])
    ctx.check(any(isinstance(s, ast.Assign) and dotted(s.targets[0]) == "outer_constraints" and
                  ast.unparse(s.value) == "[copy.copy(ct) for ct in outer_block.orig_constraints]" for s in rn.stmts), R, nest,
              "fresh copies", "the scaled objects are fresh copies", "outer constraints are no longer copied before scaling")

    # ---- disjoint crossings
    body = ast.unparse(nest.node)
    ctx.check("for c in outer_block.crossings:" in body and "for ic in inner_block.crossings:" in body and "if f in ic:" in body and
              "raise ValueError('Factor cannot be in crossing for both outer and inner blocks.')" in body, "C25.disjoint", nest,
              "disjoint", "a factor crossed in both blocks is refused", "the both-blocks crossing refusal changed")

    # ---- Merge appends the three lists in the same loop
    R = "C25.align"
    mg = ctx.fn("cross_block:Merge.__init__")
    loops = [s for s in mg.node.body if isinstance(s, ast.For) and dotted(s.iter) == "blocks" and
             any(call_attr(c) in ("append", "extend") for c in ast.walk(s) if isinstance(c, ast.Call))]
    ctx.require(len(loops) == 1, "%s: accumulation loop over blocks not found" % mg.fq)
    inner = {}
    for s in loops[0].body:
        if isinstance(s, ast.For):
            for c in ast.walk(s):
                if isinstance(c, ast.Call) and call_attr(c) == "append":
                    inner[dotted(c.func.value)] = dotted(s.iter)
        elif isinstance(s, ast.Expr) and isinstance(s.value, ast.Call) and call_attr(s.value) == "extend" and len(s.value.args) == 1 and dotted(s.value.args[0]):
            inner[dotted(s.value.func.value)] = dotted(s.value.args[0])
        elif isinstance(s, ast.AugAssign) and isinstance(s.op, ast.Add) and dotted(s.value):
            inner[dotted(s.target)] = dotted(s.value)
    want = {"crossings": "b.orig_crossings", "crossing_sustain_counts": "b.crossing_sustain_counts",
            "crossing_weights": "b.crossing_weights", "constraints": "b.orig_constraints", "design": "b.orig_design"}
    # the union of the designs is not one of the parallel lists (its construction is C24's law table); only its source is compared when it
    # is accumulated in this loop
    if "design" not in inner:
        want = {k: v for k, v in want.items() if k != "design"}
    ctx.check(inner == want, R, mg, "Merge accumulation %s" % sorted(inner.items()),
              "crossings, sustain counts, weights are appended block by block in one loop",
              "Merge accumulates %s, expected %s" % (sorted(inner.items()), sorted(want.items())))

    # ---- install Sustain
    R = "C25.install"
    cr = ctx.fn("cross_block:MultiCrossBlockRepeat._create")
    rc = Roles(cr)
    inst = [s for s in rc.stmts if isinstance(s, ast.If) and "Sustain()" in ast.unparse(s)]
    ctx.require(len(inst) == 1, "%s: Sustain installation not found" % cr.fq)
    t = ast.unparse(inst[0].test)
    ctx.check(t == "any((count != 1 for count in crossing_sustain_counts))" and not inst[0].orelse and
              ast.unparse(inst[0].body[0]) == "all_constraints += [Sustain()]", R, cr, "condition %s" % t,
              "Sustain installed exactly when some sustain count differs from 1", "Sustain installation is `if %s: %s`" % (
                  t, ast.unparse(inst[0].body[0])), inst[0])
    ds = [s for s in rc.stmts if isinstance(s, ast.Assign) and dotted(s.targets[0]) == "all_constraints" and
          isinstance(s.value, ast.Call) and call_attr(s.value) == "_desugar_constraints"]
    from ..cfg import CFG
    g = CFG(cr.node)
    ctx.check(len(ds) == 1 and g.dominates(g.node_of(inst[0]), g.node_of(ds[0])), R, cr, "order",
              "Sustain is installed before desugaring and block initialisation", "Sustain installation no longer precedes desugaring")
    sup = [c for c, st in rc.calls_named("__init__")]
    ctx.check(len(sup) == 1 and [ast.unparse(a) for a in sup[0].args][1:5] == ["crossings", "crossing_sustain_counts", "crossing_weights", "all_constraints"],
              R, cr, "super().__init__", "the parallel lists and all constraints reach Block.__init__", "super().__init__ arguments changed")
    bi = ctx.fn("block:Block.__init__")
    t = [s for s in bi.node.body if isinstance(s, ast.For) and "factor_to_sustain_count" in ast.unparse(s)]
    ctx.check(len(t) == 1 and ast.unparse(t[0].iter) == "zip(crossings, crossing_sustain_counts)" and
              "self.factor_to_sustain_count[f] = count" in ast.unparse(t[0]), R, bi, "factor_to_sustain_count",
              "each crossed factor gets its crossing's sustain count", "factor_to_sustain_count construction changed")

    rule_geometry(ctx)
    rule_group_alignment(ctx)
    # declared within_block must be assigned by some init_within_block, unless the class is whole-sequence scoped (C26)
    # ---- sibling rule on trial-valued parameters
    R = "C25.trial-valued"
    kbase = repo.cls("constraint:_KInARow")
    sw_ = kbase.methods.get("sustain_within_block")
    ctx.require(sw_ is not None, "_KInARow.sustain_within_block not found")
    scales_k = any(isinstance(s, ast.AugAssign) and dotted(s.target) == "self.k" and isinstance(s.op, ast.Mult) and
                   ast.unparse(s.value) == "sustain_count" for s in statements(sw_.node))
    ctx.check(scales_k, R, sw_, "_KInARow.k", "k (a number of trials) is multiplied by the sustain count for the whole family",
              "_KInARow.sustain_within_block does not scale k; run lengths of an outer block are then measured in the wrong unit under Nest")
    for c in kbase.all_subclasses():
        if "sustain_within_block" in c.methods:
            m = c.methods["sustain_within_block"]
            sup = any(isinstance(x, ast.Call) and call_attr(x) == "sustain_within_block" and isinstance(x.func.value, ast.Call)
                      and dotted(x.func.value.func) == "super" for x in ast.walk(m.node))
            own_scale = [s for s in statements(m.node) if isinstance(s, ast.AugAssign) and dotted(s.target) == "self.k"]
            ctx.check(sup and not own_scale or (not sup and len(own_scale) == 1), R, m, "%s override" % c.name,
                      "%s.sustain_within_block scales k exactly once (through super())" % c.name,
                      "%s.sustain_within_block %s" % (c.name, "scales k twice (super() already does)" if sup and own_scale
                                                     else "does not scale k and does not call super()"))
        else:
            ctx.ok(R, c, "%s inherits the scaling sustain_within_block" % c.name)
    mt = ctx.fn("constraint:MinimumTrials.sustain_within_block")
    ok = any(isinstance(s, ast.AugAssign) and dotted(s.target) == "self.trials" and isinstance(s.op, ast.Mult) and
             ast.unparse(s.value) == "sustain_count" for s in statements(mt.node))
    ctx.check(ok, R, mt, "MinimumTrials.trials", "a minimum trial count of the outer block scales", "MinimumTrials.sustain_within_block does not scale trials")
    pin = ctx.fn("constraint:Pin.sustain_within_block")
    # Pin.index is a position in outer trials; get_trial_numbers multiplies by the captured per-factor sustain count
    gt = ctx.fn("block:Block.get_trial_numbers")
    nested = gt.nested.get("get_variables")
    ctx.require(nested is not None, "get_trial_numbers: nested get_variables not found")
    body = ast.unparse(nested.node)
    ctx.check("trial_no = end + sustain_count * b_trial_no" in body and "trial_no = start + sustain_count * b_trial_no" in body and
              "[trial_no + i for i in range(0, sustain_count)]" in body, R, gt, "Pin index scaling",
              "a pinned index is multiplied by the (captured) sustain count and covers the whole sustained group",
              "get_trial_numbers no longer scales the pinned index by the sustain count")

    C07.pair_sustain(ctx, R="C25.pair")
    # "its length is the outer trial count times the inner trial count": the trial-count arithmetic (where the sustain
    # multiplier enters crossing_size, and nowhere else) is C16's formula clause, under its own rule names
    if not ctx.is_control:
        from ..report import include
        include(ctx, "C16")
        # "the inner block's crossing and constraints hold within each group": the window a constraint captured from its own block
        # must survive rewriting and nesting -- C26's clauses, under their own rule names
        include(ctx, "C26")

    mod = sys.modules[__name__]
    control(ctx, mod, "swap the operands of the weights concatenation in Nest",
            lambda s: variants.in_function(s, "sweetpea/_internal/cross_block.py", "Nest.__init__",
                                           "outer_block.crossing_weights+inner_block.crossing_weights",
                                           "inner_block.crossing_weights+outer_block.crossing_weights"), "C25.align")
    control(ctx, mod, "base class stops scaling k",
            lambda s: variants.in_function(s, "sweetpea/_internal/constraint.py", "_KInARow.sustain_within_block",
                                           "self.k *= sustain_count", "pass"), "C25.trial-valued")
    ctx.min_instances("C25.align", 10)
    ctx.min_instances("C25.trial-valued", 7)
    ctx.min_instances("C25.geometry", 3)
