"""C19 -- a block stays usable and unchanged across library calls (frame condition)."""
import ast

from ..astutil import dotted
from ..callgraph import CallGraph
from ..effects import Effects
from ..model import AnalysisError

TECHNIQUE = "may-write effect analysis over the resolved call graph (frame condition on Block design state)"
EXPLANATION = """
Decides the frame clause: no function reachable (resolved call graph: class-hierarchy dispatch, annotations,
isinstance narrowing, callbacks) from a public non-constructor entry point -- synthesize_trials with every Gen,
print_experiments, tabulate_experiments, save_experiments_csv, experiments_to_tuples, experiments_to_dicts,
sample_mismatch_experiment (thorough: every function of main.__all__) -- contains a write site (attribute store,
augmented store, del, subscript store, mutating container call, also through local aliases, loop elements,
mutated parameters and attributes of helper objects that hold a block attribute's value) whose receiver may be a Block and whose attribute is part of the block's design state.
Memo attributes named in the property (trial-count / variable-count / decode caches, continuous_factor_samples)
and the idempotent diagnostic set `errors` (add only) are allowed, each with its reason.
"""
NOT_DECIDED = ("that the sequences returned by a later call are valid (C01/C04), mutation of user Factor/Level objects "
               "through reflection, and effects inside third-party code.")

DESIGN_STATE = {
    "design", "act_design", "crossings", "constraints", "orig_design", "orig_crossings", "orig_constraints",
    "continuous_factors", "exclude", "excluded_derived", "min_trials", "crossing_weights",
    "crossing_sustain_counts", "factor_to_sustain_count", "alignment", "require_complete_crossing",
    "crossing_sizes", "preamble_sizes", "derivable_factors", "complex_factors_or_constraints",
    "_alignment_preamble", "cnf_fn",
}
ALLOWED = {
    "_trials_per_sample": "memo of the trial count, a function of the design (C16 checks its coherence)",
    "_variables_per_trial": "memo of the per-trial variable count",
    "_cached_previous_count": "memo used by the variable layout",
    "_simple_tuples": "memo of the decode table",
    "continuous_factor_samples": "per-call record of sampled continuous values, named as a cache in the property",
}
ENTRY = ["main:synthesize_trials", "main:print_experiments", "main:tabulate_experiments",
         "main:save_experiments_csv", "main:experiments_to_tuples", "main:experiments_to_dicts",
         "main:sample_mismatch_experiment"]


def block_family(repo):
    base = repo.cls("block:Block")
    return {base.fq} | {c.fq for c in base.all_subclasses()}


def offending_writes(ctx, cg, ef, reach, fam, geometry_ok=True):
    """Yield (function, write, reason) for writes to Block design state in reachable functions."""
    for fq, (f, edge) in sorted(reach.items()):
        for w in ef.writes(f):
            if w.root_kind == "fresh":
                continue
            if w.attr == "errors":
                if w.kind in ("mutcall:add",):
                    continue
            if w.attr not in DESIGN_STATE and w.attr != "errors":
                # state of a block that is neither design state nor one of the named memos: a library call that leaves new
                # per-block state behind makes later calls on the same block depend on earlier ones
                if w.cls is not None and w.cls.fq in fam and w.attr not in ALLOWED:
                    yield f, w
                continue
            # receiver class: known and not a Block -> some other object's attribute of the same name
            if w.cls is not None and w.cls.fq not in fam:
                continue
            if w.cls is None and w.root_kind == "self":
                continue   # self of a class that is not in the Block family (cls would be set otherwise)
            yield f, w


def check(ctx):
    repo = ctx.repo
    cg = CallGraph(repo)
    ef = Effects(repo, cg)
    fam = block_family(repo)
    main = repo.module("main")

    entries = [ctx.fn(e) for e in ENTRY]
    if ctx.tier == "thorough":
        try:
            names = ast.literal_eval(main.assigns["__all__"])
        except Exception:
            raise AnalysisError("main.__all__ is not a literal list")
        for n in names:
            r = repo.resolve_name(main, n)
            if hasattr(r, "node") and hasattr(r, "fq") and not hasattr(r, "methods") and r not in entries:
                entries.append(r)
    # every sampler entry point (class call and object call)
    gen = repo.cls("base:Gen")
    for c in [gen] + gen.all_subclasses():
        for mname in ("sample", "sample_object"):
            if mname in c.methods and c.methods[mname] not in entries:
                entries.append(c.methods[mname])
    ctx.require(len(entries) >= 15, "too few entry points found (%d)" % len(entries))

    reach = cg.reachable(entries)
    for fq, (f, e) in reach.items():
        repo.note_consulted(f)
    ctx.extra["entry_points"] = [e.fq for e in entries]
    ctx.extra["reachable_functions"] = len(reach)
    ctx.require(len(reach) >= 300, "call graph from the entry points collapsed (%d functions)" % len(reach))
    # sanity: the sampler pipeline is in the reachable set, constructors of blocks are not
    for must in ("block:Block.build_backend_request", "random:UCSolutionEnumerator.generate_random_samples",
                 "block:Block.add_implied_levels", "cross_block:MultiCrossBlockRepeat.sample_mismatch_crossing"):
        ctx.require(must in reach, "expected %s to be reachable from the entry points" % must)
    for mustnot in ("block:Block.__init__", "cross_block:MultiCrossBlockRepeat._create"):
        ctx.require(mustnot not in reach, "%s became reachable from a library call: %s" % (
            mustnot, " -> ".join(cg.path_to(reach, mustnot))))
    ctx.ok("C19.reach", entries[0], "%d functions reachable from %d entry points; block constructors are not"
           % (len(reach), len(entries)))

    n_sites = 0
    for fq, (f, e) in sorted(reach.items()):
        ws = ef.writes(f)
        for w in ws:
            n_sites += 1
            if w.attr in ALLOWED and (w.cls is None or w.cls.fq in fam):
                ctx.ok("C19.allowed-cache", f, "write to cache %s: %s" % (w.attr, ALLOWED[w.attr]), w.node)
    ctx.extra["write_sites_examined"] = n_sites

    # the block's constraint objects are part of the block: no library call may write to them either (geometry, k, rotation
    # state ... are set while the block is built; constructors are not reachable from the entry points)
    cbase = repo.cls("base_constraint:Constraint")
    cfam = {cbase.fq} | {c_.fq for c_ in cbase.all_subclasses()}
    n_cw = 0
    for fq, (f, e) in sorted(reach.items()):
        for w in ef.writes(f):
            if w.cls is not None and w.cls.fq in cfam and w.root_kind != "fresh":
                n_cw += 1
                path = " -> ".join(cg.path_to(reach, f.fq))
                ctx.bad("C19.frame", f, w.text(), "library call can write state of a constraint object of the block: %s (class %s); path: %s -- a later call on the same block "
                        "starts from what the earlier call left behind" % (w.text(), w.cls.name, path), w.node)
    if not n_cw:
        ctx.ok("C19.frame", cbase, "no reachable function writes to a constraint object (%d constraint classes)" % len(cfam))
    offenders = list(offending_writes(ctx, cg, ef, reach, fam))
    for f, w in offenders:
        path = " -> ".join(cg.path_to(reach, f.fq))
        ctx.bad("C19.frame", f, w.text(),
                "library call can write block design state: %s (receiver %s%s); path: %s" % (
                    w.text(), w.root_kind, ", class " + w.cls.name if w.cls else "", path), w.node)

    # ---- mutated parameters: a reachable function that mutates a parameter object, called with a design-state
    #      attribute of a block as that argument
    mutating = {}
    for fq, (f, e) in reach.items():
        for w in ef.writes(f):
            if w.attr == "<itself>" and w.root_kind == "param":
                mutating.setdefault(f.fq, set()).add(w.root)
    for fq, (f, e) in sorted(reach.items()):
        for ed in cg.edges(f):
            if ed.callee.fq not in mutating or not isinstance(ed.node, ast.Call):
                continue
            callee = ed.callee
            params = [p for p in callee.params]
            offset = 1 if (callee.cls is not None and not callee.is_static and params and
                           isinstance(ed.node.func, ast.Attribute) and ed.how != "class-attr") else 0
            for i, a in enumerate(ed.node.args):
                d = dotted(a)
                if d and "." in d and d.rsplit(".", 1)[1] in DESIGN_STATE:
                    pi = i + offset
                    if pi < len(params) and params[pi] in mutating[callee.fq]:
                        ctx.bad("C19.frame", f, "%s(%s)" % (callee.qual, d),
                                "passes %s to %s, which mutates that parameter in place" % (d, callee.fq), ed.node)
                # an attribute of a constraint object (directly, or through a local that a method of the object handed out) passed to a
                # function that mutates that parameter
                if f.cls is not None and f.cls.fq in cfam and not isinstance(f.node, ast.Lambda) and f.node.args.args:
                    sn_ = f.node.args.args[0].arg
                    held_ = None
                    if d and d.startswith(sn_ + ".") and d.count(".") == 1:
                        held_ = d
                    elif isinstance(a, ast.Name):
                        for st_ in ast.walk(f.node):
                            if isinstance(st_, ast.Assign) and len(st_.targets) == 1 and isinstance(st_.targets[0], ast.Name) and st_.targets[0].id == a.id and \
                                    isinstance(st_.value, ast.Call) and isinstance(st_.value.func, ast.Attribute) and dotted(st_.value.func.value) == sn_:
                                mm_ = f.cls.lookup(st_.value.func.attr)
                                if mm_ is not None and not isinstance(mm_.node, ast.Lambda) and mm_.node.args.args:
                                    rets_ = [x for x in ast.walk(mm_.node) if isinstance(x, ast.Return) and x.value is not None]
                                    s2_ = mm_.node.args.args[0].arg
                                    if len(rets_) == 1 and dotted(rets_[0].value) and dotted(rets_[0].value).startswith(s2_ + ".") and dotted(rets_[0].value).count(".") == 1:
                                        held_ = sn_ + "." + dotted(rets_[0].value).split(".")[1]
                    pi = i + offset
                    if held_ and pi < len(params) and params[pi] in mutating[callee.fq]:
                        ctx.bad("C19.frame", f, "%s(%s)" % (callee.qual, held_),
                                "passes %s (state of the constraint object) to %s, which mutates that parameter in place: the state survives the call and the next "
                                "library call on the same block starts from it" % (held_, callee.fq), ed.node)
    ctx.check(True, "C19.frame", entries[0], "", "%d write sites in %d reachable functions examined; "
              "%d write block design state" % (n_sites, len(reach), len(offenders)), "")

    # ---- positive control: the machinery must flag a seeded write in the fixture
    from ..fixtures_check import c19_control
    ok, detail = c19_control()
    ctx.require(ok, "positive control for C19 did not fire: %s" % detail)
    ctx.ok("C19.control", "fixture", "positive control flagged: %s" % detail, trivial=True)
    ctx.min_instances("C19.allowed-cache", 3)
