"""C09 -- without-replacement samplers return distinct sequences, as many as exist."""
import ast
import sys

from ..astutil import call_attr, dotted, statements, calls
from ..facts import Facts, fact
from ..report import control
from .. import variants
from . import C02, C06, C27

TECHNIQUE = "sibling comparison of the two key compositions of RandomGen (membership test vs recording), blocking-clause construction (negation idioms, terminator, header count), must-pass-through of the blocking step, delegation registry of IterateGen"
EXPLANATION = """
Decides that the de-duplication mechanisms cover the whole solution and are applied before the next draw: (SAT
side) the blocking clause negates every element of the recorded solution and nothing else, ends in 0, the header's
clause count grows by exactly one, and update_file lies between any successful solve and the next solve (shared
with C27.blocking / C02.record); (RandomGen) the key that generate_random_samples composes for its membership test
and the key that extract_sequence_key composes for recording have the same component sequence -- the preamble
index, one entry per round in order, and the leftover entry under the same `leftover > 0` guard -- and the recorded
set is the one consulted (C06.record); (IterateGen) delegates only to IterateSATGen.sample / RandomGen.sample;
synthesize_trials truncates, never pads or repeats.  The clauses of C06 (counted space = drawn space), C14 (distinct
variables for distinct choices) and C23 (exactly the factors outside every crossing are expanded into weight copies) are
evaluated here as well, under their own rule names.
"""
NOT_DECIDED = "min(requested, available) as a number; the documented exception for copies of a weighted level outside the crossing (duplicate-named levels are distinct solutions by design)."


def check(ctx):
    R = "C09.keys"
    gr = ctx.fn("random:UCSolutionEnumerator.generate_random_samples")
    w = [s for s in gr.node.body if isinstance(s, ast.While)]
    ctx.require(len(w) == 1, "generate_random_samples: re-draw loop not found")
    t = w[0].test
    ctx.require(isinstance(t, ast.Compare) and isinstance(t.ops[0], ast.In), "generate_random_samples: membership test not found")
    member = ast.unparse(t.left).replace(" ", "")
    ctx.check(member == "tuple([choice[0]]+list(choice[1])+([choice[2]]ifleftover>0else[]))", R, gr, "membership key %s" % member,
              "membership key = (preamble index, one entry per round, leftover entry if leftover > 0)", "the membership key is composed as `%s`" % ast.unparse(t.left), w[0])
    r = [s for s in gr.node.body if isinstance(s, ast.Return)]
    ret = ast.unparse(r[0].value).replace(" ", "")
    ok = ret.startswith("[(choice[0],self.generate_preamble_sample(choice[0]))]+[(components,self.generate_sample_from_components(components))forcomponentsinchoice[1]]+"
                        "([(choice[2],self.generate_leftover_sample(choice[2],leftover))]ifleftover>0else[])")
    ctx.check(ok, R, gr, "returned pairs", "returned list = (key component, sample) pairs: preamble, each round in order, leftover under the same guard",
              "the (component, sample) list returned by generate_random_samples changed: %s" % ast.unparse(r[0].value)[:160], r[0])
    ek = ctx.fn("random:UCSolutionEnumerator.extract_sequence_key")
    fact(ctx, R, ek, "recorded key", Facts(ek).returns(), ["tuple([_b0[0] for _b0 in solution_variabless])"], "recorded key = first component of every returned pair, in order")
    chs = Facts(gr).assigns("choice")
    want_ch = "(random.randrange(0, self._preamble_solution_count), tuple([self.random_components(self._components_shape, self.crossing_size, 0) for _b0 in range(n)]), " \
              "ite((0 < leftover), self.random_components(self._leftover_components_shape, leftover, leftover), 0))"
    ctx.check(len(chs) >= 1 and all(c == want_ch for c in chs), R, gr, "choice",
              "a choice = (preamble index, n round components, leftover component or 0)", "the drawn choice changed shape: %s" % chs)
    comb = ctx.fn("random:RandomGen.__sample")
    F = Facts(comb)
    rounds = [l for l in F.iters() if l.startswith("range(0, ")]
    ctx.check(len(rounds) == 1 and "ite((0 < " in rounds[0], R, comb, "combine rounds", "all rounds plus the leftover are concatenated into the run",
              "the run is assembled over %s" % rounds)
    C06.check.__globals__  # noqa: keep import
    # the recording side (C06.record) and the sampling set it consults
    sub = [s for s in statements(comb.node) if isinstance(s, ast.Assign) and isinstance(s.targets[0], ast.Subscript) and dotted(s.targets[0].value) == "used_keys"]
    gens = [s for s in statements(comb.node) if isinstance(s, ast.Assign) and isinstance(s.value, ast.Call) and call_attr(s.value) == "generate_random_samples"]
    ctx.check(len(sub) == 1 and len(gens) == 1 and ast.unparse(gens[0].value.args[2]) == "used_keys" and
              ast.unparse(sub[0].targets[0].slice) == "enumerator.extract_sequence_key(solution_variabless)", R, comb, "same set",
              "the set consulted by the draw is the set the keys are recorded in", "the draw consults `%s` but keys are recorded elsewhere" % (
                  ast.unparse(gens[0].value.args[2]) if gens else "?"))

    # ---- SAT side: blocking clause and its placement (shared rules, reported under this property's ids)
    R = "C09.blocking"
    u = ctx.fn("sample_non_uniform:update_file")
    Fu = Facts(u)
    fact(ctx, R, u, "negation", Fu.assigns("negated_solution"), ["[-_b0 for _b0 in solution]"], "every element of the recorded solution is negated (idioms -x, -1*x, x*-1)")
    fact(ctx, R, u, "terminator", Fu.assigns("negated_solution_str"), ["' '.join([str(_b0) for _b0 in concat([-_b0 for _b0 in solution], [0])])"], "terminated by 0")
    from . import C27
    C27.header_increment(ctx, R, u)
    cs = ctx.fn("sample_non_uniform:compute_solutions")
    ctx.check("update_file(filename, cryptominisat_solve(filename, use_docker)[:support])" in Facts(cs).exprs(), R, cs, "blocked = recorded",
              "the blocked assignment is the recorded one", "compute_solutions blocks something other than the recorded solution")
    from ..cfg import CFG
    g = CFG(cs.node)
    solve = [s for s in statements(cs.node) if isinstance(s, ast.Assign) and isinstance(s.value, ast.Call) and call_attr(s.value) == "cryptominisat_solve"]
    upd = [s for s in statements(cs.node) if isinstance(s, ast.Expr) and isinstance(s.value, ast.Call) and call_attr(s.value) == "update_file"]
    ctx.check(len(solve) == 1 and len(upd) == 1 and g.every_path_passes(g.node_of(solve[0]), g.node_of(solve[0]), [g.node_of(upd[0]), g.exit]), R, cs, "block before next solve",
              "update_file lies between a successful solve and the next solve", "the next solve can happen without the previous solution being blocked")

    # ---- delegation
    R = "C09.delegation"
    it = ctx.fn("iterate:IterateGen.sample")
    outs = sorted(ast.unparse(s.value) for s in statements(it.node) if isinstance(s, ast.Return))
    ctx.check(outs == ["IterateSATGen.sample(block, sample_count)", "RandomGen.sample(block, sample_count)"], R, it, "IterateGen %s" % outs,
              "IterateGen delegates to IterateSATGen.sample or RandomGen.sample with the caller's arguments", "IterateGen returns %s" % outs)
    st = ctx.fn("main:synthesize_trials")
    raw = Facts(st).assigns("raw_samples")
    ctx.check(len(raw) == 1 and raw[0].endswith(".samples[:samples]"), R, st, "truncate", "synthesize_trials keeps at most `samples` results and adds none", "raw_samples is `%s`" % raw)
    sn = ctx.fn("sample_non_uniform:sample_non_uniform")
    fact(ctx, R, sn, "one per solution", Facts(sn).returns(), ["[Solution(_b0, 1) for _b0 in compute_solutions(cnf_file, support, count)]"], "each recorded solution is returned once")

    # RandomGen returns distinct sequences only if distinct keys are distinct candidates (C06's clauses: counted space = drawn
    # space) and distinct choices -- also the copies of a weighted level -- have distinct variables (C14's clauses)
    if not ctx.is_control or getattr(ctx, "nested_ok", False):
        from ..report import include
        include(ctx, "C06")
        include(ctx, "C14")
        # "which copy of a weighted level of a factor outside the crossing was chosen": the copies exist only if the weight
        # desugaring expands exactly the factors outside every crossing (C23's clauses)
        include(ctx, "C23")

    mod = sys.modules[__name__]
    control(ctx, mod, "record only the preamble and round components",
            lambda s: variants.in_function(s, "sweetpea/_internal/sampling_strategy/random.py", "UCSolutionEnumerator.generate_random_samples",
                                           "while tuple([choice[0]] + list(choice[1]) + ([choice[2]] if leftover > 0 else [])) in sampled:",
                                           "while tuple([choice[0]] + list(choice[1])) in sampled:"), "C09.keys")
    control(ctx, mod, "negate all but the first variable",
            lambda s: variants.in_function(s, "sweetpea/_internal/core/generate/sample_non_uniform.py", "update_file", "for var in solution]", "for var in solution[1:]]"), "C09.blocking")
    ctx.min_instances("C09.keys", 6)
    ctx.min_instances("C09.blocking", 5)
    ctx.min_instances("C09.delegation", 3)
