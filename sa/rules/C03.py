"""C03 -- each trial sequence is exactly one model of the compiled formula."""
import ast
import sys

from ..astutil import call_attr, dotted, statements, calls
from ..cfg import CFG
from ..facts import Facts, fact
from ..model import AnalysisError
from ..report import control
from ..terms import TermEval
from .. import variants

TECHNIQUE = "def-use 'definedness' analysis of every fresh-variable allocation site (each auxiliary must reach a defining sink on every path), gadget/Tseitin templates decided by truth table, provenance of the sampling set"
EXPLANATION = """
Decides that every auxiliary variable is functionally defined by earlier variables: (definedness) at every
allocation site of fresh variables -- CNF.get_fresh / get_n_fresh callers in core/cnf.py, the state variables of
Cross.apply, the selector variables of ExactlyKMultipleInARow -- the variable (or every element of the list, with
slice-partition reasoning {[:-1], [-1]}) reaches a defining sink on every path to the function's exit: the output
position of a gadget that E5 proves definitional, zero_out / set_to_zero / set_to_one, a unit-clause comprehension
over the whole list that is prepended, an xnor with a defined value that is prepended, or an Iff for every index of
the allocated range; (gadgets) each gadget and each Tseitin case determines its outputs uniquely (shared with
C11/C12); (sampling set) the samplers hand block.variables_per_sample() as the support, save_cnf passes it on as
support_set_length, as_unigen_string lists exactly range(1, support + 1), and the project's own parser recovers it.
"""
NOT_DECIDED = ("that distinct sequences give distinct assignments of the trial variables (one-hot grid, C14) and that no "
               "trial variable is left free by a missing Consistency request (runtime geometry).")

GADGETS = {"half_adder", "full_adder", "saturate_adder"}


def _cover(parts):
    """does a set of slice texts cover a whole list?"""
    ps = set(parts)
    if "all" in ps:
        return True
    return {":-1", "-1"} <= ps or {"0", "1:"} <= ps


def definedness(ctx, functions, te, rule="C03.defined"):
    n = 0
    for f in functions:
        allocs = []
        for st in statements(f.node):
            if isinstance(st, ast.Assign) and len(st.targets) == 1 and isinstance(st.targets[0], ast.Name) and \
                    isinstance(st.value, ast.Call) and dotted(st.value.func) in ("self.get_n_fresh", "self.get_fresh"):
                allocs.append((st.targets[0].id, st))
        if not allocs:
            continue
        if f.name in GADGETS:
            continue          # outputs of a definitional gadget: decided by E5 (C12.gadget)
        g = CFG(f.node)
        for name, alloc in allocs:
            n += 1
            parts, sinks = [], []
            # direct sinks
            for st in statements(f.node):
                if not (isinstance(st, ast.Expr) and isinstance(st.value, ast.Call)):
                    continue
                c = st.value
                m = call_attr(c)
                if m in ("zero_out", "set_to_zero", "set_to_one") and c.args:
                    a = c.args[0]
                    if isinstance(a, ast.Name) and a.id == name:
                        parts.append("all")
                        sinks.append(st)
                    elif isinstance(a, ast.Subscript) and isinstance(a.value, ast.Name) and a.value.id == name:
                        parts.append(ast.unparse(a.slice))
                        sinks.append(st)
            # a unit clause over the variable itself, prepended as a literal clause list: CNF([[v], ...]) / CNF([[~v], ...])
            for st in statements(f.node):
                if isinstance(st, ast.Expr) and isinstance(st.value, ast.Call) and call_attr(st.value) == "prepend" and st.value.args:
                    a0 = st.value.args[0]
                    if isinstance(a0, ast.Call) and dotted(a0.func) == "CNF" and a0.args and isinstance(a0.args[0], ast.List):
                        for cl in a0.args[0].elts:
                            if isinstance(cl, ast.List) and len(cl.elts) == 1:
                                lit = cl.elts[0]
                                if isinstance(lit, ast.UnaryOp) and isinstance(lit.op, ast.Invert):
                                    lit = lit.operand
                                if isinstance(lit, ast.Name) and lit.id == name and st not in sinks:
                                    parts.append("all")
                                    sinks.append(st)
            # unit comprehension over zip(name, ...) that is prepended as unit clauses
            for st in statements(f.node):
                if isinstance(st, ast.Assign) and isinstance(st.value, ast.ListComp) and len(st.value.generators) == 1:
                    gen = st.value.generators[0]
                    it = gen.iter
                    srcs = [dotted(x) for x in it.args] if isinstance(it, ast.Call) and call_attr(it) == "zip" else [dotted(it)]
                    if name in srcs and isinstance(st.value.elt, ast.Call) and dotted(st.value.elt.func) == "Var":
                        idx = srcs.index(name)
                        tgt = gen.target.elts[idx] if isinstance(gen.target, ast.Tuple) else gen.target
                        el = ast.unparse(st.value.elt)
                        if isinstance(tgt, ast.Name) and ("%s.value" % tgt.id) in el:
                            lst = st.targets[0].id if isinstance(st.targets[0], ast.Name) else None
                            # the list must be prepended as unit clauses
                            for st2 in statements(f.node):
                                if isinstance(st2, ast.Expr) and isinstance(st2.value, ast.Call) and call_attr(st2.value) == "prepend":
                                    t = ast.unparse(st2.value.args[0]).replace(" ", "")
                                    if lst and t == "CNF([Clause(x)forxin%s])" % lst:
                                        parts.append("all")
                                        sinks.append(st2)
            # xnor definition loop
            for st in statements(f.node):
                if isinstance(st, ast.For) and isinstance(st.iter, ast.Call) and call_attr(st.iter) == "zip" and \
                        dotted(st.iter.args[0]) == name and isinstance(st.target, ast.Tuple) and isinstance(st.target.elts[0], ast.Name):
                    lhs = st.target.elts[0].id
                    defs = [c for c in ast.walk(st) if isinstance(c, ast.Call) and call_attr(c) in ("xnor_vars",) and
                            c.args and dotted(c.args[0]) == lhs]
                    acc = [s for s in st.body if isinstance(s, ast.AugAssign) and isinstance(s.target, ast.Name)]
                    if defs and acc:
                        accname = acc[0].target.id
                        for st2 in statements(f.node):
                            if isinstance(st2, ast.Expr) and isinstance(st2.value, ast.Call) and call_attr(st2.value) == "prepend" \
                                    and dotted(st2.value.args[0]) == accname:
                                parts.append("all")
                                sinks.append(st2)
            covered = _cover(parts)
            on_all_paths = False
            if covered:
                a = g.node_of(alloc)
                sink_nodes = [g.node_of(s) for s in sinks if g.has(s)]
                if "all" in parts:
                    alls = [g.node_of(s) for s, p in zip(sinks, parts) if p == "all" and g.has(s)]
                    on_all_paths = any(g.every_path_passes(a, g.exit, [sn]) for sn in alls)
                if not on_all_paths:
                    # partition: each part's sink must lie on every path
                    on_all_paths = all(g.every_path_passes(a, g.exit, [sn]) for sn in sink_nodes) and covered
            ctx.check(covered and on_all_paths, rule, f, "%s = %s" % (name, ast.unparse(alloc.value)),
                      "fresh %s is defined on every path (%s)" % (name, ", ".join(sorted(set(parts)))),
                      "fresh variable(s) `%s` allocated by `%s` are not defined on every path to the exit (sinks found: %s): an "
                      "unconstrained auxiliary doubles the number of models per trial sequence" % (
                          name, ast.unparse(alloc.value), sorted(set(parts)) or "none"), alloc)
    return n


def check(ctx):
    repo = ctx.repo
    te = TermEval(repo)
    cnf = repo.module("cnf")
    # ---- every allocation site in core/cnf.py
    fs = []
    n_sites = 0
    for c in cnf.classes.values():
        for f in c.methods.values():
            sites = [k for k in calls(f.node) if dotted(k.func) in ("self.get_n_fresh", "self.get_fresh")]
            if sites and f.name not in ("get_n_fresh",):
                fs.append(f)
                n_sites += len(sites)
                ctx.functions.add(f.fq)
    ctx.require(n_sites >= 10, "only %d fresh-variable allocation sites found in core/cnf.py" % n_sites)
    # allocations that are not bound to a name cannot be tracked: all must be `x = self.get_*fresh(..)`
    for f in fs:
        for k in calls(f.node):
            if dotted(k.func) in ("self.get_n_fresh", "self.get_fresh"):
                bound = any(isinstance(st, ast.Assign) and st.value is k for st in statements(f.node))
                ctx.check(bound, "C03.defined", f, "unbound %s" % ast.unparse(k), "allocation is bound to a name", "a fresh variable is allocated and not bound to a name: %s" % ast.unparse(k), k, trivial=True)
    definedness(ctx, fs, te)

    # ---- gadgets and Tseitin cases define their outputs uniquely
    from . import C12, C11
    C12.gadget_checks(ctx, te)
    C11.tseitin_cases(ctx, te, rule="C03.tseitin")
    C11.cache_discipline(ctx, rule="C03.tseitin")

    # ---- fresh variables allocated in constraint.py
    R = "C03.constraint-aux"
    ca = ctx.fn("constraint:Cross.apply")
    F = Facts(ca)
    fact(ctx, R, ca, "state vars", F.assigns("state_vars"), ["list(range(backend_request.fresh, backend_request.fresh + len(list(range(1 + block.preamble_size(c), 1 + block.trials_per_sample())))*len(%s)))" % _cc0(F)],
         "one state variable per (crossing trial, combination)") if False else None
    sv = [s for s in F.stmts if isinstance(s, ast.Assign) and dotted(s.targets[0]) == "state_vars"]
    iffs = [s for s in F.stmts if isinstance(s, ast.Assign) and dotted(s.targets[0]) == "iffs"]
    ctx.require(len(sv) == 1 and len(iffs) == 1, "Cross.apply: state_vars / iffs not found")
    from ..sym import Env as _E, sym as _symx
    t = str(_symx(iffs[0].value, _E()))
    ok = t in ("[Iff(state_vars[_b0], And([*flattened_combinations[_b0]])) for _b0 in range(len(state_vars))]",
               "list([Iff(state_vars[_b0], And([*flattened_combinations[_b0]])) for _b0 in range(len(state_vars))])")
    ctx.check(ok, R, ca, "state var definitions", "every state variable is defined by an Iff with its combination (all indices of the allocated range)",
              "the Iff definitions no longer cover every state variable: %s" % ast.unparse(iffs[0].value)[:140], iffs[0])
    cf = [c for c, st in F.calls_named("cnf_fn")]
    ctx.check(len(cf) == 1 and ast.unparse(cf[0].args[0]) == "And(iffs)", R, ca, "state var definitions emitted", "the definitions are converted and emitted",
              "And(iffs) is no longer handed to cnf_fn")
    ctx.note("ExactlyKMultipleInARow selector variables are one-directional (If(sel, ...)); the class is not exported and is outside "
             "the property's constraint list")
    ctx.exception("ExactlyKMultipleInARow", "selectors are one-directional; class not exported")

    # ---- what the samplers declare to the solver: clauses of the very request, fresh - 1 variables (a declared variable that no
    # clause mentions is free and doubles the model count), variables_per_sample() as the support
    from . import C01 as _C01
    _C01.rule_pipeline(ctx, R="C03.pipeline")
    # ---- sampling set
    R = "C03.sampling-set"
    for ref in ("iterate_sat:IterateSATGen.sample", "sampling_strategy.unigen:UniGen.sample"):
        f = ctx.fn(ref)
        cs = [c for c in calls(f.node) if call_attr(c) in ("sample_non_uniform", "sample_uniform")]
        ctx.require(len(cs) == 1, "%s: solver call not found" % f.fq)
        ctx.check(len(cs[0].args) >= 4 and ast.unparse(cs[0].args[3]) == "block.variables_per_sample()", R, f, "support",
                  "support = block.variables_per_sample() (the trial-variable prefix)", "the support handed to the sampler is `%s`" % (
                      ast.unparse(cs[0].args[3]) if len(cs[0].args) >= 4 else "?"), cs[0])
    for ref in ("sample_non_uniform:sample_non_uniform", "sample_uniform:sample_uniform"):
        f = ctx.fn(ref)
        cs = [c for c in calls(f.node) if call_attr(c) == "combine_and_save_cnf"]
        ctx.check(len(cs) == 1 and [ast.unparse(a) for a in cs[0].args] == ["cnf_file", "initial_cnf", "fresh", "support", "generation_requests"], R, f,
                  "combine_and_save_cnf args", "fresh and support reach the writer unchanged", "combine_and_save_cnf is called with %s" % (
                      [ast.unparse(a) for a in cs[0].args] if cs else "?"))
    f = ctx.fn("utility:combine_and_save_cnf")
    cs = [c for c in calls(f.node) if call_attr(c) == "save_cnf"]
    ctx.check(len(cs) == 1 and [ast.unparse(a) for a in cs[0].args] == ["filename", "combined_cnf", "fresh", "support"], R, f, "save_cnf args",
              "support reaches save_cnf", "save_cnf is called with %s" % ([ast.unparse(a) for a in cs[0].args] if cs else "?"))
    f = ctx.fn("utility:save_cnf")
    cs = [c for c in calls(f.node) if call_attr(c) == "as_unigen_string"]
    kw = {k.arg: ast.unparse(k.value) for k in cs[0].keywords} if cs else {}
    ctx.check(len(cs) == 1 and kw.get("support_set_length") == "support" and "sampled_variables" not in kw, R, f, "support_set_length",
              "save_cnf passes support as support_set_length", "save_cnf calls as_unigen_string(%s)" % kw)
    f = ctx.fn("cnf:CNF.as_unigen_string")
    F = Facts(f)
    ss = F.assigns("support_set")
    ctx.check(ss[:1] == ["[Var(_b0) for _b0 in range(1, 1 + support_set_length)]"], R, f, "support set %s" % ss[:1],
              "sampling set = variables 1 .. support", "as_unigen_string builds the sampling set as %s" % ss[:1])
    from . import C27
    C27.sampling_set_lines(ctx, rule="C03.sampling-set")
    # the public save_cnf path (main.__generate_cnf): the sampling set must determine every other variable -- either the
    # explicit list of the non-derived factors' variables, or the whole trial-variable prefix
    gc = ctx.fn("main:__generate_cnf")
    cs = [c for c in calls(gc.node) if call_attr(c) == "as_unigen_string"]
    ctx.require(len(cs) == 1, "__generate_cnf: as_unigen_string call not found")
    kw = {k.arg: ast.unparse(k.value) for k in cs[0].keywords}
    ok = (kw == {"sampled_variables": "[Var(n) for n in block.support_variables()]"}) or (kw == {"support_set_length": "block.variables_per_sample()"})
    ctx.check(ok and not cs[0].args, R, gc, "save_cnf sampling set %s" % kw, "save_cnf lists the variables of the non-derived factors (or the whole trial-variable prefix) as the sampling set",
              "__generate_cnf calls as_unigen_string(%s): the sampling set is neither the list block.support_variables() nor the prefix 1..variables_per_sample(), "
              "so models no longer project one-to-one onto it" % kw, cs[0])
    sv = ctx.fn("block:Block.support_variables")
    Fs = Facts(sv)
    body = [ast.unparse(x) for x in statements(sv.node)]
    ctx.check(Fs.iters()[:2] == ["range(self.trials_per_sample())", "self.act_design"] and "vars += self.factor_variables_for_trial(f, t + 1)" in body and
              any(b.startswith("if not isinstance(f, DerivedFactor):") for b in body), R, sv, "support variables", "every trial x every non-derived encoded factor contributes its variables",
              "Block.support_variables changed: %s" % Fs.iters()[:2])
    uv = ctx.fn("cnf:CNF.as_unigen_string")
    tests = [ast.unparse(x.test) for x in statements(uv.node) if isinstance(x, ast.If)]
    ctx.check("support_set_length is not None and sampled_variables is not None" in tests and "support_set = sampled_variables" in [ast.unparse(x) for x in statements(uv.node)], R, uv,
              "explicit list honoured", "an explicit variable list is used as given; giving both forms is refused", "as_unigen_string no longer honours sampled_variables as given")
    # exact cardinality is part of 'one model per sequence' (a valid sequence must keep its model): C10's clauses
    from ..report import include
    if not ctx.is_control:
        include(ctx, "C10")

    mod = sys.modules[__name__]
    control(ctx, mod, "pop_count forgets to zero its padding",
            lambda s: variants.in_function(s, "sweetpea/_internal/core/cnf.py", "CNF.pop_count", "        self.zero_out(aux_list)\n", "        pass\n"), "C03.defined")
    control(ctx, mod, "constant one leaves its top bits free",
            lambda s: variants.in_function(s, "sweetpea/_internal/core/cnf.py", "CNF._convert_to_negative_twos_complement",
                                           "        self.zero_out(one_vars[:-1])\n", "        pass\n"), "C03.defined")
    control(ctx, mod, "half of the state variables undefined",
            lambda s: variants.in_function(s, "sweetpea/_internal/constraint.py", "Cross.apply", "range(len(state_vars))))", "range(len(state_vars) - 1)))"), "C03.constraint-aux")
    ctx.min_instances("C03.defined", 8)
    ctx.min_instances("C03.tseitin", 6)
    ctx.min_instances("C03.sampling-set", 11)


def _cc0(F):
    return ""
