"""C07 -- SAT-based and combinatoric samplers agree on the solution space (sibling agreement)."""
import ast
import sys

from ..astutil import call_attr, dotted, statements, calls, walk_body
from ..model import AnalysisError
from ..report import control
from ..facts import Facts, same_cases
from ..siblings import Roles
from ..sym import Env, Poly, sym, forward, sym_at
from .. import variants

TECHNIQUE = "sibling comparison: symbolic normal forms of window / loop / index / comparator roles of each constraint's SAT encoder and rejection checker, and of the three realisations of the crossing requirement"
EXPLANATION = """
Decides role-by-role agreement between the two (three) realisations of each piece of design semantics, on symbolic
normal forms (names expanded through their definitions, ring-normalised): for every constraint class its SAT side
(apply / apply_to_backend_request) and its rejection side (potential_sample_conforms / _potential_counts_conform)
use the same window argument, loop start, bound and stride, the same level-index term, positions that differ by
exactly the 1-based/0-based offset, and the comparator that corresponds to the cardinality request
(LT k+1 over windows of k+1 <-> at most k; EQ k <-> sum == k; AtLeast <-> >=; ExactlyKInARow <-> ==; multiples <->
count % k == 0); the crossing requirement in Cross.apply, sample_mismatch_crossing and
RandomGen.__are_constraints_violated exhibits the same four facts (window start, chunk = size x weight, expected
count = combination weight x crossing weight x sustain, equality for full chunks / at-most for the trailing one);
every site that converts a block trial index into a factor trial number for applies_to_trial divides by that
factor's sustain count.  Further crossing facts: (F3 aligned lists) weights, encoded combinations and the chunks of
state variables range over the same filtered combination list; (F5) the exclusion predicate -- a combination is excluded
iff it holds an excluded simple level or matches an excluded derived level's combination on all of its factors, and is
dropped as inconsistent iff a simple-window derived level in it is impossible for every choice of levels of its sources
outside the combination -- and the trial count's __count_exclusions quantifies over absent sources the same way.  The two
run-length encoders (AtLeastKInARow, ExactlyKInARow) emit, per path condition, exactly the recorded clause table (a window
too short for a sublist admits the level only as a whole window of k trials, resp. not at all).
"""
NOT_DECIDED = ("that agreeing expressions are the *right* expressions (C01/C04 clauses), candidate construction in "
               "UCSolutionEnumerator versus the Cross/Derivation encodings beyond the facts listed, solver behaviour.")


# ----------------------------------------------------------------------------------------------- helpers

def _one(ctx, lst, what, f):
    ctx.require(len(lst) == 1, "%s: expected exactly one %s, found %d" % (f.fq, what, len(lst)))
    return lst[0]


def eq(ctx, rule, f, a, b, what, node=None):
    return ctx.check(a == b, rule, f, "%s: %s vs %s" % (what, a, b), "%s agree: %s" % (what, a),
                     "%s differ between the SAT side and the checker side: `%s` vs `%s`" % (what, a, b), node)


def pair_sequential(ctx, R="C07.pair"):
    a, c = ctx.fn("constraint:Sequential.apply"), ctx.fn("constraint:Sequential.potential_sample_conforms")
    ra, rc = Roles(a), Roles(c)
    la = _one(ctx, [l for l in ra.counting_loops() if "get_variable" in ast.unparse(l["stmt"])], "trial loop", a)
    lc = _one(ctx, [l for l in rc.counting_loops() if "sample[" in ast.unparse(l["stmt"])], "trial loop", c)
    eq(ctx, R, c, la["start"], lc["start"], "Sequential loop start", lc["stmt"])
    eq(ctx, R, c, la["test"], lc["test"], "Sequential loop bound", lc["stmt"])
    eq(ctx, R, c, la["stride"], lc["stride"], "Sequential loop stride", lc["stmt"])
    ia = _one(ctx, ra.subscripts_of(lambda b: b.endswith(".levels")), "levels[...] selection", a)
    ic = _one(ctx, rc.subscripts_of(lambda b: b.endswith(".levels")), "levels[...] selection", c)
    eq(ctx, R, c, ia[3], ic[3], "Sequential level index", ic[0])
    # positions: get_variable(i+1, ..) vs sample[..][i]
    gv = ra.calls_named("get_variable")
    ctx.require(len(gv) == 1, "%s: get_variable call not found" % a.fq)
    pos_a = ra.arg(gv[0][0], gv[0][1], 0)
    sc = [s for s in rc.subscripts_of(lambda b: b.startswith("sample["))]
    ctx.require(len(sc) == 1, "%s: sample[...][i] read not found" % c.fq)
    eq(ctx, R, c, pos_a, sc[0][3] + Poly.const(1), "Sequential position (1-based trial = 0-based index + 1)", sc[0][0])
    # the SAT side fixes every level of the factor at that trial (chosen positive, others negative)
    txt = ast.unparse(la["stmt"])
    ctx.check("ands.append(var)" in txt and "ands.append(Not(var))" in txt and "for l in f.levels" in txt, R, a,
              "Sequential literal polarity", "chosen level asserted, every other level negated",
              "Sequential.apply no longer asserts the chosen level and negates the others")
    pol = [s for s in rc.stmts if isinstance(s, ast.If) and "sample[" in ast.unparse(s.test)]
    ctx.check(len(pol) == 1 and isinstance(pol[0].test, ast.UnaryOp) and isinstance(pol[0].test.op, ast.Not)
              and isinstance(pol[0].body[0], ast.Return) and ast.unparse(pol[0].body[0]) == "return False", R, c,
              "Sequential checker polarity", "checker rejects when the level is not the expected one",
              "Sequential.potential_sample_conforms test polarity changed: %s" % (ast.unparse(pol[0].test) if pol else "?"))


def pair_latin(ctx, R="C07.pair"):
    a, c = ctx.fn("constraint:LatinSquare.apply"), ctx.fn("constraint:LatinSquare.potential_sample_conforms")
    ra, rc = Roles(a), Roles(c)
    la = _one(ctx, ra.while_loops(), "while loop", a)
    lc = _one(ctx, rc.while_loops(), "while loop", c)
    eq(ctx, R, c, la["start"], lc["start"], "LatinSquare loop start", lc["stmt"])
    eq(ctx, R, c, la["test"], lc["test"], "LatinSquare loop bound", lc["stmt"])
    eq(ctx, R, c, la["stride"], lc["stride"], "LatinSquare loop stride", lc["stmt"])
    # inner ranges and guards
    fa = sorted({str(l["iter"]) for l in ra.for_loops() if str(l["iter"]).startswith("range(")})
    fc = sorted({str(l["iter"]) for l in rc.for_loops() if str(l["iter"]).startswith("range(")})
    eq(ctx, R, c, fa, fc, "LatinSquare segment ranges")
    ga = sorted({str(ra.at(s, s.test)) for s in ra.stmts if isinstance(s, ast.If) and "num_trials" in ast.unparse(s.test)})
    gc = sorted({str(rc.at(s, s.test)) for s in rc.stmts if isinstance(s, ast.If) and "num_trials" in ast.unparse(s.test)})
    eq(ctx, R, c, ga, gc, "LatinSquare in-range guards")
    # level index of the dependent factors: (k + rotations[idx]) % len(f.levels)
    ia = {str(x[3]) for x in ra.subscripts_of(lambda b: b == "f.levels")}
    ic = {str(x[3]) for x in rc.subscripts_of(lambda b: b == "f.levels")}
    ctx.require(len(ia) == 1 and len(ic) == 1, "LatinSquare: dependent level index not found (%s / %s)" % (ia, ic))
    eq(ctx, R, c, ia, ic, "LatinSquare dependent level index")
    # positions
    pa = {str(ra.arg(cl, st, 0)) for cl, st in ra.calls_named("get_variable")}
    pc = {str(x[3] + Poly.const(1)) for x in rc.subscripts_of(lambda b: b.startswith("sample["))}
    eq(ctx, R, c, pa, pc, "LatinSquare positions (1-based trial = 0-based index + 1)")
    # rotation stepping in both
    sa_, sc_ = ra.calls_named("_step_rotations"), rc.calls_named("_step_rotations")
    ctx.check(len(sa_) == 1 and len(sc_) == 1 and str(ra.at(sa_[0][1], sa_[0][0])) == str(rc.at(sc_[0][1], sc_[0][0])),
              R, c, "LatinSquare rotation step", "both sides step the rotations once per segment",
              "rotation stepping differs between LatinSquare.apply and its checker")
    # uniqueness: LT 2 over the segment's main-factor variables <-> duplicate rejection
    llr = ra.calls_named("LowLevelRequest")
    ctx.require(len(llr) == 1, "%s: LowLevelRequest not found" % a.fq)
    kind = llr[0][0].args[0].value if isinstance(llr[0][0].args[0], ast.Constant) else None
    bound = ra.arg(llr[0][0], llr[0][1], 1)
    ctx.check(kind == "LT" and bound == Poly.const(2), R, a, "LatinSquare uniqueness request %s %s" % (kind, bound),
              "each main-factor level at most once per segment (LT 2)",
              "LatinSquare uniqueness request is %s %s, the checker rejects any repetition (LT 2)" % (kind, bound), llr[0][0])
    dup = [s for s in rc.stmts if isinstance(s, ast.If) and " in found" in ast.unparse(s.test)]
    ctx.check(len(dup) == 1 and ast.unparse(dup[0].body[0]) == "return False", R, c, "LatinSquare duplicate rejection",
              "checker rejects a repeated main-factor level", "LatinSquare checker no longer rejects repeated main-factor levels")


def latin_rotations(ctx, R="C07.pair"):
    """LatinSquare._step_rotations is an odometer over the non-main factors: a digit that wraps carries into the next one.
    Shared by the encoder and the checker, so a sibling comparison cannot see a defect in it; its shape is checked here."""
    from ..cfg import guard_stack
    f = ctx.fn("constraint:LatinSquare._step_rotations")
    loops = [s for s in statements(f.node) if isinstance(s, (ast.While, ast.For))]
    ctx.require(len(loops) == 1, "_step_rotations: digit loop not found")
    gs = guard_stack(f.node)
    brs = [s for s in statements(f.node) if isinstance(s, ast.Break)]
    incs = [s for s in statements(f.node) if (isinstance(s, ast.AugAssign) and isinstance(s.op, ast.Add) and ast.unparse(s.target).startswith("rotations[")) or
            (isinstance(s, ast.Assign) and ast.unparse(s.targets[0]).startswith("rotations[") and "+ 1" in ast.unparse(s.value))]
    ctx.require(len(incs) == 1, "_step_rotations: digit increment not found")
    digit = ast.unparse(incs[0].target if isinstance(incs[0], ast.AugAssign) else incs[0].targets[0])
    ok = bool(brs)
    for b in brs:
        guards = [ast.unparse(t) for t, pol in gs[id(b)] if digit in ast.unparse(t) and isinstance(t, ast.Compare)]
        ok = ok and bool(guards)
    ctx.check(ok, R, f, "odometer carry", "the digit loop stops only when the incremented digit did not wrap; otherwise the carry moves on to the next factor",
              "_step_rotations leaves its loop right after incrementing one rotation (no test of `%s` against its radix guards the break): a wrapped digit never carries, so with "
              "three or more factors only the last one ever rotates and diagonals repeat" % digit, brs[0] if brs else loops[0])
    resets = [s for s in statements(f.node) if isinstance(s, ast.Assign) and ast.unparse(s.targets[0]) == digit and ast.unparse(s.value) == "0"]
    mods = "%" in ast.unparse(incs[0])
    ctx.check(bool(resets) or mods, R, f, "wrap to zero", "a digit that reaches its radix restarts at 0", "a rotation that reaches its radix is not reset")
    skip = [s for s in statements(f.node) if isinstance(s, ast.If) and "main_factor_idx" in ast.unparse(s.test)]
    ctx.check(len(skip) == 1 and ast.unparse(skip[0].test) in ("k != main_factor_idx",), R, f, "main factor fixed", "the main factor's rotation stays fixed", "the main-factor exclusion of _step_rotations changed")


def pair_sustain(ctx, R="C07.pair"):
    a, c = ctx.fn("constraint:Sustain.apply"), ctx.fn("constraint:Sustain.potential_sample_conforms")
    ra, rc = Roles(a), Roles(c)
    # SAT: vars[i] <-> vars[(i // s) * s] for every i of the whole sequence (window None)
    bv = _one(ctx, ra.calls_named("build_variable_lists"), "build_variable_lists call", a)
    win = ra.arg(bv[0], bv[1], 1, "within_block")
    ctx.check(win is not None and str(win) == "None", R, a, "Sustain window %s" % win, "Sustain ranges over the whole sequence",
              "Sustain.apply passes window `%s`; the checker walks the whole sequence" % win, bv[0])
    iff = _one(ctx, ra.calls_named("Iff"), "Iff", a)
    from ..facts import canon_loopvars
    ca = lambda x: canon_loopvars(a, [str(x)])[0]          # loop variables of the encoder by position: factor, level, list, trial
    cc = lambda x: canon_loopvars(c, [str(x)])[0]          # of the checker: factor, group start, member offset
    t = ca(ra.at(iff[1], iff[0]))
    s = "block.sustain_count(_v0)"
    ctx.check(t == "Iff(_v2[_v3], _v2[(_v3)//(%s)*%s])" % (s, s), R, a, "Sustain anchor %s" % t,
              "trial i equals the first trial of its sustain group", "Sustain.apply ties trial i to `%s`" % t, iff[0])
    rng = [l for l in ra.for_loops() if ca(l["target"]) == "_v3"]
    ctx.check(len(rng) == 1 and ca(rng[0]["iter"]) == "range(0, len(_v2))", R, a, "Sustain range", "all trials are tied",
              "Sustain.apply no longer ranges over all trials: %s" % [str(l["iter"]) for l in rng])
    # checker: groups start at multiples of s, members i+j for j in 1..s-1 compared with the first
    li = [l for l in rc.for_loops() if cc(l["target"]) == "_v1"]
    lj = [l for l in rc.for_loops() if cc(l["target"]) == "_v2"]
    ctx.check(len(li) == 1 and cc(li[0]["iter"]) == "range(0, len(sample[_v0]), %s)" % s, R, c, "Sustain group starts",
              "groups start at multiples of the sustain count", "Sustain checker group loop is %s" % [str(l["iter"]) for l in li])
    ctx.check(len(lj) == 1 and cc(lj[0]["iter"]) == "range(1, %s)" % s, R, c, "Sustain group members",
              "every other member of the group is compared", "Sustain checker member loop is %s" % [str(l["iter"]) for l in lj])
    cmp_ = [st for st in rc.stmts if isinstance(st, ast.If) and "levels[" in ast.unparse(st.test) and "!=" in ast.unparse(st.test)]
    ctx.check(len(cmp_) == 1 and cc(rc.at(cmp_[0], cmp_[0].test)) in ("(sample[_v0][_v1 + _v2] != sample[_v0][_v1])", "(sample[_v0][_v2 + _v1] != sample[_v0][_v1])") and
              ast.unparse(cmp_[0].body[0]) == "return False", R, c, "Sustain comparison",
              "member i+j must equal the group's first trial", "Sustain checker comparison changed: %s" % (
                  str(rc.at(cmp_[0], cmp_[0].test)) if cmp_ else "?"))
    # the encoder holds the encoded factors (act_design); the implied factors that design adds are computed from the first trial of
    # each sustain group of their (held) sources, so either collection denotes the same constraint on both sides
    FACTORS = ("block.design", "block.act_design")
    both = [l for l in ra.for_loops() if str(l["iter"]) in FACTORS] and [l for l in rc.for_loops() if str(l["iter"]) in FACTORS]
    ctx.check(bool(both), R, c, "Sustain factors", "both sides range over the block's factors (design / act_design)", "Sustain sides range over different factor sets")
    # which factors are held: the encoder ties every factor of the design (no filter); the checker may skip only factors that
    # are not sustained at all (count 1), where there is nothing to compare
    la = [l["stmt"] for l in ra.for_loops() if str(l["iter"]) in FACTORS]
    lc = [l["stmt"] for l in rc.for_loops() if str(l["iter"]) in FACTORS]
    if la and lc:
        from ..facts import Facts
        Fa, Fc = Facts(a), Facts(c)
        iffs = [x for x in Fa.stmts if isinstance(x, ast.Expr) and "iffs.append" in ast.unparse(x)]
        reads = [x for x in Fc.stmts if isinstance(x, ast.Assign) and "sample[_v0]" in cc(ast.unparse(x.value))]
        fa = sorted({ca(l) for x in iffs for l in Fa.conds(x)})
        fc = sorted({cc(l) for x in reads for l in Fc.conds(x)})
        ctx.check(bool(iffs) and bool(reads) and fa == [] and fc == ["(1 < %s)" % s], R, c, "Sustain factor filter %s / %s" % (fa, fc), "every factor of the design is held by the encoder; the checker skips only unsustained factors",
                  "the two sides of Sustain cover different factors: encoder condition %s, checker condition %s (expected none / only `sustain count > 1`): a factor the encoder holds constant "
                  "is not checked, or the reverse" % (fa, fc), lc[0])


def pair_pin(ctx, R="C07.pair"):
    a, c = ctx.fn("constraint:Pin.apply"), ctx.fn("constraint:Pin.potential_sample_conforms")
    ra, rc = Roles(a), Roles(c)
    ta = _one(ctx, ra.calls_named("get_trial_numbers"), "get_trial_numbers", a)
    tc = _one(ctx, rc.calls_named("get_trial_numbers"), "get_trial_numbers", c)
    eq(ctx, R, c, ra.at(ta[1], ta[0]), rc.at(tc[1], tc[0]), "Pin trial-number query", tc[0])
    gv = _one(ctx, ra.calls_named("get_variable"), "get_variable", a)
    sc = _one(ctx, rc.subscripts_of(lambda b: b.startswith("sample[")), "sample read", c)
    eq(ctx, R, c, ra.arg(gv[0], gv[1], 0), sc[3] + Poly.const(1), "Pin position (1-based trial = 0-based index + 1)", sc[0])
    eq(ctx, R, c, str(ra.arg(gv[0], gv[1], 1)), "(self.factor, self.level)", "Pin pinned (factor, level)", gv[0])
    cmp_ = [st for st in rc.stmts if isinstance(st, ast.If) and "levels[" in ast.unparse(st.test)]
    ctx.check(len(cmp_) == 1 and str(rc.at(cmp_[0], cmp_[0].test)) == "(sample[self.factor][trial_no] != self.level)" and
              ast.unparse(cmp_[0].body[0]) == "return False", R, c, "Pin comparison",
              "checker rejects a different level at the pinned trial", "Pin checker comparison changed")
    # out-of-range: SAT side emits a contradiction, checker returns False
    from ..facts import Facts
    Fa, Fc = Facts(a), Facts(c)
    contr = [st for st in Fa.stmts if isinstance(st, ast.Expr) and "And([1, -1])" in ast.unparse(st).replace("(1, -1)", "[1, -1]") and "cnfs" in ast.unparse(st)]
    pins = [st for st in Fa.stmts if isinstance(st, ast.Expr) and "cnfs" in ast.unparse(st) and st not in contr]
    rets = Fc.cases()
    T = "block.get_trial_numbers(self.factor, self.index, self.within_block)"
    ok = len(contr) == 1 and Fa.conds(contr[0]) == ["not(%s)" % T] and bool(pins) and all(T in Fa.conds(p) for p in pins) and \
        ((("not(%s)" % T,), "False") in rets)
    ctx.check(ok, R, c, "Pin out-of-range", "no such trial: SAT side unsatisfiable, checker rejects",
              "Pin out-of-range handling differs: SAT contradiction under %s, checker returns %s" % ([Fa.conds(x) for x in contr], rets))
    ctx.check(((T,), "True") in rets, R, c, "Pin accept", "accepts after all pinned trials matched", "Pin checker accept path changed: %s" % rets)


def pair_exclude(ctx, R="C07.pair"):
    a, c = ctx.fn("constraint:Exclude.apply"), ctx.fn("constraint:Exclude.potential_sample_conforms")
    ra, rc = Roles(a), Roles(c)
    bv = _one(ctx, ra.calls_named("build_variable_lists"), "build_variable_lists", a)
    eq(ctx, R, a, str(ra.arg(bv[0], bv[1], 0)), "(self.factor, self.level)", "Exclude excluded (factor, level)", bv[0])
    win = ra.arg(bv[0], bv[1], 1, "within_block")
    ctx.check(win is None or str(win) == "None", R, a, "Exclude window", "Exclude ranges over the whole sequence",
              "Exclude.apply restricts the window to `%s`; the checker scans the whole sequence" % win)
    neg = [n for n in walk_body(a.node) if isinstance(n, ast.Lambda)]
    okneg = False
    for lam in neg:
        p = sym(lam.body, Env())
        if len(lam.args.args) == 1 and p == -Poly.atom(lam.args.args[0].arg):
            okneg = True
    comp = [n for n in walk_body(a.node) if isinstance(n, (ast.ListComp, ast.GeneratorExp))]
    for cp in comp:
        if isinstance(cp.generators[0].target, ast.Name) and sym(cp.elt, Env()) == -Poly.atom(cp.generators[0].target.id):
            okneg = True
    ctx.check(okneg, R, a, "Exclude negation", "every variable of the level is negated",
              "Exclude.apply no longer negates every variable of the excluded level")
    app = [cl for cl, st in ra.calls_named("append") if "cnfs" in ast.unparse(cl.func)]
    ctx.check(len(app) == 1 and ast.unparse(app[0].args[0]).startswith("And("), R, a, "Exclude conjunction",
              "the negated variables are asserted conjunctively", "Exclude.apply no longer asserts a conjunction of the negations")
    lp = [l for l in rc.for_loops()]
    ctx.check(len(lp) == 1 and str(lp[0]["iter"]) == "sample[self.factor]", R, c, "Exclude scan", "checker scans every trial of the factor",
              "Exclude checker scans %s" % [str(l["iter"]) for l in lp])
    t = [st for st in rc.stmts if isinstance(st, ast.If)]
    ctx.check(len(t) == 1 and str(rc.at(t[0], t[0].test)) == "(l == self.level)" and ast.unparse(t[0].body[0]) == "return False"
              and ast.unparse(rc.stmts[-1]) == "return True", R, c, "Exclude comparison",
              "rejects iff the excluded level occurs", "Exclude checker comparison changed: %s" % (str(rc.at(t[0], t[0].test)) if t else "?"))


KFAMILY = {
    # class: (sublist builder length, request kind, request bound, comparator in the checker)
    "AtMostKInARow": ("self.k + 1", "LT", "self.k + 1", "op.le"),
    "AtLeastKInARow": ("self.k + 1", None, None, "op.ge"),
    "ExactlyKInARow": ("self.k", None, None, "op.eq"),
}


ENCODER_CLAUSES = {
    "AtLeastKInARow": [
        (("(len(var_list) == self.k)", "not(sublists)"), "extend [Iff(var_list[0], _b0) for _b0 in var_list[1:]]"),
        (("(len(var_list) != self.k)", "not(sublists)"), "extend [Not(_b0) for _b0 in var_list]"),
        (("sublists",), "append If(sublists[0][0], And(sublists[0][1:-1]))"),
        (("sublists",), "extend [If(And([Not(_b0[0]), _b0[1]]), And(_b0[2:])) for _b0 in sublists]"),
        (("sublists",), "append If(Not(sublists[-1][1]), Not(Or(sublists[-1][2:])))"),
    ],
    "ExactlyKInARow": [
        (("not(sublists)",), "extend [Not(_b0) for _b0 in var_list]"),
        (("sublists",), "append If(ite((0 < idx), ite((1 < len([Not(sublists[-1 + idx][0]), l[0]])), And([Not(sublists[-1 + idx][0]), l[0]]), [Not(sublists[-1 + idx][0]), l[0]][0]), l[0]), ite((idx < -1 + len(sublists)), ite((1 < len(concat(l[1:], [Not(sublists[1 + idx][-1])]))), And(concat(l[1:], [Not(sublists[1 + idx][-1])])), concat(l[1:], [Not(sublists[1 + idx][-1])])[0]), ite((1 < len(l[1:])), And(l[1:]), l[-1 + self.k])))"),
        (("(1 < len(sublists[-1]))", "sublists"), "extend [If(list(reversed(sublists[-1]))[_b0], list(reversed(sublists[-1]))[1 + _b0]) for _b0 in range(-1 + len(list(reversed(sublists[-1]))))]"),
    ],
}


def pair_kinarow(ctx, R="C07.pair"):
    base_c = ctx.fn("constraint:_KInARow.potential_sample_conforms")
    rb = Roles(base_c)
    mb = _one(ctx, rb.calls_named("map_block_trial_ranges"), "map_block_trial_ranges", base_c)
    win_c = rb.arg(mb[0], mb[1], 0)
    sub = ctx.fn("constraint:_KInARow._build_variable_sublistss")
    rs = Roles(sub)
    bv = _one(ctx, rs.calls_named("build_variable_lists"), "build_variable_lists", sub)
    win_a = rs.arg(bv[0], bv[1], 1, "within_block")
    eq(ctx, R, base_c, win_a, win_c, "_KInARow window argument", mb[0])
    ctx.check(str(win_c) == "self.within_block", R, base_c, "_KInARow window is self.within_block",
              "window is the constraint's own captured geometry", "window argument is `%s`, expected self.within_block" % win_c)
    # sliding windows of exactly sublist_length
    src = ast.unparse(sub.node)
    ctx.check("var_list[i:i + sublist_length]" in src and "len(sl) == sublist_length" in src and "range(0, len(var_list))" in src,
              R, sub, "_KInARow sliding windows", "all windows of exactly sublist_length consecutive trials",
              "_build_variable_sublistss no longer yields every full window of sublist_length consecutive trials")
    # run counting in the checker
    cs = base_c.nested.get("check_sequence")
    ctx.require(cs is not None, "%s: nested check_sequence not found" % base_c.fq)
    rcs = Roles(cs)
    lp = [l for l in rcs.for_loops()]
    ctx.check(len(lp) == 1 and str(lp[0]["iter"]) == "range(start, end)", R, cs, "_KInARow run scan",
              "runs are counted over the window [start, end)", "run scan ranges over %s" % [str(l["iter"]) for l in lp])
    # by role: the list handed to _potential_counts_conform collects the counter (a) inside the scan when a run ends (counter positive and the
    # trial's level differs), (b) after the scan when a run is still open; the counter grows by one exactly on trials that hold the level
    from ..facts import Facts as _F, canon_loopvars as _canon
    Fcs = _F(cs)
    rets_ = [x for x in Fcs.stmts if isinstance(x, ast.Return) and isinstance(x.value, ast.Call) and call_attr(x.value) == "_potential_counts_conform" and
             len(x.value.args) == 1 and isinstance(x.value.args[0], ast.Name)]
    ok_runs = False
    if len(rets_) == 1:
        L = rets_[0].value.args[0].id
        apps = [x for x in Fcs.stmts if isinstance(x, ast.Expr) and isinstance(x.value, ast.Call) and call_attr(x.value) == "append" and dotted(x.value.func.value) == L and
                len(x.value.args) == 1 and isinstance(x.value.args[0], ast.Name)]
        cnts = {x.value.args[0].id for x in apps}
        if len(apps) == 2 and len(cnts) == 1:
            cnt = cnts.pop()
            loop_nodes = {id(y) for l_ in lp for y in ast.walk(l_["stmt"])}
            inside = [x for x in apps if id(x) in loop_nodes]
            after = [x for x in apps if id(x) not in loop_nodes]
            incs = [x for x in Fcs.stmts if isinstance(x, ast.AugAssign) and isinstance(x.op, ast.Add) and dotted(x.target) == cnt and ast.unparse(x.value) == "1"]
            cz = lambda st_: sorted(_canon(cs, [str(l_) for l_ in Fcs.conds(st_)]))
            if len(inside) == 1 and len(after) == 1 and len(incs) == 1:
                c_in, c_af, c_inc = cz(inside[0]), cz(after[0]), cz(incs[0])
                # the reset that closes the run follows the append in the same branch
                resets = [x for x in Fcs.stmts if isinstance(x, ast.Assign) and dotted(x.targets[0]) == cnt and ast.unparse(x.value) == "0" and id(x) in loop_nodes]
                ok_runs = ("(0 < %s)" % cnt) in c_in and any("!= level" in t_ or "level !=" in t_ for t_ in c_in) and c_af == ["(0 < %s)" % cnt] and \
                    any(("== level" in t_ or "level ==" in t_) and not t_.startswith("not(") for t_ in c_inc) and len(resets) == 1
    ctx.check(ok_runs, R, cs, "_KInARow run counting", "maximal runs of the level are collected and judged by _potential_counts_conform",
              "the run-counting loop of _KInARow.potential_sample_conforms changed shape")
    fin = [s for s in base_c.node.body if isinstance(s, ast.Return)]
    ctx.check(len(fin) == 1 and ast.unparse(fin[0].value).startswith("all(block.map_block_trial_ranges("), R, base_c,
              "_KInARow all windows", "every window must conform", "checker no longer requires all windows to conform")
    ind = ctx.fn("constraint:_KInARow._potential_counts_conform_individually")
    t = str(sym([s for s in ind.node.body if isinstance(s, ast.Return)][0].value))
    ctx.check(t == "all([fn(_b0, self.k) for _b0 in counts])", R, ind, "individual comparison %s" % t,
              "every run length n is compared as fn(n, k)", "_potential_counts_conform_individually is `%s`" % t)

    for cname, (length, kind, bound, cmp_) in KFAMILY.items():
        enc = ctx.fn("constraint:%s.apply_to_backend_request" % cname)
        chk = ctx.fn("constraint:%s._potential_counts_conform" % cname)
        re_ = Roles(enc)
        b = _one(ctx, re_.calls_named("_build_variable_sublistss"), "_build_variable_sublistss", enc)
        got_len = re_.arg(b[0], b[1], 2)
        want_len = sym(ast.parse(length, mode="eval").body)
        ctx.check(got_len == want_len, R, enc, "%s window length %s" % (cname, got_len),
                  "%s slides windows of %s trials" % (cname, length),
                  "%s slides windows of `%s` trials; its checker (%s on run lengths against k) needs `%s`" % (cname, got_len, cmp_, length), b[0])
        if kind:
            reqs = re_.calls_named("LowLevelRequest")
            ctx.require(len(reqs) == 1, "%s: LowLevelRequest not found" % enc.fq)
            rk = reqs[0][0].args[0].value if isinstance(reqs[0][0].args[0], ast.Constant) else None
            lam_env = None
            rb_ = sym(reqs[0][0].args[1], Env())
            ctx.check(rk == kind and rb_ == sym(ast.parse(bound, mode="eval").body), R, enc, "%s request %s %s" % (cname, rk, rb_),
                      "%s requests %s %s over each window" % (cname, kind, bound),
                      "%s requests `%s %s` per window of %s trials; 'at most k in a row' is 'fewer than k+1 in every window of k+1'" % (
                          cname, rk, rb_, length), reqs[0][0])
        r = [s for s in chk.node.body if isinstance(s, ast.Return)]
        t = ast.unparse(r[0].value) if r else ""
        ctx.check(t == "self._potential_counts_conform_individually(counts, %s)" % cmp_, R, chk, "%s comparator %s" % (cname, t),
                  "%s judges run lengths with %s" % (cname, cmp_),
                  "%s judges run lengths with `%s`, its encoder means %s" % (cname, t, cmp_), r[0] if r else None)

    # the clauses each run-length encoder emits, by case: a window too short for a single sublist (no sublists) admits the
    # level only as a run that fills a window of exactly k trials (AtLeastKInARow) or not at all (ExactlyKInARow); otherwise
    # the start / transition / end implications
    for cname, table in ENCODER_CLAUSES.items():
        enc = ctx.fn("constraint:%s.apply_to_backend_request" % cname)
        got = Facts(enc).emits("implications")
        ctx.check(same_cases(got, table), R, enc, "%s emitted clauses by case (%d)" % (cname, len(got)),
                  "%s emits, per window: no-sublist windows -> %s; otherwise its start / transition / end implications" % (
                      cname, "whole-window run only if the window has exactly k trials, else the level is excluded" if cname == "AtLeastKInARow" else "the level is excluded"),
                  "%s emits other clauses than its run-length checker means: found %s, expected %s" % (cname, got, sorted(table)))

    # ExactlyK: EQ k over the window's variables <-> sum(counts) == k
    enc, chk = ctx.fn("constraint:ExactlyK.apply_to_backend_request"), ctx.fn("constraint:ExactlyK._potential_counts_conform")
    re_ = Roles(enc)
    b = _one(ctx, re_.calls_named("build_variable_lists"), "build_variable_lists", enc)
    eq(ctx, R, enc, re_.arg(b[0], b[1], 1, "within_block"), win_c, "ExactlyK window argument", b[0])
    q = _one(ctx, re_.calls_named("LowLevelRequest"), "LowLevelRequest", enc)
    rk = q[0].args[0].value if isinstance(q[0].args[0], ast.Constant) else None
    ctx.check(rk == "EQ" and str(sym(q[0].args[1])) == "self.k", R, enc, "ExactlyK request %s %s" % (rk, sym(q[0].args[1])),
              "ExactlyK requests EQ k per window", "ExactlyK requests `%s %s`" % (rk, sym(q[0].args[1])), q[0])
    r = [s for s in chk.node.body if isinstance(s, ast.Return)]
    t = str(sym(r[0].value))
    ctx.check(t == "(self.k == sum(counts))", R, chk, "ExactlyK comparator %s" % t, "checker: occurrences in the window sum to k",
              "ExactlyK checker is `%s`, encoder requests EQ k" % t, r[0])
    # ExactlyKMultipleInARow (not exported): run lengths are multiples of k on both sides
    enc, chk = ctx.fn("constraint:ExactlyKMultipleInARow.apply_to_backend_request"), ctx.fn("constraint:ExactlyKMultipleInARow._potential_counts_conform")
    seg = enc.nested.get("encode_segment")
    ctx.require(seg is not None, "%s: encode_segment not found" % enc.fq)
    rng = [l for l in Roles(seg).for_loops() if l["target"] == "run_len"]
    t = str(sym([s for s in chk.node.body if isinstance(s, ast.Return)][0].value))
    ctx.check(len(rng) == 1 and str(rng[0]["iter"]) == "range(k, 1 + len(segment_vars), k)" and
              t == "all([((_b0)%(self.k) == 0) for _b0 in counts])", R, enc, "ExactlyKMultipleInARow run lengths",
              "run lengths k, 2k, ... on both sides", "ExactlyKMultipleInARow: encoder run lengths %s, checker %s" % (
                  [str(l["iter"]) for l in rng], t))


def crossing_facts(ctx, R="C07.crossing"):
    """F1 window start, F2 chunk, F3 expected count, F4 equality for full chunks / at most for the trailing one."""
    ca = ctx.fn("constraint:Cross.apply")
    wa = ctx.fn("constraint:Cross.__add_weight_constraint")
    mm = ctx.fn("cross_block:MultiCrossBlockRepeat.sample_mismatch_crossing")
    rv = ctx.fn("random:RandomGen.__are_constraints_violated")
    cm = ctx.fn("check_mismatch:combinations_mismatched_weights")
    ra, rw, rm, rr, rc = Roles(ca), Roles(wa), Roles(mm), Roles(rv), Roles(cm)

    # ---- SAT side
    ct = [s for s in ra.stmts if isinstance(s, ast.Assign) and dotted(s.targets[0]) == "crossing_trials"]
    ctx.require(len(ct) == 1, "Cross.apply: crossing_trials not found")
    t = str(ra.at(ct[0], ct[0].value))
    ctx.check(t == "list(range(1 + block.preamble_size(c), 1 + block.trials_per_sample()))", R, ca, "F1 SAT window %s" % t,
              "F1: the crossing window is trials preamble+1 .. trials (1-based)", "Cross.apply crossing window is `%s`" % t, ct[0])
    call = _one(ctx, ra.calls_named("__add_weight_constraint"), "__add_weight_constraint", ca)
    lam = [n for n in ast.walk(call[1]) if isinstance(n, ast.Lambda) and any(x is call[0] for x in ast.walk(n))]
    args = [str(ra.at(call[1], x)) for x in call[0].args]
    ctx.check(args[2:] == ["block.crossing_size(c)", "block.crossing_weight(c)"], R, ca, "F2 SAT chunk args %s" % args[2:],
              "F2: chunk parameters are crossing_size(c) and crossing_weight(c)", "Cross.apply passes chunk parameters %s" % args[2:], call[0])
    cw = [s for s in ra.stmts if isinstance(s, ast.Assign) and dotted(s.targets[0]) == "combination_weights"]
    ctx.require(len(cw) == 1, "Cross.apply: combination_weights not found")
    t = str(ra.at(cw[0], cw[0].value))
    ctx.check(t.startswith("[block.sustain_count(c[0])*combination_weight(tuple(_b0.values())) for _b0 in "), R, ca, "F3 SAT weight",
              "F3: per-combination weight = combination_weight x sustain count (crossing weight applied per chunk)",
              "Cross.apply per-combination weight is `%s`" % t[:120], cw[0])
    # the lists paired by position -- combinations encoded per trial, weights, chunk length of the state variables -- range over one collection
    tc = [s for s in ra.stmts if isinstance(s, ast.Assign) and dotted(s.targets[0]) == "trial_combinations"]
    ctx.require(len(tc) == 1, "Cross.apply: trial_combinations not found")
    X = str(ra.at(tc[0], tc[0].value))
    ctx.check("not(block.is_excluded_or_inconsistent_combination(" in X, R, ca, "F5 SAT combinations", "the crossing's combinations are those not excluded / inconsistent",
              "Cross.apply's combination list is `%s`" % X[:140], tc[0])
    cc = [s for s in ra.stmts if isinstance(s, ast.Assign) and dotted(s.targets[0]) == "crossing_combinations"]
    stt = [s for s in ra.stmts if isinstance(s, ast.Assign) and dotted(s.targets[0]) == "states"]
    ctx.require(len(cc) >= 1 and len(stt) == 1, "Cross.apply: crossing_combinations / states not found")
    # the value the list holds where the state variables are chunked (a comprehension and the equivalent nested loops have one normal form)
    t_cc, t_st = str(ra.at(stt[0], ast.Name(id="crossing_combinations", ctx=ast.Load()))), str(ra.at(stt[0], stt[0].value))
    ctx.check(t == "[block.sustain_count(c[0])*combination_weight(tuple(_b0.values())) for _b0 in %s]" % X and
              t_cc.startswith("[[block.encode_combination(_b1, _b0) for _b1 in %s] for _b0 in " % X) and t_st.endswith(", len(%s)))" % X), R, ca, "F3 SAT aligned lists",
              "F3: weights, encoded combinations and the state-variable chunks are all taken over the same (filtered) combination list, so they pair up by position",
              "Cross.apply pairs lists over different collections: weights over `%s`, combinations `%s`, chunk `%s` (expected all over the filtered combination list)" % (
                  t[t.rfind(" for _b0 in "):][:90], t_cc[:90], t_st[-90:]), cw[0])
    reqs = rw.calls_named("LowLevelRequest")
    ctx.require(len(reqs) == 2, "Cross.__add_weight_constraint: expected the EQ and the LT request")
    forms = {}
    for cl, st in reqs:
        k = cl.args[0].value if isinstance(cl.args[0], ast.Constant) else None
        forms[k] = (str(rw.at(st, cl.args[1])), str(rw.at(st, cl.args[2])))
    ctx.check(forms.get("EQ") == ("crossing_weight*weight", "variables[:crossing_size*crossing_weight]"), R, wa, "F4 SAT full chunk %s" % (forms.get("EQ"),),
              "F4: a full chunk of size x weight trials holds each combination exactly weight x crossing_weight times",
              "full-chunk request is EQ %s" % (forms.get("EQ"),))
    ctx.check(forms.get("LT") == ("1 + crossing_weight*weight", "variables"), R, wa, "F4 SAT partial chunk %s" % (forms.get("LT"),),
              "F4: the trailing partial chunk holds each combination at most weight x crossing_weight times (LT w+1)",
              "partial-chunk request is LT %s" % (forms.get("LT"),))
    wl = _one(ctx, rw.while_loops(), "while loop", wa)
    conds = [s for s in wl["stmt"].body if isinstance(s, ast.If)]
    adv = [str(rw.at(s, s.value)) for s in wl["stmt"].body if isinstance(s, ast.Assign) and dotted(s.targets[0]) == "variables"]
    ctx.check(len(conds) == 1 and str(rw.at(conds[0], conds[0].test)) == "(crossing_size*crossing_weight <= to_add)" and
              adv == ["variables[crossing_size*crossing_weight:]"] and str(wl["stride"]) == "-crossing_size*crossing_weight", R, wa,
              "F2 SAT chunking", "F2: chunks of crossing_size x crossing_weight trials, full while enough remain",
              "chunking in __add_weight_constraint changed: test %s advance %s stride %s" % (
                  [str(rw.at(s, s.test)) for s in conds], adv, wl["stride"]))

    # ---- checker side (sample_mismatch_crossing)
    wl0 = _one(ctx, rm.while_loops(), "while loop", mm)
    st0 = str(wl0["start"])
    ctx.check(st0 == "ite((self.alignment is AlignmentMode.POST_PREAMBLE), self.preamble_size(), self.preamble_sizes[i])", R, mm, "F1 checker start %s" % st0,
              "F1: window starts after the preamble (POST_PREAMBLE: unified preamble; otherwise the crossing's own)",
              "sample_mismatch_crossing window starts at `%s`" % st0)
    ctx.ok(R, mm, "F1 checker alignment split on POST_PREAMBLE as in preamble_size()", trivial=True)
    wl = _one(ctx, rm.while_loops(), "while loop", mm)
    chunk = str(wl["stride"])
    ctx.check(chunk == "self.crossing_sizes[i]*self.crossing_weight(crossing)", R, mm, "F2 checker chunk %s" % chunk,
              "F2: chunk = crossing size x crossing weight", "sample_mismatch_crossing chunk is `%s`" % chunk, wl["stmt"])
    ctx.check(str(wl["test"]) == "(start < self.trials_per_sample())", R, mm, "F2 checker bound", "chunks up to the trial count",
              "sample_mismatch_crossing loop bound is %s" % wl["test"])
    call = _one(ctx, rm.calls_named("combinations_mismatched_weights"), "combinations_mismatched_weights", mm)
    a_ = [str(rm.at(call[1], x)) for x in call[0].args]
    ctx.check(a_[2] == "self.crossing_sustain_count(crossing)*self.crossing_weight(crossing)", R, mm, "F3 checker weight %s" % a_[2],
              "F3: expected count = combination weight x crossing weight x sustain", "sample_mismatch_crossing passes weight `%s`" % a_[2], call[0])
    T_, S_ = "self.trials_per_sample()", "start + self.crossing_sizes[i]*self.crossing_weight(crossing)"
    ctx.check(a_[0] == "start" and a_[1] == "ite((%s < %s), %s, %s)" % (T_, S_, T_, S_) and a_[5] == "(%s < %s)" % (T_, S_), R, mm, "F4 checker partial chunk",
              "F4: equality for full chunks, at-most for the trailing partial chunk",
              "the full/partial chunk distinction of sample_mismatch_crossing changed")

    # ---- RandomGen side
    st_ = [s for s in rr.stmts if isinstance(s, ast.Assign) and dotted(s.targets[0]) == "start"]
    ctx.check([str(rr.at(s, s.value)) for s in st_] == ["enumerator.preamble_sizes[i]"], R, rv, "F1 RandomGen start",
              "F1: window starts after the crossing's preamble", "RandomGen crossing re-check starts at %s" % [str(rr.at(s, s.value)) for s in st_])
    cs_ = [s for s in rr.stmts if isinstance(s, ast.Assign) and dotted(s.targets[0]) == "c_crossing_size"]
    ctx.check(len(cs_) == 1 and str(rr.at(cs_[0], cs_[0].value)) == "enumerator.crossing_sizes[i]*enumerator.crossing_weights[i]", R, rv,
              "F2 RandomGen chunk", "F2: chunk = crossing size x crossing weight", "RandomGen chunk is %s" % (
                  str(rr.at(cs_[0], cs_[0].value)) if cs_ else "?"))
    cl = rr.calls_named("combinations_mismatched_weights")
    ctx.require(len(cl) == 2, "RandomGen.__are_constraints_violated: expected two combinations_mismatched_weights calls")
    got = sorted((str(rr.at(st, c_.args[2])), ast.unparse(c_.args[5])) for c_, st in cl)
    w = "block.crossing_sustain_count(c)*enumerator.crossing_weights[i]"
    ctx.check(got == [(w, "False"), (w, "True")], R, rv, "F3/F4 RandomGen %s" % got,
              "F3/F4: expected count with sustain, equality for full rounds, at-most for the leftover",
              "RandomGen crossing re-check passes %s" % got)
    en = ctx.fn("random:UCSolutionEnumerator.__init__")
    ren = Roles(en)
    vals = {}
    for s in ren.stmts:
        if isinstance(s, ast.Assign) and dotted(s.targets[0]) in ("self.crossing_sizes", "self.preamble_sizes", "self.crossing_weights"):
            vals[dotted(s.targets[0])] = str(ren.at(s, s.value))
    ctx.check(vals == {"self.crossing_sizes": "[block.crossing_size(_b0) for _b0 in block.crossings]",
                       "self.preamble_sizes": "[block.preamble_size(_b0) for _b0 in block.crossings]",
                       "self.crossing_weights": "[block.crossing_weight(_b0) for _b0 in block.crossings]"}, R, en, "enumerator geometry",
              "the enumerator's per-crossing sizes / preambles / weights are the block's", "enumerator geometry is %s" % vals)

    # ---- F5: which combinations belong to the crossing -- the exclusion predicate every side filters with
    ex = ctx.fn("block:Block.is_excluded_combination")
    got = Facts(ex).cases()
    S_ = "any([((_b0[0] in di) and (_b0[1] == di[_b0[0]])) for _b0 in self.exclude])"
    D_ = "any([all([(_b0[_b1] == di.get(_b1, None)) for _b1 in _b0]) for _b0 in self.excluded_derived])"
    want = [((S_,), "True"), ((D_, "not(%s)" % S_), "True"), (("not(%s)" % S_, "not(%s)" % D_), "False")]
    ctx.check(same_cases(got, want), R, ex, "F5 excluded combination",
              "F5: a combination is excluded iff it holds an excluded simple level, or matches an excluded derived level's combination on every one of that combination's factors",
              "is_excluded_combination decides differently: a combination that only partly overlaps an excluded basic combination (or lacks one of its factors) must not count as excluded -- found %s" % got)
    ei = ctx.fn("block:Block.is_excluded_or_inconsistent_combination")
    got = Facts(ei).cases()
    X_ = "self.is_excluded_combination(di)"
    IMP_ = "not(any([di[f].window.predicate(*_b0) for _b0 in product(*[ite((_b0 in di), [di[_b0].name], [_b1.name for _b1 in _b0.levels]) for _b0 in di[f].window.factors])]))"
    want = [((X_,), "True"),
            (("([] != self.crossings)", "(f in di)", "isinstance(f, DerivedFactor)", IMP_, "not(f.has_complex_window)", "not(%s)" % X_), "True"),
            (("([] != self.crossings)", "not(%s)" % X_), "False"), (("([] == self.crossings)", "not(%s)" % X_), "False")]
    ctx.check(same_cases(got, want) and Facts(ei).iters() == ["self.crossings[0]"], R, ei, "F5 inconsistent combination",
              "F5: beyond exclusion, a combination is dropped iff a simple-window derived level in it is impossible: no choice of levels for its sources outside the combination satisfies its predicate",
              "is_excluded_or_inconsistent_combination decides differently: %s over %s" % (got, Facts(ei).iters()))
    # the trial count subtracts the impossible combinations (__count_exclusions), the encoder / enumerator filter them
    # (is_excluded_or_inconsistent_combination): both must treat a source factor outside the combination alike -- by trying all
    # of its levels; a filter that only judges combinations holding every source keeps combinations the count has subtracted
    cx = ctx.fn("cross_block:MultiCrossBlockRepeat.__count_exclusions")

    def tries_all_levels(fn):
        for n_ in ast.walk(fn.node):
            if isinstance(n_, ast.ListComp) and len(n_.generators) == 1 and isinstance(n_.generators[0].iter, ast.Attribute) and n_.generators[0].iter.attr == "levels" and \
                    isinstance(n_.elt, ast.Attribute) and n_.elt.attr == "name" and dotted(n_.elt.value) == dotted(n_.generators[0].target):
                return True
        return False
    a_, b_ = tries_all_levels(cx), tries_all_levels(ei)
    ctx.check(a_ == b_, R, ei, "F5 impossible combinations: count and filter agree (all levels of an absent source: %s / %s)" % (a_, b_),
              "the trial count and the combination filter quantify over the levels of a source factor outside the combination in the same way",
              "__count_exclusions %s every level of a source factor that is not in the crossing, is_excluded_or_inconsistent_combination %s: the trial count drops an impossible "
              "combination that the encoder and the enumerator still require (IterateSATGen then finds no sequence, RandomGen fails its size assertion)" % (
                  "tries" if a_ else "does not try", "does" if b_ else "does not"))

    # ---- the shared counter
    body = ast.unparse(cm.node)
    t = [s for s in rc.stmts if isinstance(s, ast.Assign) and dotted(s.targets[0]) == "delta"]
    ctx.check(len(t) >= 1 and str(rc.at(t[0], t[0].value)) == "count - combination_weight(combo)*weight" and
              "if or_less and delta < 0:" in body and "mismatch += abs(delta)" in body and "for t in range(start, end)" in body, R, cm,
              "mismatch counter", "mismatch = sum |count - combination_weight x weight| (shortfall ignored when or_less)",
              "combinations_mismatched_weights changed shape")


def applicability_sites(ctx, R="C07.applicability"):
    """Every applies_to_trial query on a block trial index divides by the factor's sustain count."""
    repo = ctx.repo
    n = 0
    for f in repo.all_functions:
        if f.module.short in ("primitive", "scattered_map_core"):
            continue
        sites = [c for c in calls(f.node) if call_attr(c) == "applies_to_trial"]
        if not sites:
            continue
        repo.note_consulted(f)
        snaps = forward(f.node)
        for c in sites:
            st = None
            for s in statements(f.node):
                own = []
                for name, val in ast.iter_fields(s):
                    if name in ("body", "orelse", "finalbody", "handlers"):
                        continue
                    for v in (val if isinstance(val, list) else [val]):
                        if isinstance(v, ast.AST):
                            own += list(ast.walk(v))
                if any(x is c for x in own):
                    st = s
            env = snaps.get(id(st)) if st is not None else None
            # inside lambdas the forward env of the enclosing statement applies to free names
            outer = f
            while env is None and outer.parent is not None:
                outer = outer.parent
                osn = forward(outer.node)
                for s in statements(outer.node):
                    if any(x is c for x in ast.walk(s)):
                        env = osn[id(s)]
            ctx.require(env is not None, "%s: cannot place applies_to_trial call" % f.fq)
            from ..sym import _sym
            t = str(_sym(c.args[0], env))
            divided = ")//(" in t and ("sustain_count" in t)
            where = "%s.applies_to_trial(%s)" % (ast.unparse(c.func.value), t)
            n += 1
            if f.module.short == "encoding_diagram":
                ctx.note("diagram printer %s asks %s (outside every property)" % (f.fq, where))
                continue
            ctx.check(divided, R, f, where, "query `%s` divides the block trial index by the sustain count" % t,
                      "`%s` asks applicability for a block trial index without dividing by the factor's sustain count; "
                      "every other site (encoder, decoder, checker) divides" % where, c)
    ctx.require(n >= 10, "only %d applies_to_trial sites found" % n)
    # who may compute applicability: the start / stride phase formula lives in the window owners only; every consumer asks
    # applies_to_trial (an inlined copy is how the two sides drift apart)
    SANCTIONED = {"primitive:Factor.applies_to_trial", "primitive:ContinuousFactorWindow.get_window_val", "block:Block.__get_window_range"}
    m = 0
    for f in repo.all_functions:
        if isinstance(f.node, ast.Lambda) or f.module.short in ("scattered_map_core", "smgen", "guided"):
            continue
        for node in ast.walk(f.node):
            if isinstance(node, ast.BinOp) and isinstance(node.op, ast.Mod) and ast.unparse(node.right).split(".")[-1] == "stride":
                if any(node in list(ast.walk(g.node)) for g in f.nested.values() if not isinstance(g.node, ast.Lambda)):
                    continue
                m += 1
                ctx.check(f.fq in SANCTIONED, R, f, "stride phase in %s" % f.qual, "the stride phase `%s` is computed by a window owner" % ast.unparse(node),
                          "%s computes the stride phase itself (`%s`) instead of asking Factor.applies_to_trial: an inlined applicability test is where the samplers drift apart "
                          "(wrong origin, no sustain division)" % (f.qual, ast.unparse(node)), node)
    ctx.require(m >= 3, "only %d stride-phase computations found (3 sanctioned ones confirmed by hand)" % m)


def check(ctx):
    pair_sequential(ctx)
    pair_latin(ctx)
    latin_rotations(ctx)
    pair_sustain(ctx)
    pair_pin(ctx)
    pair_exclude(ctx)
    pair_kinarow(ctx)
    crossing_facts(ctx)
    applicability_sites(ctx)
    # the combinatoric side realises the same design only if its rejection step consults every constraint (C04's clauses)
    # and its candidate space is the counted space (C06's clauses); both are evaluated here under their own rule names
    if not ctx.is_control or getattr(ctx, "nested_ok", False):
        from ..report import include
        include(ctx, "C04", skip=("C04.crossing", "C04.applicability"))
        include(ctx, "C06")
        # the encoders see the windows the checkers are handed only if the window API itself is right (C26's window clauses)
        include(ctx, "C26", skip=("C26.scoped",))

    mod = sys.modules[__name__]
    control(ctx, mod, "Sequential checker ignores the sustain count",
            lambda s: variants.in_function(s, "sweetpea/_internal/constraint.py", "Sequential.potential_sample_conforms",
                                           "((i - preamble_size) // sustain_count) % len(f.levels)", "(i - preamble_size) % len(f.levels)"),
            "C07.pair")
    control(ctx, mod, "AtMostKInARow checker uses strict less-than",
            lambda s: variants.in_function(s, "sweetpea/_internal/constraint.py", "AtMostKInARow._potential_counts_conform",
                                           "op.le", "op.lt"), "C07.pair")
    ctx.min_instances("C07.pair", 45)
    ctx.min_instances("C07.crossing", 14)
    ctx.min_instances("C07.applicability", 9)
