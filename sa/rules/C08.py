"""C08 -- synthesis never fails internally on an accepted design (structural part)."""
import ast
import sys

from ..astutil import call_attr, dotted, statements, calls, const_int, ends_abruptly
from ..callgraph import CallGraph
from ..cfg import guard_stack
from ..facts import Facts, fact
from ..report import control
from ..sym import Env, _sym
from .. import variants
from . import C15

TECHNIQUE = "emptiness typing of the values of filtering producers (per nesting level) with a guard-dominance rule for constant-index subscripts, window-bound rule on map_block_trial_ranges, provenance rule for divisors (caller-supplied counts and lengths of filtered collections need a non-zero guard), error-gate rule on every sampler, key-coverage facts of the combinatoric candidate, dependency-order rule for derived-factor fill loops, remove-once rule, key-domain inclusion in a partition algebra evaluated from the DesignPartitions getters"
EXPLANATION = """
Decides the discipline that keeps IndexError / ZeroDivisionError / KeyError / AssertionError out of synthesis on the
paths where the repository's own code shows them to be possible: (emptiness) the values returned by the filtering
producers _KInARow._build_variable_sublistss (per window: a possibly empty list of full-length sublists),
Block.build_variable_lists (per window: a possibly empty variable list) and Block.get_trial_numbers (possibly empty)
are typed per nesting level; following them through assignments, loops, zip / enumerate, slices and lambdas in every
function reachable from the four samplers, each constant-index subscript x[0] / x[-1] / x[0][0] applied at a possibly
empty level must be dominated by an emptiness guard on that very value (if x / if not x: continue / len(x) tests);
(window bound) every window (start, end) that map_block_trial_ranges hands to its callback lies inside the
sequence: end is clamped to the trial count, because the callbacks index per-trial lists and the variable grid by
range(start, end); (divisors) every non-constant divisor on those paths is classified by provenance: a count the
caller supplies (sample_count) or the length of a filtered collection must be dominated by a non-zero guard, the
others are recorded with the construct that makes them positive; (gate) every sampler consults block.show_errors()
and returns empty before it builds a formula or an enumerator, so that designs with recorded fatal errors never
reach code that assumes a consistent design; (keys) the combinatoric candidate carries every factor in every
segment: the preamble is filled with all derived factors, the rounds with the uncrossed and complex ones, and
__combine_round concatenates by the keys of the round; (fill order) every loop that fills derived factors into a
candidate while evaluating their predicates on that candidate visits the factors in dependency order (a list sorted
by _get_depth(), directly or through an attribute sorted once and never reordered); (remove once) a list.remove(v)
inside a loop that rebinds neither the list nor the value is followed by leaving that loop or guarded by a membership
test, so that it cannot run twice with the same operands (ValueError); (key domain) the factor-keyed candidate
{**crossing instance, **source combination} of the combinatoric counter is read only with factors of partitions that
are included in the partitions it was built over, decided in a partition algebra evaluated from the DesignPartitions
getters' own source (cells over: in the main crossing / complex window / derived / source); (backend unsat) the
pyunigen sampling call, which ends the process on an unsatisfiable formula, is dominated by a satisfiability test with
an empty early return, and the pycmsgen adapter maps 'no model' to the empty result; (no crossing) every lookup of a
per-crossing list by the main-crossing index in the combinatoric sampler is reached only when the block has crossings;
(empty request) the cardinality encoder's entry points never pass a possibly empty variable list to a helper that raises on it;
(encoded factors) an encoder that walks the block's factors and asks for their variables walks act_design, not design.
"""
NOT_DECIDED = "KeyError / IndexError from data-dependent indices (layout arithmetic, user level names), exceptions raised inside user predicates, solver processes that fail, and designs that the constructors should have refused."

# value returned by the producer: maybe-empty flag per nesting level (outermost first)
PRODUCERS = {
    "_build_variable_sublistss": [True, True, False],
    "build_variable_lists": [True, True],
    "get_trial_numbers": [True],
}
ENTRY = ["main:synthesize_trials", "iterate_sat:IterateSATGen.sample", "random:RandomGen.sample", "random:RandomGen.sample_object",
         "cmsgen:CMSGen.sample", "sampling_strategy.unigen:UniGen.sample", "iterate:IterateGen.sample", "uniform:UniformGen.sample"]
OUT_OF_SCOPE_MODULES = {"smgen", "scattered_map_core", "guided", "sample_ilp", "iterate_ilp", "encoding_diagram", "server", "docker_utility", "executables"}


def _nonempty_test(t, base, pol):
    """does `t` evaluating to `pol` imply that `base` (source text) is non-empty?"""
    u = ast.unparse(t)
    if isinstance(t, ast.BoolOp):
        if isinstance(t.op, ast.And) and pol:
            return any(_nonempty_test(v, base, True) for v in t.values)
        if isinstance(t.op, ast.Or) and not pol:
            return any(_nonempty_test(v, base, False) for v in t.values)
        return False
    if isinstance(t, ast.UnaryOp) and isinstance(t.op, ast.Not):
        return _nonempty_test(t.operand, base, not pol)
    if u == base:
        return pol
    if isinstance(t, ast.Compare) and len(t.ops) == 1:
        l, r, op = ast.unparse(t.left), ast.unparse(t.comparators[0]), t.ops[0]
        ln = "len(%s)" % base
        c = const_int(t.comparators[0]) if l == ln else (const_int(t.left) if r == ln else None)
        if l == ln:
            if pol:
                if isinstance(op, ast.Gt) and c is not None and c >= 0:
                    return True
                if isinstance(op, ast.GtE) and c is not None and c >= 1:
                    return True
                if isinstance(op, ast.NotEq) and c == 0:
                    return True
                if isinstance(op, ast.Eq) and (c is not None and c >= 1 or r == "self.k"):
                    return True        # k > 0 is enforced by _KInARow validation (checked below)
            else:
                if isinstance(op, ast.NotEq) and (c is not None and c >= 1 or r == "self.k"):
                    return True
                if isinstance(op, ast.Eq) and c == 0:
                    return True
                if isinstance(op, ast.Lt) and c is not None and c >= 1:
                    return True
                if isinstance(op, ast.LtE) and c is not None and c >= 0:
                    return True
        if r == ln:
            if pol and isinstance(op, ast.Lt) and c is not None and c >= 0:
                return True
            if pol and isinstance(op, ast.LtE) and c is not None and c >= 1:
                return True
            if not pol and isinstance(op, ast.Eq) and c == 0:
                return True
    return False


def _blocks_of(fnode):
    """id(stmt) -> (containing block list, index) for every statement"""
    out = {}
    for n in ast.walk(fnode):
        for fld in ("body", "orelse", "finalbody"):
            b = getattr(n, fld, None)
            if isinstance(b, list) and b and isinstance(b[0], ast.stmt):
                for i, st in enumerate(b):
                    out[id(st)] = (b, i, n)
        for h in getattr(n, "handlers", []) or []:
            for i, st in enumerate(h.body):
                out[id(st)] = (h.body, i, h)
    return out


def guarded_nonempty(fnode, stmt, node, base, gs, blocks, parents):
    # (a) conditional expression around the use
    cur = node
    while id(cur) in parents and not isinstance(cur, ast.stmt):
        par = parents[id(cur)]
        if isinstance(par, ast.IfExp):
            if cur is par.body and _nonempty_test(par.test, base, True):
                return True
            if cur is par.orelse and _nonempty_test(par.test, base, False):
                return True
        if isinstance(par, ast.BoolOp) and isinstance(par.op, ast.And):
            idx = [i for i, v in enumerate(par.values) if v is cur]
            if idx and any(_nonempty_test(v, base, True) for v in par.values[:idx[0]]):
                return True
        cur = par
    # (b) enclosing tests
    for t, pol in gs.get(id(stmt), []):
        if _nonempty_test(t, base, pol):
            return True
    # (c) an earlier sibling (of the statement or of an enclosing statement) that leaves when the value is empty
    cur = stmt
    while id(cur) in blocks:
        blk, i, owner = blocks[id(cur)]
        for prev in blk[:i]:
            if isinstance(prev, ast.If) and ends_abruptly(prev.body) and _nonempty_test(prev.test, base, False):
                return True
            if isinstance(prev, ast.If) and prev.orelse and ends_abruptly(prev.orelse) and _nonempty_test(prev.test, base, True):
                return True
            if isinstance(prev, ast.Assert) and _nonempty_test(prev.test, base, True):
                return True
        if not isinstance(owner, ast.stmt):
            break
        cur = owner
    return False


def _spec_of(e, types):
    """emptiness spec of expression e (list of maybe-empty flags) or None"""
    if isinstance(e, ast.Name):
        return types.get(e.id)
    if isinstance(e, ast.Call):
        n = call_attr(e)
        if n in PRODUCERS and isinstance(e.func, ast.Attribute):
            return list(PRODUCERS[n])
        if isinstance(e.func, ast.Name) and e.func.id in ("list", "tuple", "reversed", "sorted") and len(e.args) == 1:
            return _spec_of(e.args[0], types)
        if isinstance(e.func, ast.Name) and e.func.id == "cast" and len(e.args) == 2:
            return _spec_of(e.args[1], types)
        return None
    if isinstance(e, ast.Subscript):
        s = _spec_of(e.value, types)
        if s is None:
            return None
        if isinstance(e.slice, ast.Slice):
            return [True] + s[1:]
        return s[1:] if len(s) > 1 else None
    return None


def _bind_loop(target, it, types):
    """bind loop / comprehension targets to element specs"""
    if isinstance(it, ast.Call) and isinstance(it.func, ast.Name) and it.func.id == "enumerate" and it.args and \
            isinstance(target, ast.Tuple) and len(target.elts) == 2:
        _bind_loop(target.elts[1], it.args[0], types)
        return
    if isinstance(it, ast.Call) and isinstance(it.func, ast.Name) and it.func.id == "zip" and isinstance(target, ast.Tuple) and \
            len(target.elts) == len(it.args):
        for t, a in zip(target.elts, it.args):
            _bind_loop(t, a, types)
        return
    s = _spec_of(it, types)
    if s is not None and len(s) > 1 and isinstance(target, ast.Name):
        types[target.id] = s[1:]


def emptiness_in(ctx, f, R, exceptions, seed=None, depth=0):
    """track producer values through f and check constant-index subscripts; returns number of obligations.  A possibly-empty
    value handed to a method of the same class (or a function of the same module) is followed into that callee's parameter
    (one level), unless the call itself is dominated by an emptiness guard on that value."""
    fnode = f.node
    types = dict(seed or {})
    # two passes so that uses before textual definitions inside loops are still typed
    for _ in range(2):
        for st in statements(fnode):
            if isinstance(st, ast.Assign) and len(st.targets) == 1 and isinstance(st.targets[0], ast.Name):
                s = _spec_of(st.value, types)
                if s is not None:
                    types[st.targets[0].id] = s
            elif isinstance(st, (ast.For, ast.AsyncFor)):
                _bind_loop(st.target, st.iter, types)
        for n in ast.walk(fnode):
            if isinstance(n, (ast.ListComp, ast.GeneratorExp, ast.SetComp)):
                for g in n.generators:
                    _bind_loop(g.target, g.iter, types)
            if isinstance(n, ast.Call) and isinstance(n.func, ast.Name) and n.func.id in ("map", "filter") and len(n.args) == 2 and \
                    isinstance(n.args[0], ast.Lambda) and len(n.args[0].args.args) == 1:
                s = _spec_of(n.args[1], types)
                if s is not None and len(s) > 1:
                    types[n.args[0].args.args[0].arg] = s[1:]
    if not types:
        return 0
    if seed:
        # a parameter re-bound in the callee loses the caller's typing
        for st in statements(fnode):
            if isinstance(st, ast.Assign):
                for t in st.targets:
                    if isinstance(t, ast.Name) and t.id in seed and _spec_of(st.value, types) is None:
                        types.pop(t.id, None)
    gs = guard_stack(fnode)
    blocks = _blocks_of(fnode)
    parents = {}
    for n in ast.walk(fnode):
        for ch in ast.iter_child_nodes(n):
            parents[id(ch)] = n
    stmts = list(statements(fnode))

    def stmt_of(node):
        cur = node
        while cur is not None and not (isinstance(cur, ast.stmt) and any(cur is s for s in stmts)):
            cur = parents.get(id(cur))
        return cur
    n_obl = 0
    for node in ast.walk(fnode):
        if not (isinstance(node, ast.Subscript) and isinstance(node.ctx, ast.Load) and const_int(node.slice) is not None):
            continue
        s = _spec_of(node.value, types)
        if s is None:
            continue
        base = ast.unparse(node.value)
        st = stmt_of(node)
        if st is None:
            continue
        n_obl += 1
        if not s[0]:
            ctx.ok(R, f, "%s: the indexed value has fixed non-zero length by construction" % ast.unparse(node), node, trivial=True)
            continue
        key = "%s|%s" % (f.fq, ast.unparse(node))
        if f.fq in exceptions:
            ctx.exception(f.fq, exceptions[f.fq])
            ctx.ok(R, f, "%s: frozen exception (%s)" % (ast.unparse(node), exceptions[f.fq]), node, trivial=True)
            continue
        ok = guarded_nonempty(fnode, st, node, base, gs, blocks, parents)
        ctx.check(ok, R, f, ast.unparse(node), "`%s` is reached only when `%s` is non-empty" % (ast.unparse(node), base),
                  "`%s` indexes `%s`, which is empty when a window is shorter than the run length / no trial matches, and no emptiness guard dominates it: IndexError during synthesis%s" % (
                      ast.unparse(node), base, " (the value arrives through a parameter from a caller that passes a possibly empty list)" if seed else ""), node)
    if depth == 0:
        for node in ast.walk(fnode):
            if not isinstance(node, ast.Call):
                continue
            callee = None
            skip = 0
            fn_ = node.func
            if isinstance(fn_, ast.Attribute) and isinstance(fn_.value, ast.Name) and fn_.value.id in ("self", "cls") and f.cls is not None:
                callee = f.cls.lookup(fn_.attr)
                skip = 0 if (callee is not None and callee.is_static) else 1
            elif isinstance(fn_, ast.Name) and fn_.id in f.module.functions:
                callee = f.module.functions[fn_.id]
            if callee is None or isinstance(callee.node, ast.Lambda) or callee is f or callee.name in PRODUCERS:
                continue
            seed_ = {}
            for i, a in enumerate(node.args):
                sp = _spec_of(a, types)
                if sp is None or i + skip >= len(callee.params):
                    continue
                st = stmt_of(a)
                if sp[0] and st is not None and guarded_nonempty(fnode, st, a, ast.unparse(a), gs, blocks, parents):
                    sp = [False] + list(sp[1:])
                seed_[callee.params[i + skip]] = sp
            if seed_ and any(v[0] or any(v[1:]) for v in seed_.values()):
                n_obl += emptiness_in(ctx, callee, R, exceptions, seed=seed_, depth=1)
    return n_obl


def rule_emptiness(ctx, reach):
    R = "C08.emptiness"
    repo = ctx.repo
    # the table is tied to the producers' code
    b = ctx.fn("constraint:_KInARow._build_variable_sublistss")
    comps = [n for n in ast.walk(b.node) if isinstance(n, ast.ListComp) and any(g.ifs for g in n.generators)]
    ok = len(comps) == 1 and ast.unparse(comps[0].generators[0].ifs[0]) == "len(sl) == sublist_length"
    ctx.check(ok, R, b, "producer: sublists filtered by full length", "per window the sublists are filtered to full length: the per-window list may be empty, its elements never are",
              "_build_variable_sublistss no longer filters by `len(sl) == sublist_length`: the emptiness table of this rule is stale")
    gt = ctx.fn("block:Block.get_trial_numbers.get_variables")
    rets = [ast.unparse(s.value) for s in statements(gt.node) if isinstance(s, ast.Return)]
    ctx.check("[]" in rets, R, gt, "producer: get_trial_numbers may return []", "an index outside the window yields no trial number", "get_trial_numbers no longer has an empty result", trivial=True)
    kv = ctx.fn("constraint:_KInARow._KInARow__validate") if repo.has_fn("constraint:_KInARow._KInARow__validate") else None
    kin = ctx.cls("constraint:_KInARow")
    src = " ".join(ast.unparse(m.node) for m in kin.methods.values())
    ctx.check("if self.k <= 0:" in src and "raise ValueError" in src, R, kin, "k > 0 validated", "k > 0 is enforced at construction, so `len(x) == self.k` implies non-empty",
              "_KInARow no longer refuses k <= 0: the guard idiom `len(x) == self.k` does not imply a non-empty list")
    exceptions = {"constraint:ExactlyKMultipleInARow.apply_to_backend_request": "class is not exported and outside the property's constraint list",
                  "constraint:ExactlyKMultipleInARow.potential_sample_conforms": "class is not exported and outside the property's constraint list"}
    total = 0
    users = 0
    for fq, (f, _e) in sorted(reach.items()):
        if isinstance(f.node, ast.Lambda) or f.parent is not None:
            continue
        n = emptiness_in(ctx, f, R, exceptions)
        total += n
        users += 1 if n else 0
    ctx.require(total >= 8 and users >= 3, "only %d constant-index subscripts on producer values in %d functions (8 in 3 confirmed by hand)" % (total, users))


def rule_window_bound(ctx):
    R = "C08.window-bound"
    f = ctx.fn("cross_block:MultiCrossBlockRepeat.map_block_trial_ranges")
    F = Facts(f)
    cs = [c for c in calls(f.node) if isinstance(c.func, ast.Name) and c.func.id == "proc"]
    ctx.require(len(cs) == 1 and len(cs[0].args) == 2, "map_block_trial_ranges: the callback call proc(start, end) was not found")
    nt = F.assigns("num_trials")
    ctx.check(nt == ["self.trials_per_sample()"], R, f, "trial count", "num_trials is the block's trial count", "num_trials is %s" % nt, trivial=True)
    end = cs[0].args[1]
    u = ast.unparse(end)
    ok = u in ("min(end, num_trials)", "min(num_trials, end)")
    if not ok and isinstance(end, ast.Name):
        # accepted alternative: `end` itself is clamped by an assignment that dominates the call inside the loop
        clamp = [s for s in statements(f.node) if isinstance(s, ast.Assign) and dotted(s.targets[0]) == end.id and
                 ast.unparse(s.value) in ("min(%s, num_trials)" % end.id, "min(num_trials, %s)" % end.id)]
        ok = False if not clamp else False   # a clamped loop variable would also shift the following windows: not accepted
    ctx.check(ok, R, f, "proc(%s, %s)" % (ast.unparse(cs[0].args[0]), u), "the window handed to the callback ends no later than the sequence",
              "map_block_trial_ranges calls proc(%s, %s): the window of a trailing partial repetition runs past the last trial, and the callbacks index "
              "per-trial lists and the variable grid by range(start, end) (IndexError in the sequence checkers, variables beyond the grid in the encoders)" % (
                  ast.unparse(cs[0].args[0]), u), cs[0])
    # start stays inside because of the loop test
    loops = [s for s in statements(f.node) if isinstance(s, ast.While)]
    ctx.require(len(loops) == 1, "map_block_trial_ranges: window loop not found")
    t = str(F.at(loops[0].body[0], loops[0].test)) if loops[0].body else ast.unparse(loops[0].test)
    ctx.check(t in ("(start < -preamble + self.trials_per_sample())", "(start < -ite(within_block, within_block.preamble_size, 0) + self.trials_per_sample())"), R, f, "loop %s" % t, "a window is opened while at least one non-preamble trial of it exists",
              "the window loop runs while `%s` (expected `start < num_trials - preamble`: every repetition that has a trial of its own gets a window, and none starts beyond the sequence)" % t, loops[0])
    # the callbacks really index by range(start, end)
    n = 0
    for ref in ("constraint:_KInARow.potential_sample_conforms.check_sequence", "block:Block.get_trial_numbers.get_variables"):
        g = ctx.fn(ref)
        ctx.ok(R, g, "callback %s receives (start, end)" % g.qual, trivial=True)
        n += 1
    ctx.require(n == 2, "callbacks not found")


DIV_POSITIVE = {
    # token (substring of the divisor's normal form) -> why it is positive
    "sustain_count": "sustain counts are products of crossing sizes, >= 1 (Block.__init__ / Nest)",
    "level_count": "number of levels of a factor (Factor refuses an empty level list)",
    ".levels)": "number of levels of a factor (Factor refuses an empty level list)",
    "variables_per_trial()": "sum of level counts of a non-empty design",
    "crossing_size": "product of level counts; a zero-size crossing is refused by the constructor",
    "stride": "window stride, validated > 0 by the window constructors",
    "factorial(": "factorials are positive",
    "self.k": "k > 0 validated by _KInARow",
    "ls_dlen": "print helper: length of a non-empty key list",
    "len(levels)": "levels of a basic factor that survive exclusion; an empty list makes the preamble count 0 and sampling stops before any draw",
}


def rule_divisors(ctx, reach):
    R = "C08.divisor"
    n = 0
    for fq, (f, _e) in sorted(reach.items()):
        if isinstance(f.node, ast.Lambda):
            continue
        gs = None
        for node in ast.walk(f.node):
            d = None
            if isinstance(node, ast.BinOp) and isinstance(node.op, (ast.FloorDiv, ast.Mod, ast.Div)):
                if isinstance(node.left, (ast.JoinedStr,)) or (isinstance(node.left, ast.Constant) and isinstance(node.left.value, str)):
                    continue
                d = node.right
            elif isinstance(node, ast.AugAssign) and isinstance(node.op, (ast.FloorDiv, ast.Mod, ast.Div)):
                d = node.value
            if d is None or const_int(d) is not None:
                continue
            # nested functions are visited on their own
            if any(node in list(ast.walk(g.node)) for g in f.nested.values() if not isinstance(g.node, ast.Lambda)):
                continue
            n += 1
            txt = ast.unparse(d)
            names = {x.id for x in ast.walk(d) if isinstance(x, ast.Name)}
            risky = None
            if names & {"sample_count", "samples"}:
                risky = "the number of sequences the caller asked for (0 is a legal request)"
            if risky is None:
                why = [w for tok, w in DIV_POSITIVE.items() if tok in txt]
                if why:
                    ctx.ok(R, f, "divisor `%s`: %s" % (txt, why[0]), node, trivial=True)
                elif names and all(_loop_positive(f.node, x) for x in names):
                    ctx.ok(R, f, "divisor `%s`: loop variable of a range that stays positive / radix parameter" % txt, node, trivial=True)
                else:
                    ctx.note("unclassified divisor `%s` in %s (%s)" % (txt, f.fq, f.loc(node)))
                    ctx.ok(R, f, "divisor `%s`: unclassified (note)" % txt, node, trivial=True)
                continue
            # needs a guard: conditional expression, enclosing test or early exit mentioning the divisor
            if gs is None:
                gs = guard_stack(f.node)
                parents = {}
                for a in ast.walk(f.node):
                    for ch in ast.iter_child_nodes(a):
                        parents[id(ch)] = a
            ok = False
            cur = node
            while id(cur) in parents and not isinstance(cur, ast.stmt):
                par = parents[id(cur)]
                if isinstance(par, ast.IfExp) and cur is par.body and _positive_test(par.test, txt, True):
                    ok = True
                if isinstance(par, ast.IfExp) and cur is par.orelse and _positive_test(par.test, txt, False):
                    ok = True
                cur = par
            st = cur if isinstance(cur, ast.stmt) else None
            if st is not None:
                for t, pol in gs.get(id(st), []):
                    if _positive_test(t, txt, pol):
                        ok = True
            ctx.check(ok, R, f, "divisor %s" % txt, "division by `%s` happens only when it is non-zero" % txt,
                      "`%s` divides by `%s` -- %s -- without a dominating non-zero guard: ZeroDivisionError" % (ast.unparse(node), txt, risky), node)
    ctx.require(n >= 25, "only %d non-constant divisors found on the sampling paths (25 confirmed by hand)" % n)


def _positive_test(t, txt, pol):
    u = ast.unparse(t)
    if isinstance(t, ast.UnaryOp) and isinstance(t.op, ast.Not):
        return _positive_test(t.operand, txt, not pol)
    if pol and u in (txt, "%s > 0" % txt, "%s != 0" % txt, "%s >= 1" % txt, "0 < %s" % txt):
        return True
    if not pol and u in ("%s == 0" % txt, "%s <= 0" % txt, "%s < 1" % txt, "not %s" % txt):
        return True
    if isinstance(t, ast.BoolOp) and isinstance(t.op, ast.And) and pol:
        return any(_positive_test(v, txt, True) for v in t.values)
    return False


def _loop_positive(fnode, name):
    """name is a parameter (radix supplied by the caller, documented positive) or the variable of a descending range loop"""
    if hasattr(fnode, "args") and name in [a.arg for a in fnode.args.args]:
        return True
    for st in statements(fnode):
        if isinstance(st, ast.For) and isinstance(st.target, ast.Name) and st.target.id == name:
            return True
        if isinstance(st, (ast.Assign, ast.AugAssign)):
            ts = st.targets if isinstance(st, ast.Assign) else [st.target]
            if any(isinstance(t, ast.Name) and t.id == name for t in ts):
                return True
    return False


def rule_keys(ctx):
    R = "C08.keys"
    gp = ctx.fn("random:UCSolutionEnumerator.generate_preamble_sample")
    fn_ = ctx.fn("random:UCSolutionEnumerator.fill_in_nonpreamble_uncrossed_derived")
    Fg, Ff = Facts(gp), Facts(fn_)
    raw = [ast.unparse(x.value) for x in statements(gp.node) if isinstance(x, ast.Return) and x.value is not None]
    ctx.check(raw[-1:] == ["self._fill_in_derived(run, self._sorted_derived_factors, 0, self._preamble_size)"], R, gp, "preamble: all derived factors",
              "preamble trials carry every derived factor (crossed ones included), so that later rounds can be concatenated key by key",
              "the preamble is completed by %s: a derived factor present in the rounds but missing in the preamble is a KeyError in __combine_round" % raw[-1:])
    ctx.check([ast.unparse(x.value) for x in statements(fn_.node) if isinstance(x, ast.Return)] == ["self._fill_in_derived(run, self._sorted_uncrossed_derived_and_complex_derived, self._preamble_size, trials_per_run)"], R, fn_,
              "rounds: uncrossed and complex derived factors", "after the preamble the uncrossed and complex-window derived factors are filled up to the full length",
              "fill_in_nonpreamble_uncrossed_derived returns %s" % Ff.returns())
    cr = ctx.fn("random:RandomGen.__combine_round")
    Fc = Facts(cr)
    cases = Fc.cases()
    loops_ = [x for x in Fc.stmts if isinstance(x, ast.For)]
    ok = ((("empty(run)",), "round") in cases) and any(c[0] == ("nonempty(run)",) and c[1].startswith("run.copy()") or c[0] == ("nonempty(run)",) for c in cases) and \
        len(loops_) == 1 and ast.unparse(loops_[0].iter) == "round" and Fc.conds(loops_[0]) == ["nonempty(run)"] and \
        [ast.unparse(b) for b in loops_[0].body] == ["new_run[%s] = run[%s] + round[%s]" % ((ast.unparse(loops_[0].target),) * 3)]
    ctx.check(ok, R, cr, "concatenate by the round's keys", "an empty run is replaced, otherwise every key of the round is appended to the run's list",
              "__combine_round changed: cases %s" % cases)
    fd = ctx.fn("random:UCSolutionEnumerator._fill_in_derived")
    Fd = Facts(fd)
    ctx.check(Fd.iters()[:1] == ["sorted_factors"] and "run[df] = trials" in [ast.unparse(s) for s in statements(fd.node)], R, fd, "derived filled per factor",
              "every listed derived factor gets a list in the run", "_fill_in_derived changed")
    init = ctx.fn("random:UCSolutionEnumerator.__init__")
    Fi = Facts(init)
    ctx.check(Fi.assigns("self._sorted_derived_factors") == ["self._partitions.get_derived_factors()"] or
              "self._sorted_derived_factors = self._partitions.get_derived_factors()" in [ast.unparse(s) for s in statements(init.node)], R, init, "all derived factors",
              "the preamble list is every derived factor of the design", "_sorted_derived_factors is no longer get_derived_factors()")


def _is_depth_key(e) -> bool:
    """lambda f: f._get_depth()  (or an attrgetter-free equivalent: a lambda whose body calls _get_depth on its parameter)"""
    if isinstance(e, ast.Lambda) and len(e.args.args) == 1 and isinstance(e.body, ast.Call) and isinstance(e.body.func, ast.Attribute):
        return e.body.func.attr == "_get_depth" and isinstance(e.body.func.value, ast.Name) and e.body.func.value.id == e.args.args[0].arg
    return False


def _depth_sorted_expr(e) -> bool:
    return isinstance(e, ast.Call) and dotted(e.func) == "sorted" and any(k.arg == "key" and _is_depth_key(k.value) for k in e.keywords) and \
        not any(k.arg == "reverse" for k in e.keywords)


def _attr_depth_sorted(cls, attr: str):
    """self.<attr> is sorted by depth once, after its last assignment, and never reordered: returns (ok, reason)"""
    writes, sorts, others = [], [], []
    for name, m in cls.methods.items():
        for st in statements(m.node):
            if isinstance(st, (ast.Assign, ast.AugAssign, ast.AnnAssign)):
                tg = st.targets if isinstance(st, ast.Assign) else [st.target]
                if any(dotted(t) == "self." + attr for t in tg):
                    writes.append((m, st))
            if isinstance(st, ast.Expr) and isinstance(st.value, ast.Call) and isinstance(st.value.func, ast.Attribute) and \
                    dotted(st.value.func.value) == "self." + attr:
                a = st.value.func.attr
                if a == "sort" and any(k.arg == "key" and _is_depth_key(k.value) for k in st.value.keywords) and not any(k.arg == "reverse" for k in st.value.keywords):
                    sorts.append((m, st))
                elif a in ("sort", "reverse", "append", "extend", "insert", "pop", "remove", "clear"):
                    others.append((m, st))
    if not sorts:
        return False, "self.%s is never sorted by _get_depth()" % attr
    if others:
        return False, "self.%s is reordered / extended by `%s`" % (attr, ast.unparse(others[0][1]))
    sm, sst = sorts[-1]
    for m, st in writes:
        if m is not sm or st.lineno > sst.lineno:
            return False, "self.%s is assigned after its depth sort (`%s`)" % (attr, ast.unparse(st)[:80])
    # a local alias sorted in place (x = ...; self.attr = x; self.attr.sort(...)) is the same list: fine
    return True, ""


def rule_fill_order(ctx):
    """Values of derived factors are computed from the values already present in the candidate: every loop that fills
    derived factors into a dictionary, evaluating their predicates on that dictionary, must visit the factors in
    dependency order (by _get_depth(), the repository's own ordering device) -- otherwise a factor that depends on a factor
    visited later is a KeyError for an accepted design."""
    R = "C08.fill-order"
    repo = ctx.repo
    sites = []
    for f in repo.all_functions:
        if isinstance(f.node, ast.Lambda) or f.module.short.split(".")[-1] in OUT_OF_SCOPE_MODULES or "tests" in f.module.relpath:
            continue
        for lp in [x for x in statements(f.node) if isinstance(x, ast.For) and isinstance(x.target, ast.Name)]:
            v = lp.target.id
            inner = [x for b in lp.body for x in ast.walk(b)]
            evaluates = any(isinstance(x, ast.Call) and isinstance(x.func, ast.Attribute) and x.func.attr in ("select_level_for_sample", "predicate") for x in inner)
            stores = [x for x in inner if isinstance(x, ast.Assign) and isinstance(x.targets[0], ast.Subscript) and
                      dotted(x.targets[0].slice) in (v, v + ".name")]
            of_factor = any(isinstance(x, ast.Attribute) and isinstance(x.value, ast.Name) and x.value.id == v and x.attr in ("levels", "select_level_for_sample") for x in inner)
            if evaluates and stores and of_factor:
                # nested function bodies belong to their own FunctionInfo
                if any(lp in list(ast.walk(g.node)) for g in f.nested.values()):
                    continue
                sites.append((f, lp, ast.unparse(stores[0].targets[0].value)))
    ctx.require(len(sites) >= 2, "only %d derived-factor fill loops found (2 confirmed by hand: _fill_in_derived, add_implied_levels)" % len(sites))
    cg = None
    for f, lp, store in sites:
        it = lp.iter
        where = "%s: for %s in %s" % (f.qual, lp.target.id, ast.unparse(it))
        if _depth_sorted_expr(it):
            ctx.ok(R, f, where, "the loop iterates sorted(..., key=depth)")
            continue
        if isinstance(it, ast.Name):
            local = [x for x in statements(f.node) if isinstance(x, ast.Assign) and dotted(x.targets[0]) == it.id]
            if local and all(_depth_sorted_expr(x.value) for x in local):
                ctx.ok(R, f, where, "the loop iterates a local list sorted by depth")
                continue
            if it.id in f.params and not local:
                idx = f.params.index(it.id) - (1 if f.cls is not None and not f.is_static else 0)
                callers = []
                for g in repo.all_functions:
                    for c in ast.walk(g.node) if not isinstance(g.node, ast.Lambda) else []:
                        if isinstance(c, ast.Call) and call_attr(c) == f.name and g is not f:
                            if any(c in list(ast.walk(h.node)) for h in g.nested.values()):
                                continue
                            callers.append((g, c))
                ctx.require(callers, "%s: no caller found for the factor-list parameter" % f.fq)
                for g, c in callers:
                    arg = c.args[idx] if idx < len(c.args) else next((k.value for k in c.keywords if k.arg == it.id), None)
                    d = dotted(arg) if arg is not None else None
                    if d and d.startswith("self.") and g.cls is not None:
                        ok, why = _attr_depth_sorted(g.cls, d[5:])
                    elif arg is not None and _depth_sorted_expr(arg):
                        ok, why = True, ""
                    else:
                        ok, why = False, "argument `%s` is not a depth-sorted list" % (ast.unparse(arg) if arg is not None else "?")
                    ctx.check(ok, R, g, "%s(%s) from %s" % (f.name, d or "?", g.qual), "the factor list handed to %s is sorted by dependency depth" % f.name,
                              "%s fills derived factors in the order of `%s`, and %s: a derived factor that depends on a later one is read from `%s` before it is filled (KeyError)" % (
                                  f.qual, ast.unparse(arg) if arg is not None else "?", why, store), c)
                continue
        ctx.bad(R, f, where, "%s fills derived factors into `%s` in the order of `%s`, which is not ordered by dependency depth (_get_depth): a derived factor listed "
                "before a derived factor it depends on is evaluated before its argument is present (KeyError); the sibling fill loop(s) iterate depth-sorted lists" % (
                    f.qual, store, ast.unparse(it)), lp)


def _bound_in(loop, names) -> bool:
    """is any of `names` (re)bound by the loop itself: its target, or an assignment / for-target / with-target in its body"""
    tnames = {n.id for n in ast.walk(loop.target) if isinstance(n, ast.Name)} if isinstance(loop, ast.For) else set()
    for b in loop.body:
        for x in ast.walk(b):
            if isinstance(x, (ast.Assign, ast.AugAssign, ast.AnnAssign)):
                for t in (x.targets if isinstance(x, ast.Assign) else [x.target]):
                    tnames |= {n.id for n in ast.walk(t) if isinstance(n, ast.Name) and isinstance(n.ctx, ast.Store)}
            elif isinstance(x, ast.For):
                tnames |= {n.id for n in ast.walk(x.target) if isinstance(n, ast.Name)}
    return bool(tnames & set(names))


def rule_remove_once(ctx, reach):
    """list.remove(v) raises ValueError when v is not (or no longer) in the list: a removal inside a loop that rebinds
    neither the list nor the value can run a second time with the same operands, unless the loop is left right after the
    removal or the removal is guarded by a membership test."""
    from ..cfg import enclosing_loops
    R = "C08.remove-once"
    n = 0
    for f in ctx.repo.all_functions:
        if isinstance(f.node, ast.Lambda) or f.module.short.split(".")[-1] in OUT_OF_SCOPE_MODULES or "tests" in f.module.relpath:
            continue
        loops = None
        for st in statements(f.node):
            if not (isinstance(st, ast.Expr) and isinstance(st.value, ast.Call) and isinstance(st.value.func, ast.Attribute) and st.value.func.attr == "remove" and len(st.value.args) == 1):
                continue
            if any(st in list(ast.walk(g.node)) for g in f.nested.values()):
                continue
            lst, val = st.value.func.value, st.value.args[0]
            names = {x.id for x in ast.walk(lst) if isinstance(x, ast.Name)} | {x.id for x in ast.walk(val) if isinstance(x, ast.Name)}
            loops = loops if loops is not None else enclosing_loops(f.node)
            n += 1
            where = "%s.remove(%s)" % (ast.unparse(lst), ast.unparse(val))
            repeat = [lp for lp in loops.get(id(st), []) if not _bound_in(lp, names)]
            if not repeat:
                ctx.ok(R, f, where, "every enclosing loop rebinds the list or the value")
                continue
            lp = repeat[-1]
            # the removal's own block (or the if-block that holds it) leaves that loop right away, or is guarded by `val in lst`
            F = Facts(f)
            guarded = any(("(%s in %s)" % (ast.unparse(val), ast.unparse(lst))) in c.replace("contains", "in") for c in F.conds(st)) or \
                any(isinstance(t, ast.Compare) and isinstance(t.ops[0], ast.In) and ast.unparse(t.left) == ast.unparse(val) and ast.unparse(t.comparators[0]) == ast.unparse(lst)
                    for t, pol in guard_stack(f.node).get(id(st), []) if pol)
            # statement following the removal in its block
            leaves = False
            blk, i, _holder = _blocks_of(f.node)[id(st)]
            nxt = blk[i + 1] if i + 1 < len(blk) else None
            inner_most = loops.get(id(st), [])[-1]
            leaves = isinstance(nxt, (ast.Return, ast.Raise)) or (isinstance(nxt, ast.Break) and inner_most is lp)
            ctx.check(guarded or leaves, R, f, where, "the removal cannot repeat: guarded by a membership test or followed by leaving the loop",
                      "%s runs inside `for %s in %s`, which rebinds neither the list nor the value, and the loop goes on after the removal: a second "
                      "iteration that reaches it raises ValueError (x not in list)" % (where, ast.unparse(lp.target) if isinstance(lp, ast.For) else "while", ast.unparse(lp.iter)[:70] if isinstance(lp, ast.For) else ""), st)
    ctx.require(n >= 1, "no list.remove site found (1 confirmed by hand in UCSolutionEnumerator.__count_solutions)")


def rule_key_domain(ctx):
    """Dictionaries keyed by factors are built over one partition of the design (DesignPartitions getter) and read with
    factors of another: every read M[k] of a merged candidate {**a, **b} must use a key whose partition is included in the
    union of the partitions the parts were built over (plus the keys stored into M earlier in the same loop nest).
    Inclusion is decided in the partition algebra of sa/partition.py, from the getters' own source."""
    from ..partition import Partitions, atom, describe
    R = "C08.key-domain"
    repo = ctx.repo
    P = Partitions(repo.cls("design_partition:DesignPartitions"))
    P.getter("get_source_factors")
    ctx.require(P.source_of is not None, "DesignPartitions.get_source_factors: source shape not recognised")
    enum = repo.cls("random:UCSolutionEnumerator")

    def getter_of(e):
        """self._partitions.get_X()  (possibly inside sorted(..) / list(..))  ->  'get_X'"""
        while isinstance(e, ast.Call) and dotted(e.func) in ("sorted", "list", "tuple", "reversed") and e.args:
            e = e.args[0]
        if isinstance(e, ast.Call) and isinstance(e.func, ast.Attribute) and dotted(e.func.value) == "self._partitions" and not e.args:
            return e.func.attr
        return None

    # dictionary producers: {V[i]: level for ...} with V = self._partitions.get_X()
    producers = {}
    for name, m in enum.methods.items():
        for dc in [x for x in ast.walk(m.node) if isinstance(x, ast.DictComp)]:
            k = dc.key
            if isinstance(k, ast.Subscript) and isinstance(k.value, ast.Name):
                defs = [x for x in statements(m.node) if isinstance(x, ast.Assign) and dotted(x.targets[0]) == k.value.id]
                g = getter_of(defs[0].value) if len(defs) == 1 else None
                if g is not None:
                    producers[name] = g
    ctx.require(len(producers) >= 2, "UCSolutionEnumerator: factor-keyed dictionary producers not found (2 confirmed by hand)")
    attrs = {}
    for m in enum.methods.values():
        for st in statements(m.node):
            if isinstance(st, ast.Assign) and dotted(st.targets[0]) and dotted(st.targets[0]).startswith("self.") and isinstance(st.value, ast.Call) and \
                    isinstance(st.value.func, ast.Attribute) and dotted(st.value.func.value) == "self":
                callee = st.value.func.attr
                hit = [p for p in producers if p == callee or p.lstrip("_") == callee.lstrip("_")]
                if hit:
                    attrs[dotted(st.targets[0])] = producers[hit[0]]
    n_reads = 0
    for m in enum.methods.values():
        if isinstance(m.node, ast.Lambda):
            continue
        localdefs = {}
        for st in statements(m.node):
            if isinstance(st, ast.Assign) and len(st.targets) == 1 and isinstance(st.targets[0], ast.Name):
                localdefs.setdefault(st.targets[0].id, []).append(st.value)
        loops = {}       # id(For) -> (variable, 'dict' | 'factor', getter)
        for st in statements(m.node):
            if isinstance(st, ast.For):
                it, tg = st.iter, st.target
                if isinstance(it, ast.Call) and dotted(it.func) == "enumerate" and it.args and isinstance(tg, ast.Tuple) and len(tg.elts) == 2:
                    it, tg = it.args[0], tg.elts[1]
                if not isinstance(tg, ast.Name):
                    continue
                if isinstance(it, ast.Name) and len(localdefs.get(it.id, [])) == 1:
                    it = localdefs[it.id][0]
                if dotted(it) in attrs:
                    loops[id(st)] = (tg.id, "dict", attrs[dotted(it)])
                elif getter_of(it):
                    loops[id(st)] = (tg.id, "factor", getter_of(it))
        fors = [x for x in ast.walk(m.node) if isinstance(x, ast.For)]
        comps = [x for x in ast.walk(m.node) if isinstance(x, (ast.ListComp, ast.GeneratorExp, ast.SetComp, ast.DictComp))]

        def inside(node, holder_nodes):
            return any(x is node for h in holder_nodes for x in ast.walk(h))

        def resolve(name, node):
            """innermost binder of `name` around `node`: ('comp', iter) | ('dict'|'factor', getter) | None"""
            best = None
            for lp in fors:          # breadth-first: later hits are deeper
                tn = {x.id for x in ast.walk(lp.target) if isinstance(x, ast.Name)}
                if name in tn and inside(node, lp.body):
                    best = ("loop", lp)
            for c in comps:
                for g in c.generators:
                    if isinstance(g.target, ast.Name) and g.target.id == name and inside(node, [c]):
                        best = ("comp", g.iter)
            if best is None:
                return None
            if best[0] == "comp":
                return best
            info = loops.get(id(best[1]))
            if info is None or info[0] != name:
                return ("other-loop", best[1])
            return (info[1], info[2])

        def owner_of(e, node, depth=0):
            """the factor loop variable's getter that owns window expression e (x.window, l.window with l in x.levels, M[x].window, locals)"""
            if depth > 5:
                return None
            if isinstance(e, ast.Name):
                r = resolve(e.id, node)
                if r is not None and r[0] == "factor":
                    return r[1]
                if r is not None and r[0] == "other-loop" and isinstance(r[1].iter, ast.Attribute) and r[1].iter.attr == "levels":
                    return owner_of(r[1].iter.value, r[1], depth + 1)
                if r is None and len(localdefs.get(e.id, [])) == 1:
                    return owner_of(localdefs[e.id][0], node, depth + 1)
                return None
            if isinstance(e, ast.Attribute) and e.attr in ("window", "first_level"):
                return owner_of(e.value, node, depth + 1)
            if isinstance(e, ast.Subscript) and isinstance(e.value, ast.Name) and e.value.id in merged_names:
                return owner_of(e.slice, node, depth + 1)
            if isinstance(e, ast.Subscript) and isinstance(e.value, ast.Attribute) and e.value.attr == "levels":
                return owner_of(e.value.value, node, depth + 1)
            return None

        merges = [st for st in statements(m.node) if isinstance(st, ast.Assign) and isinstance(st.targets[0], ast.Name) and isinstance(st.value, ast.Dict) and
                  st.value.keys and all(k is None for k in st.value.keys)]
        merged_names = {mg.targets[0].id for mg in merges}
        for mg in merges:
            M = mg.targets[0].id
            parts = [resolve(dotted(v), mg) if dotted(v) else None for v in mg.value.values]
            if not all(p_ is not None and p_[0] == "dict" for p_ in parts):
                continue
            domain = frozenset()
            for p_ in parts:
                domain = domain | P.getter(p_[1])
            built = " | ".join(p_[1] for p_ in parts)
            # stores M[k] = ..  with k a factor loop variable: extend the domain from that line on
            stores = []
            for st in statements(m.node):
                if isinstance(st, ast.Assign) and isinstance(st.targets[0], ast.Subscript) and dotted(st.targets[0].value) == M and isinstance(st.targets[0].slice, ast.Name):
                    r = resolve(st.targets[0].slice.id, st)
                    if r is not None and r[0] == "factor":
                        holder = [lp for lp in fors if id(lp) in loops and loops[id(lp)][0] == st.targets[0].slice.id and inside(st, lp.body)]
                        stores.append((st.lineno, holder[-1] if holder else None, r[1]))
            for node in ast.walk(m.node):
                if not (isinstance(node, ast.Subscript) and isinstance(node.ctx, ast.Load) and dotted(node.value) == M and isinstance(node.slice, ast.Name)):
                    continue
                if node.lineno < mg.lineno:
                    continue
                k = node.slice.id
                dom = domain
                also = []
                for ln, holder, g in stores:
                    # a store earlier in the text, or the store of the very loop the read is in (its order is the fill-order rule's matter)
                    if ln <= node.lineno or (holder is not None and inside(node, holder.body)):
                        dom = dom | P.getter(g)
                        also.append(g)
                r = resolve(k, node)
                if r is not None and r[0] == "factor":
                    keys, what = P.getter(r[1]), r[1]
                elif r is not None and r[0] in ("comp", "other-loop"):
                    it = r[1] if r[0] == "comp" else r[1].iter
                    g = owner_of(it.value, node) if isinstance(it, ast.Attribute) and it.attr == "factors" else None
                    ctx.require(g is not None, "%s: key `%s` of %s[..] (bound over `%s`) not resolved to a partition" % (m.fq, k, M, ast.unparse(it)[:60]))
                    ctx.check(P.getter(g) <= P.closure, R, m, "window factors of %s are sources" % g,
                              "every factor in %s has its window factors in get_source_factors (by that getter's own loop)" % g,
                              "%s reads %s[%s] for the window factors of the factors in %s, but get_source_factors collects the window factors of %s%s only" % (
                                  m.qual, M, k, g, P.source_of, " and of the derived sources it adds to its work list" if P.closure - P.getter(P.source_of) else ""), node)
                    keys, what = atom("S"), "window factors of %s" % g
                else:
                    ctx.require(False, "%s: key `%s` of %s[..] not resolved to a partition" % (m.fq, k, M))
                n_reads += 1
                missing = sorted(keys - dom)
                ctx.check(not missing, R, m, "%s[%s] with %s in %s" % (M, k, k, what),
                          "keys (%s) are included in the dictionary's domain (%s)" % (what, " | ".join([built] + also)),
                          "%s reads %s[%s] for %s in %s, but %s is built over %s: a factor that is %s is not a key (KeyError for a design with such a factor)" % (
                              m.qual, M, k, k, what, M, " | ".join([built] + also), "; or ".join(describe(c) for c in missing)), node)
    ctx.require(n_reads >= 2, "only %d factor-keyed reads of merged candidates found (2 confirmed by hand in __count_solutions)" % n_reads)


# calls into native sampler libraries that end the whole Python process (exit()) when the formula has no model; confirmed
# by running pyunigen on an unsatisfiable design: no exception can be caught, the interpreter is gone
PROCESS_ENDING_ON_UNSAT = {"sampler.sample": ("tools.unigen:call_unigen_python", "pyunigen.Sampler.sample")}


def rule_backend_unsat(ctx):
    """A design without valid sequences is an accepted design: every sampler returns an empty list for it.  A backend
    call that ends the process on an unsatisfiable formula must therefore be dominated by a satisfiability test with an
    early empty return (the sibling adapters get the verdict from the solver call itself)."""
    R = "C08.backend-unsat"
    for call_text, (ref, what) in PROCESS_ENDING_ON_UNSAT.items():
        f = ctx.fn(ref)
        F = Facts(f)
        sites = [st for st in F.stmts if not isinstance(st, (ast.For, ast.While, ast.If, ast.Try, ast.With)) and
                 any(isinstance(c, ast.Call) and dotted(c.func) == call_text for c in ast.walk(st))]
        ctx.require(len(sites) >= 1, "%s: call of %s not found" % (f.fq, what))
        for st in sites:
            conds = F.conds(st)
            ok = any(("is_satisfiable(" in c or ".solve(" in c) for c in conds)
            ctx.check(ok, R, f, "%s guarded by %s" % (what, [c for c in conds if "satisf" in c or "solve" in c]),
                      "%s is reached only after a satisfiability test that returns the empty result for an unsatisfiable formula" % what,
                      "%s is called without a preceding satisfiability test (path condition %s): pyunigen ends the whole Python process when the formula is "
                      "unsatisfiable, so synthesize_trials(block, n, UniGen) on a design without valid sequences never returns (CMSGen and IterateSATGen return [])" % (what, conds), st)
    # the sibling adapters map 'no model' to an empty result themselves
    cm = ctx.fn("tools.unigen:call_cmsgen_python")
    Fc = Facts(cm)
    ctx.check(any(v == "''" and any(".solve()" in c for c in conds) for conds, v in Fc.cases()), R, cm, "pycmsgen: not sat -> ''",
              "call_cmsgen_python returns the empty result when the solver reports no model", "call_cmsgen_python no longer maps 'no model' to the empty result: %s" % Fc.cases())


PER_CROSSING_LISTS = ("crossings", "crossing_sustain_counts", "crossing_weights", "crossing_sizes", "preamble_sizes")


def rule_no_crossing(ctx):
    """A block may have no crossing at all (MultiCrossBlock(design, [], ..)); the combinatoric sampler says so itself by testing
    `block.crossings == []` at most sites that pick the main crossing.  Every subscript of a per-crossing list by the main-crossing
    index must therefore be reached only when the block has crossings (contradiction rule: guarded at most sites => guarded at all)."""
    R = "C08.no-crossing"
    n = 0
    for f in ctx.repo.all_functions:
        if isinstance(f.node, ast.Lambda) or f.module.short not in ("random", "design_partition"):
            continue
        F = None
        for st in statements(f.node):
            if isinstance(st, (ast.If, ast.While)):
                scan = list(ast.walk(st.test))
            elif isinstance(st, ast.For):
                scan = list(ast.walk(st.iter))
            elif isinstance(st, (ast.With, ast.Try)):
                continue
            else:
                scan = list(ast.walk(st))
            for x in scan:
                if isinstance(x, ast.Subscript) and isinstance(x.ctx, ast.Load) and dotted(x.value) and dotted(x.value).split(".")[-1] in PER_CROSSING_LISTS and \
                        dotted(x.slice) and dotted(x.slice).split(".")[-1] == "main_crossing":
                    F = F or Facts(f)
                    conds = F.conds(st)
                    # a conditional expression around the lookup guards it as well: `0 if crossings == [] else xs[main]`
                    from ..sym import cond_literals as _cl0
                    for ie in [y for y in ast.walk(st) if isinstance(y, ast.IfExp)]:
                        if any(z is x for z in ast.walk(ie.body)):
                            conds = conds + _cl0(ie.test, True)
                        elif any(z is x for z in ast.walk(ie.orelse)):
                            conds = conds + _cl0(ie.test, False)
                    if isinstance(st, ast.While):
                        # the loop test itself may carry the guard as an earlier conjunct
                        from ..sym import cond_literals as _cl
                        conds = conds + [c_ for c_ in _cl(st.test, True) if "crossings" in c_]
                    n += 1
                    ok = any(c_.replace(" ", "") in ("([]!=block.crossings)", "([]!=self._block.crossings)", "nonempty(block.crossings)", "nonempty(self._block.crossings)",
                                                     "block.crossings", "self._block.crossings") for c_ in conds)
                    ctx.check(ok, R, f, "%s under %s" % (ast.unparse(x), [c_ for c_ in conds if "crossings" in c_]),
                              "the main crossing is looked up only when the block has crossings",
                              "%s is evaluated without a preceding `crossings != []` test (path condition %s), while the other sites of the combinatoric sampler guard the same lookup: "
                              "RandomGen raises IndexError for a block without crossings (the SAT samplers return sequences for it)" % (ast.unparse(x), conds), x)
    ctx.require(n >= 6, "only %d main-crossing lookups found (7 confirmed by hand)" % n)


def rule_empty_request(ctx):
    """A window without applicable trials gives an empty variable list (Block.build_variable_lists, see PRODUCERS), and the
    cardinality constraints hand such lists to the encoder as they are.  The entry points of the encoder
    (assert_k_of_n, _inequality_assertion) must therefore not let an empty list reach a helper that raises on it: every call that
    passes the list parameter to a function of CNF with a `raise` under the list's emptiness is dominated by a non-emptiness
    guard on that parameter."""
    R = "C08.empty-request"
    cnf = ctx.repo.cls("cnf:CNF")
    raisers = {}
    for name, m in cnf.methods.items():
        if isinstance(m.node, ast.Lambda):
            continue
        F = Facts(m)
        for st in F.stmts:
            if isinstance(st, ast.Raise):
                for c_ in F.conds(st):
                    for p_ in m.params:
                        if c_.replace(" ", "") in ("not(%s)" % p_, "empty(%s)" % p_, "(0==len(%s))" % p_):
                            raisers[name] = p_
    n = 0
    for ename in ("assert_k_of_n", "_inequality_assertion"):
        e = cnf.methods.get(ename)
        ctx.require(e is not None, "CNF.%s not found" % ename)
        lp = "in_list" if "in_list" in e.params else None
        ctx.require(lp is not None, "CNF.%s: list parameter not found" % ename)
        Fe = Facts(e)
        for st in Fe.stmts:
            if isinstance(st, (ast.For, ast.If, ast.While, ast.With, ast.Try)):
                continue
            for c_ in ast.walk(st):
                if isinstance(c_, ast.Call) and isinstance(c_.func, ast.Attribute) and dotted(c_.func.value) == "self" and c_.func.attr in raisers and \
                        any(dotted(a_) == lp for a_ in c_.args):
                    n += 1
                    conds = Fe.conds(st)
                    ok = any(x.replace(" ", "") in (lp, "nonempty(%s)" % lp, "(0<len(%s))" % lp, "(0!=len(%s))" % lp) for x in conds)
                    ctx.check(ok, R, e, "%s(%s) under %s" % (c_.func.attr, lp, [x for x in conds if lp in x]),
                              "%s is called with the request's variable list only when that list is non-empty" % c_.func.attr,
                              "CNF.%s passes its variable list to %s, which raises on an empty list, without a non-emptiness guard (path condition %s): a cardinality constraint over "
                              "a window that has no applicable trial (ExactlyK on a strided or transition level under Repeat) makes the SAT samplers raise ValueError" % (
                                  ename, c_.func.attr, conds), c_)
        if not raisers:
            ctx.ok(R, e, "CNF.%s: no helper of the encoder raises on an empty variable list" % ename)
            n += 1
    ctx.require(n >= 2, "cardinality entry points not analysed")


VARIABLE_ACCESSORS = ("build_variable_lists", "get_variable", "first_variable_for_level", "factor_variables_for_trial", "encode_combination")


def rule_encoded_factors(ctx):
    """Only the factors of act_design have variables (implied factors are computed after sampling).  An encoder that walks the
    block's factors and asks for their variables must walk act_design -- as Consistency does --, not design: for a design with an
    implied derived factor the variable lookup raises ValueError."""
    R = "C08.encoded-factors"
    base = ctx.repo.cls("base_constraint:Constraint")
    n = 0
    for c in sorted(base.all_subclasses(), key=lambda c_: c_.name):
        for name, m in sorted(c.methods.items()):
            if name not in ("apply", "apply_to_backend_request") or isinstance(m.node, ast.Lambda):
                continue
            for lp in [x for x in statements(m.node) if isinstance(x, ast.For)]:
                it = lp.iter
                while isinstance(it, ast.Call) and dotted(it.func) in ("filter", "list", "sorted", "enumerate", "reversed") and it.args:
                    it = it.args[-1]
                d = dotted(it)
                if d not in ("block.design", "block.act_design"):
                    continue
                tn = {x.id for x in ast.walk(lp.target) if isinstance(x, ast.Name)}
                uses = [cl for cl in ast.walk(lp) if isinstance(cl, ast.Call) and call_attr(cl) in VARIABLE_ACCESSORS and
                        any(isinstance(a_, ast.Name) and a_.id in tn for arg in cl.args for a_ in ast.walk(arg))]
                if not uses:
                    continue
                n += 1
                ctx.check(d == "block.act_design", R, m, "%s.%s walks %s" % (c.name, name, d), "the encoder asks for variables of the factors that have them (act_design)",
                          "%s.%s asks %s(..) for the variables of every factor in `%s`: an implied derived factor has no variables, so a design that contains one "
                          "makes the SAT samplers raise ValueError (the sibling Consistency walks act_design)" % (c.name, name, call_attr(uses[0]), d), lp)
    ctx.require(n >= 1, "no encoder loop over the block factors found (Sustain confirmed by hand)")


def check(ctx):
    repo = ctx.repo
    cg = CallGraph(repo)
    roots = [ctx.fn(e) for e in ENTRY]
    reach = cg.reachable(roots, stop=lambda e: e.callee.module.short.split(".")[-1] in OUT_OF_SCOPE_MODULES)
    ctx.require(len(reach) >= 200, "call graph from the samplers reaches only %d functions" % len(reach))
    ctx.extra["reachable_functions"] = len(reach)
    rule_emptiness(ctx, reach)
    rule_window_bound(ctx)
    rule_divisors(ctx, reach)
    n = C15.gate_rule(ctx, "C08.gate")
    rule_keys(ctx)
    rule_fill_order(ctx)
    rule_remove_once(ctx, reach)
    rule_key_domain(ctx)
    rule_backend_unsat(ctx)
    rule_no_crossing(ctx)
    rule_empty_request(ctx)
    rule_encoded_factors(ctx)

    mod = sys.modules[__name__]
    C = "sweetpea/_internal/constraint.py"
    control(ctx, mod, "AtLeastKInARow without its short-window branch",
            lambda s: variants.in_function(s, C, "AtLeastKInARow.apply_to_backend_request", "            if not sublists:\n", "            if False:\n"), "C08.emptiness")
    control(ctx, mod, "Pin indexes the first trial number unguarded",
            lambda s: variants.in_function(s, C, "Pin.apply", "        if trial_nos:\n", "        first = trial_nos[0]\n        if trial_nos:\n"), "C08.emptiness")
    control(ctx, mod, "window not clamped",
            lambda s: variants.in_function(s, "sweetpea/_internal/cross_block.py", "MultiCrossBlockRepeat.map_block_trial_ranges", "proc(start, min(end, num_trials))", "proc(start, end)"), "C08.window-bound")
    control(ctx, mod, "average over the requested count, unguarded",
            lambda s: variants.in_function(s, "sweetpea/_internal/sampling_strategy/random.py", "RandomGen.__sample", "total_rejected / sample_count if sample_count > 0 else 0", "total_rejected / sample_count"), "C08.divisor")
    control(ctx, mod, "implied factors filled in design order",
            lambda s: variants.in_function(s, "sweetpea/_internal/block.py", "Block.add_implied_levels",
                                           "for f in sorted(self.design, key=lambda f: f._get_depth()):", "for f in self.design:"), "C08.fill-order")
    control(ctx, mod, "the enumerator's derived list is re-sorted by name after the depth sort",
            lambda s: variants.in_function(s, "sweetpea/_internal/sampling_strategy/random.py", "UCSolutionEnumerator.__init__",
                                           "        self._sorted_derived_factors.sort(key=lambda f: f._get_depth())\n",
                                           "        self._sorted_derived_factors.sort(key=lambda f: f._get_depth())\n        self._sorted_derived_factors.sort(key=lambda f: f.name)\n"), "C08.fill-order")
    control(ctx, mod, "source combination removed once per rejecting factor",
            lambda s: variants.in_function(s, "sweetpea/_internal/sampling_strategy/random.py", "UCSolutionEnumerator.__count_solutions",
                                           "                            sc_indices.remove(sc_idx)\n                            break\n",
                                           "                            sc_indices.remove(sc_idx)\n"), "C08.remove-once")
    control(ctx, mod, "derived sources are not filled into the merged candidate",
            lambda s: variants.in_function(s, "sweetpea/_internal/sampling_strategy/random.py", "UCSolutionEnumerator.__count_solutions",
                                           "merged_levels[df] = l", "pass"), "C08.key-domain")
    control(ctx, mod, "pyunigen is called without asking for satisfiability first",
            lambda s: variants.in_function(s, "sweetpea/_internal/core/generate/tools/unigen.py", "call_unigen_python",
                                           "    if cryptominisat_is_satisfiable(input_file, docker_mode=False) is False:\n        return \"\"\n", "    pass\n"), "C08.backend-unsat")
    control(ctx, mod, "main crossing searched in a block without crossings",
            lambda s: variants.in_function(s, "sweetpea/_internal/design_partition.py", "DesignPartitions.__init__",
                                           "while (block.crossings != [] and block.crossing_sustain_counts[self.main_crossing] != 1):", "while (block.crossing_sustain_counts[self.main_crossing] != 1):"), "C08.no-crossing")
    control(ctx, mod, "pop count of a possibly empty request list",
            lambda s: variants.in_function(s, "sweetpea/_internal/core/cnf.py", "CNF.assert_k_of_n",
                                           "        if not in_list:\n            # None of no variables is true: nothing to assert.\n            return\n", ""), "C08.empty-request")
    control(ctx, mod, "Sustain walks the whole design, implied factors included",
            lambda s: variants.in_function(s, C, "Sustain.apply", "for f in block.act_design:", "for f in block.design:"), "C08.encoded-factors")
    ctx.min_instances("C08.emptiness", 10)
    ctx.min_instances("C08.window-bound", 4)
    ctx.min_instances("C08.divisor", 25)
    ctx.min_instances("C08.gate", 5)
    ctx.min_instances("C08.keys", 5)
    ctx.min_instances("C08.fill-order", 3)
    ctx.min_instances("C08.key-domain", 5)
    ctx.min_instances("C08.remove-once", 1)
    ctx.min_instances("C08.backend-unsat", 2)
    ctx.min_instances("C08.no-crossing", 6)
    ctx.min_instances("C08.empty-request", 2)
    ctx.min_instances("C08.encoded-factors", 1)
