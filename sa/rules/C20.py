"""C20 -- output conversions preserve trials and hide internal factors."""
import ast

from ..astutil import call_attr, dotted, statements, calls, walk_body, names_in
from ..sym import env_for, sym

TECHNIQUE = "def-use / provenance rules on the conversion helpers (same key sequence for labels and values, hidden-name filter on every path, partition coverage of the factor source)"
EXPLANATION = """
Decides: (1) in _experiments_to_tuples/_experiments_to_dicts/_experiments_to_csv the sequence that labels the
output (tuple positions / dict keys / header row) and the sequence used to fetch experiment[key] are the same
variable, iterated in order with no re-ordering call in between, each fetched value is indexed by the loop's own
key, rows are produced in index order over the full length; (2) every element appended to the list that
synthesize_trials returns is the result of __filter_hidden_keys applied to add_implied_levels of a raw sample, and
the hidden filters test HiddenName with the right polarity; (3) the public wrappers obtain their columns through
__filter_hidden from a factor source that covers both parts into which Block.__init__ splits the user's design
(design + continuous_factors, or orig_design).  The tuple / dict helpers are judged by the normal form of the whole
function (a helper extracted later is seen through): per experiment, the columns fetched by key over the label sequence,
transposed; the CSV rows either per row index [experiment[c][r] for c in csv_columns] or the same transposition.
"""
NOT_DECIDED = "value equality beyond 'same key, same index' (there is no arithmetic on values in these helpers); file I/O."

REORDER = {"sorted", "reversed", "set", "shuffle", "sort", "reverse"}


def _no_reorder(ctx, f, name):
    bad = []
    for c in calls(f.node):
        n = call_attr(c)
        if n in REORDER:
            args = [dotted(a) for a in c.args]
            recv = dotted(c.func.value) if isinstance(c.func, ast.Attribute) else None
            if name in args or recv == name:
                bad.append(c)
    for st in statements(f.node):
        if isinstance(st, (ast.Assign, ast.AugAssign)):
            ts = st.targets if isinstance(st, ast.Assign) else [st.target]
            for t in ts:
                if isinstance(t, ast.Name) and t.id == name:
                    bad.append(st)
    ctx.check(not bad, "C20.order", f, "reorder %s" % name, "key sequence '%s' is never re-ordered or rebound" % name,
              "key sequence '%s' is re-ordered or rebound inside %s" % (name, f.qual), bad[0] if bad else None)


def _comp_fetch(comp: ast.AST):
    """[experiment[key] for key in keys] -> (container, index var, iterated name) or None"""
    if isinstance(comp, (ast.ListComp, ast.GeneratorExp)) and len(comp.generators) == 1:
        g = comp.generators[0]
        if isinstance(g.target, ast.Name) and not g.ifs and isinstance(comp.elt, ast.Subscript):
            idx = comp.elt.slice
            if isinstance(idx, ast.Name) and idx.id == g.target.id:
                return dotted(comp.elt.value), g.target.id, dotted(g.iter)
    return None


def rule_csv(ctx):
    f = ctx.fn("main:_experiments_to_csv")
    col = "csv_columns"
    ctx.require(col in f.params, "%s lost its '%s' parameter" % (f.fq, col))
    _no_reorder(ctx, f, col)
    hdr = [c for c in calls(f.node) if call_attr(c) == "writerow" and c.args and dotted(c.args[0]) == col]
    ctx.check(len(hdr) == 1, "C20.same-keys", f, "header", "header row is '%s'" % col, "header row is not written from '%s'" % col)
    # rows, by normal form: either one writerow per row index r in range(len(<experiment>[csv_columns[0]])) whose argument is
    # [<experiment>[c][r] for c in csv_columns] (an explicit loop with append has the same normal form), or the transposed
    # writerows(zip(*[<experiment>[c] for c in csv_columns])).  The experiment is the variable of the loop over `experiments`.
    from ..facts import Facts
    F = Facts(f)
    exp_loops = [st for st in f.node.body if isinstance(st, ast.For)]
    ctx.check(len(exp_loops) == 1 and "experiments" in names_in(exp_loops[0].iter), "C20.same-keys", f, "experiment loop",
              "one file per experiment", "the loop over the experiments changed")
    evars = names_in(exp_loops[0].target) if len(exp_loops) == 1 else []
    rows = [st for st in F.stmts if isinstance(st, ast.Expr) and isinstance(st.value, ast.Call) and call_attr(st.value) in ("writerow", "writerows") and
            st.value.args and dotted(st.value.args[0]) != col]
    found = []
    ok = False
    for st in rows:
        nf = str(F.at(st, st.value.args[0]))
        found.append("%s(%s)" % (call_attr(st.value), nf))
        if call_attr(st.value) == "writerows":
            ok = ok or any(nf in ("zip(*[%s[_b0] for _b0 in %s])" % (ev, col), "list(zip(*[%s[_b0] for _b0 in %s]))" % (ev, col)) for ev in evars)
            continue
        loops_ = [l for l in F.stmts if isinstance(l, ast.For) and l is not exp_loops[0] and any(x is st for x in ast.walk(l)) and isinstance(l.target, ast.Name)]
        for l in loops_:
            r_ = l.target.id
            rng = str(F.at(l, l.iter))
            for ev in evars:
                if nf == "[%s[_b0][%s] for _b0 in %s]" % (ev, r_, col) and rng in ("range(len(%s[%s[0]]))" % (ev, col), "range(0, len(%s[%s[0]]))" % (ev, col)):
                    ok = True
    ctx.check(ok and len(rows) == 1, "C20.same-keys", f, "rows %s" % found, "every row holds the experiment's values fetched with the header's keys, in header order, for rows 0..len-1",
              "the rows of the CSV file are not built by fetching the experiment's columns with the keys of '%s', in that order, for every row (rows: %s): "
              "a cell can land under another factor's header, or rows are lost" % (col, found or "none"), rows[0] if rows else f.node)
    wr = [c for c in calls(f.node) if call_attr(c) in ("writerow", "writerows")]
    ctx.check(len(wr) == 2, "C20.rows", f, "writer calls x%d" % len(wr), "header + the rows", "unexpected number of writerow sites")


def check(ctx):
    repo = ctx.repo
    main = repo.module("main")

    # ---------------------------------------------------------------- (1) helpers
    for ref, keyparam in (("main:_experiments_to_tuples", "keys"), ("main:_experiments_to_dicts", "keys")):
        f = ctx.fn(ref)
        ctx.require(keyparam in f.params, "%s lost its '%s' parameter" % (f.fq, keyparam))
        _no_reorder(ctx, f, keyparam)
        # whole-function normal form (helpers extracted later are seen through): per experiment, the columns fetched *by key* over
        # the label sequence, transposed; for dicts each row zipped with the same label sequence
        from ..facts import Facts
        got = Facts(f).returns()
        fetch = "[_b0[_b1] for _b1 in %s]" % keyparam
        if ref.endswith("tuples"):
            want = ["[list(zip(*%s)) for _b0 in experiments]" % fetch]
        else:
            want = ["[[dict(zip(%s, _b1)) for _b1 in zip(*%s)] for _b0 in experiments]" % (keyparam, fetch),
                    "[[dict(zip(%s, _b1)) for _b1 in list(zip(*%s))] for _b0 in experiments]" % (keyparam, fetch)]
        ctx.check(len(got) == 1 and got[0] in want, "C20.same-keys", f, "result %s" % got,
                  "per experiment, in order: the columns fetched by key over '%s', transposed into rows%s" % (keyparam, " and labelled with the same keys" if ref.endswith("dicts") else ""),
                  "%s returns `%s`: the values are not fetched by key over '%s' in that order (expected `%s`), so a value can be labelled with / positioned under another factor" % (
                      f.qual, got, keyparam, want[0]))
        ctx.ok("C20.rows", f, "one result per experiment, in the order of `experiments` (part of the normal form)", trivial=True)

    rule_csv(ctx)

    # ---------------------------------------------------------------- (2) hidden filtering
    f = ctx.fn("main:synthesize_trials")
    rets = [st for st in statements(f.node) if isinstance(st, ast.Return) and st.value is not None]
    ctx.require(len(rets) == 1 and isinstance(rets[0].value, ast.Name), "%s: expected a single `return <list>`" % f.fq)
    rv = rets[0].value.id
    env = env_for(f.node)
    apps = [c for c in calls(f.node) if call_attr(c) == "append" and dotted(c.func.value) == rv]
    ctx.require(len(apps) >= 1, "%s: nothing is appended to the returned list" % f.fq)
    others = [st for st in statements(f.node) if isinstance(st, (ast.Assign, ast.AugAssign)) and
              any(isinstance(t, ast.Name) and t.id == rv for t in (st.targets if isinstance(st, ast.Assign) else [st.target]))]
    ctx.check(len(others) == 1 and isinstance(others[0], ast.Assign) and isinstance(others[0].value, ast.List)
              and not others[0].value.elts, "C20.hidden", f, "init %s" % rv, "returned list starts empty",
              "the returned list '%s' is (re)bound other than to the empty list" % rv)
    for a in apps:
        s = str(sym(a.args[0], env))
        ok = s.startswith("__filter_hidden_keys(") and "add_implied_levels(" in s
        ctx.check(ok, "C20.hidden", f, "append %s" % ast.unparse(a.args[0]),
                  "appended value = __filter_hidden_keys(block.add_implied_levels(raw sample))",
                  "a value reaches the returned list without __filter_hidden_keys(add_implied_levels(.)): %s" % s, a)
    for ref, what in (("main:__filter_hidden", "f.name"), ("main:__filter_hidden_keys", "name")):
        g = ctx.fn(ref)
        txt = ast.unparse(g.node).replace(" ", "")
        ok = "notisinstance(" in txt and "HiddenName)" in txt and "filter(" in txt or \
             ("ifnotisinstance(" in txt and "HiddenName)" in txt)
        ctx.check(ok, "C20.hidden", g, "polarity", "keeps exactly the entries whose name is not a HiddenName",
                  "%s no longer drops HiddenName entries (or drops the others)" % g.qual)

    # ---------------------------------------------------------------- (3) wrappers and partition coverage
    blk_init = ctx.fn("block:Block.__init__")
    sep = ctx.fn("block:Block.sep_continuous_factors")
    splits = "sep_continuous_factors" in {call_attr(c) for c in calls(blk_init.node)}
    ctx.check(splits, "C20.partition", blk_init, "split", "Block.__init__ splits the design into design / continuous_factors",
              "Block.__init__ no longer splits the design through sep_continuous_factors (partition rule needs re-derivation)",
              trivial=True)
    for ref in ("main:experiments_to_tuples", "main:experiments_to_dicts", "main:save_experiments_csv"):
        w = ctx.fn(ref)
        cs = [c for c in calls(w.node) if call_attr(c) == "__filter_hidden"]
        ctx.check(len(cs) == 1, "C20.hidden", w, "__filter_hidden", "column list passes __filter_hidden",
                  "%s does not obtain its columns through __filter_hidden" % w.qual)
        if not cs:
            continue
        src = ast.unparse(cs[0].args[0])
        reads = {d for d in (dotted(n) for n in ast.walk(cs[0].args[0])) if d}
        covers = ("block.orig_design" in reads) or ({"block.design", "block.continuous_factors"} <= reads)
        ctx.check(covers, "C20.partition", w, "columns from %s" % src,
                  "factor source covers design and continuous_factors",
                  "%s enumerates the block's factors from '%s', which misses the continuous factors that "
                  "Block.__init__ moves to continuous_factors" % (w.qual, src), cs[0])
        # name extraction: [f.name for f in <filtered>] passed as the key list of the helper
        helper = [c for c in calls(w.node) if call_attr(c) in ("_experiments_to_tuples", "_experiments_to_dicts", "_experiments_to_csv")]
        ctx.require(len(helper) == 1, "%s does not delegate to its helper" % w.fq)
        ctx.check(dotted(helper[0].args[0]) == "experiments", "C20.same-keys", w, "experiments arg",
                  "helper receives the caller's experiments", "helper does not receive the caller's experiments")
    # ---------------------------------------------------------------- (4) selection by key only
    # The dict order of an experiment is the library's internal column order; columns must be picked by the keys that label them.
    for ref in ("main:_experiments_to_tuples", "main:_experiments_to_dicts", "main:_experiments_to_csv"):
        f = ctx.fn(ref)
        exp_vars = {st.target.id for st in statements(f.node) if isinstance(st, ast.For) and isinstance(st.target, ast.Name) and "experiments" in names_in(st.iter)}
        for st in statements(f.node):
            if isinstance(st, ast.For) and isinstance(st.target, ast.Tuple) and "experiments" in names_in(st.iter):
                exp_vars |= {n.id for n in st.target.elts if isinstance(n, ast.Name)}
        bad = []
        for n in ast.walk(f.node):
            if isinstance(n, ast.Call) and isinstance(n.func, ast.Attribute) and n.func.attr in ("values", "items", "keys", "popitem") and dotted(n.func.value) in exp_vars:
                bad.append(n)
            if isinstance(n, (ast.For, ast.comprehension)) and dotted(n.iter) in exp_vars:
                bad.append(n.iter)
        ctx.check(not bad, "C20.same-keys", f, "%s selects by key" % f.qual, "columns are fetched by key only; the experiment's own dict order is never used",
                  "%s reads an experiment through `%s`: the column order then follows the library's internal dict order, not the labelled key sequence" % (
                      f.qual, ast.unparse(bad[0]) if bad else ""), bad[0] if bad else None)
    # ---------------------------------------------------------------- (5) what is merged after the hidden-name filter
    from . import C22
    C22.rule_output_keys(ctx, R="C20.hidden")
    C22.rule_merge(ctx, R="C20.hidden")
    ctx.min_instances("C20.same-keys", 9)
    ctx.min_instances("C20.hidden", 12)
    ctx.min_instances("C20.partition", 4)
