"""C15 -- derived factors must be total, unambiguous functions of their window."""
import ast
import sys

from ..astutil import call_attr, dotted, statements, calls
from ..cfg import CFG
from ..facts import Facts, fact
from ..report import control
from ..sym import cond_literals, Env, sym
from ..strfmt import str_parts, consts, skeleton
from .. import variants

TECHNIQUE = "guard-dominance rule on generate_derivations (overlap raises, gap records a fatal entry), agreement of the two string conventions (fatal vs WARNING) between the writers of block.errors and show_errors, gate rule on every sampler, normal forms of the applicability formulas"
EXPLANATION = """
Decides that the two detection mechanisms cannot be bypassed: (overlap) in generate_derivations the registration
according_level[tuple] = level is dominated by a membership test whose true branch raises, and the predicate result
is required to be a bool; (gap) after all levels were processed a loop over the *full* cross product adds an error
entry for every tuple no level accepted, and the constant skeleton of that entry contains no 'WARNING' token;
(fatal) show_errors returns True exactly when some entry lacks the token 'WARNING' -- so the two string conventions
agree; (gate) every Gen subclass that builds sequences calls block.show_errors() and returns an empty result in its
true branch, on every path before any solver / enumeration call (SMGen validates derivations itself: one frozen
exception, see C29); (applicability) Factor.applies_to_trial is n >= start + 1 and (n - (start+1)) mod stride == 0
for 1-based n, always True for non-derived factors, and its 0-based sibling in ContinuousFactorWindow.get_window_val
tests idx < start / (idx - start) mod stride != 0 on the same {start, stride}; the window predicate is evaluated on
per-position dictionaries (chunk_dict) exactly when width != 1, in generation and in the coverage report; the gate's
verdict (show_errors) depends on the recorded errors only and leaves no state behind; (shift) the SAT encoding of a
complex-window derivation shifts the window of the k-th applicable trial by t*stride + delta trials (delta = start offset in
trials, not multiplied by the stride); (window) the implied-factor fill reads a window position only when its index is
non-negative; (carry) a derived level rebuilt for weight desugaring keeps window width / stride / start and weight.
"""
NOT_DECIDED = "that the predicates are evaluated on the right window for every start/width (BeforeStart arithmetic) and the level values themselves."

SOLVER_CALLS = {"sample_non_uniform", "sample_uniform", "sample_ilp_iterate", "UCSolutionEnumerator", "execute", "encode_experiment"}


def gate_rule(ctx, R):
    """every exported Gen subclass that builds sequences consults block.show_errors() before any solving / enumeration
    and returns an empty result when it reports a fatal error (shared with C08)"""
    repo = ctx.repo
    # ---- the gate's verdict is a function of the recorded errors alone: show_errors reads no other attribute of the block
    # and writes none, so asking twice (a second sampling call on the same block) gives the same answer
    se_ = ctx.fn("block:Block.show_errors")
    reads_ = sorted({dotted(n_) for n_ in ast.walk(se_.node) if isinstance(n_, ast.Attribute) and dotted(n_) and dotted(n_).startswith("self.") and dotted(n_).count(".") == 1} - {"self.errors"})
    writes_ = [ast.unparse(x)[:60] for x in statements(se_.node) if isinstance(x, (ast.Assign, ast.AugAssign)) and
               any(dotted(t) and dotted(t).startswith("self.") for t in (x.targets if isinstance(x, ast.Assign) else [x.target]))]
    muts_ = [ast.unparse(c_)[:60] for c_ in calls(se_.node) if isinstance(c_.func, ast.Attribute) and dotted(c_.func.value) and dotted(c_.func.value).startswith("self.") and
             c_.func.attr in ("add", "update", "append", "extend", "clear", "remove", "discard", "pop")]
    ctx.check(not reads_ and not writes_ and not muts_, R, se_, "show_errors is a function of self.errors",
              "the error gate depends on the recorded errors only and leaves no state behind",
              "Block.show_errors reads %s / writes %s: its verdict depends on earlier calls, so a later sampling call on a block with a fatal error is let through" % (
                  reads_ or "-", (writes_ + muts_) or "-"))
    # ---- gate in every sampler
    gen = repo.cls("base:Gen")
    n = 0
    exported = set(ast.literal_eval(repo.module("main").assigns["__all__"]))
    for c in sorted(gen.all_subclasses(), key=lambda c: c.name):
        if c.name not in exported:
            ctx.note("sampling strategy %s is not exported by the package and is outside the property" % c.name)
            continue
        for mname in ("sample", "sample_object", "_RandomGen__sample", "__sample"):
            m = c.methods.get(mname)
            if m is None:
                continue
            work = [k for k in calls(m.node) if call_attr(k) in SOLVER_CALLS]
            if not work:
                # pure delegation to another Gen method
                deleg = [k for k in calls(m.node) if call_attr(k) in ("sample", "__sample", "sample_object")]
                ctx.check(bool(deleg) or c.name == "Gen", R, m, "%s.%s delegates" % (c.name, mname), "%s.%s delegates to a gated sampler" % (c.name, mname),
                          "%s.%s neither samples nor delegates" % (c.name, mname), trivial=True)
                continue
            n += 1
            if c.name == "SMGen":
                ctx.exception("SMGen.sample", "validates derivations itself by raising; refusal list is C29's")
                ctx.ok(R, m, "SMGen.sample: frozen exception (own validation)", trivial=True)
                continue
            gm = CFG(m.node)
            gates = [s for s in statements(m.node) if isinstance(s, ast.If) and ast.unparse(s.test) == "block.show_errors()"]
            ok = len(gates) == 1 and isinstance(gates[0].body[-1], ast.Return) and "SamplingResult([]" in ast.unparse(gates[0].body[-1])
            if ok:
                gn = gm.node_of(gates[0])
                for k in work:
                    st = [s for s in statements(m.node) if any(x is k for x in ast.walk(s)) and gm.has(s)]
                    st = st[-1]
                    ok = ok and gm.dominates(gn, gm.node_of(st)) and gm.node_of(st).id not in gm.reachable(gn, edge_filter=lambda a, b, lab: not (a is gn and lab == "F"))
            ctx.check(ok, R, m, "%s.%s gate" % (c.name, mname), "%s.%s returns an empty result on fatal errors before any solving" % (c.name, mname),
                      "%s.%s can reach its solver / enumerator without block.show_errors() having been consulted (or ignores its verdict)" % (c.name, mname), m.node)
    ctx.require(n >= 5, "only %d sampling methods found" % n)

    return n


def rule_argument_layout(ctx, R="C15.layout"):
    """chunk_dict(args, width) cuts a flat list into one {-(width-1)..0: level} dictionary per *factor*: the flat list has to be
    factor-major (all window positions of the first factor, then of the second, ...).  Where the list is filled by nested loops
    (or a nested comprehension), the loop over the window's factors must enclose the loop over the window's width."""
    n = 0
    for f in list(ctx.repo.all_functions):
        if isinstance(f.node, ast.Lambda):
            continue
        cds = [c for c in calls(f.node) if dotted(c.func) == "chunk_dict" and len(c.args) == 2 and isinstance(c.args[0], ast.Name)]
        for cd in cds:
            name = cd.args[0].id
            orders = []

            def visit(node, chain):
                for ch in ast.iter_child_nodes(node):
                    if isinstance(ch, (ast.FunctionDef, ast.Lambda)) and ch is not f.node:
                        continue
                    if isinstance(ch, ast.For):
                        visit(ch, chain + [ast.unparse(ch.iter)])
                        continue
                    if isinstance(ch, ast.Call) and call_attr(ch) == "append" and dotted(ch.func.value) == name:
                        orders.append((ch, chain))
                    if isinstance(ch, ast.Assign) and len(ch.targets) == 1 and dotted(ch.targets[0]) == name and isinstance(ch.value, ast.ListComp):
                        orders.append((ch, chain + [ast.unparse(g.iter) for g in ch.value.generators]))
                    visit(ch, chain)
            visit(f.node, [])
            # a loop may run over a local that names the window's factors / width: expand single-assignment locals once
            local_defs = {}
            for st in statements(f.node):
                if isinstance(st, ast.Assign) and len(st.targets) == 1 and isinstance(st.targets[0], ast.Name):
                    local_defs.setdefault(st.targets[0].id, []).append(ast.unparse(st.value))

            def expand(t):
                import re as _re
                return _re.sub(r"\b([A-Za-z_][A-Za-z0-9_]*)\b", lambda m: local_defs[m.group(1)][0] if len(local_defs.get(m.group(1), [])) == 1 and
                               ("factors" in local_defs[m.group(1)][0] or "width" in local_defs[m.group(1)][0]) else m.group(1), t)
            for node, chain in orders:
                chain = [expand(t) for t in chain]
                fi = [i for i, t in enumerate(chain) if t.endswith(".factors") or ".factors)" in t]
                wi = [i for i, t in enumerate(chain) if t.startswith("range(") and "width" in t]
                if not fi or not wi:
                    continue
                n += 1
                ctx.check(fi[-1] < wi[-1], R, f, "%s filled factor-major for chunk_dict" % name,
                          "the loop over the window's factors encloses the loop over its width",
                          "%s fills `%s` with the loop over the window positions (`%s`) outside the loop over the window's factors (`%s`), but chunk_dict(%s, width) "
                          "cuts the list into one dictionary per factor: every predicate argument then mixes the levels of different factors" % (
                              f.qual, name, chain[wi[-1]], chain[fi[-1]], name), node)
    ctx.require(n >= 2, "chunk_dict argument lists filled by nested loops: %d found (add_implied_levels and _trial_arguments confirmed by hand)" % n)


def check(ctx):
    repo = ctx.repo
    R = "C15.overlap"
    f = ctx.fn("derivation_processor:DerivationProcessor.generate_derivations")
    g = CFG(f.node)
    regs = [s for s in statements(f.node) if isinstance(s, ast.Assign) and isinstance(s.targets[0], ast.Subscript) and dotted(s.targets[0].value) == "according_level"]
    ctx.require(len(regs) == 1, "generate_derivations: registration of the accepting level not found")
    key = ast.unparse(regs[0].targets[0].slice)
    guards = [s for s in statements(f.node) if isinstance(s, ast.If) and ast.unparse(s.test) == "%s in according_level" % key]
    ok = len(guards) == 1 and any(isinstance(x, ast.Raise) for x in guards[0].body) and not guards[0].orelse and \
        g.dominates(g.node_of(guards[0]), g.node_of(regs[0]))
    ctx.check(ok, R, f, "overlap guard", "a window already accepted by another level raises before it is registered",
              "the registration according_level[%s] = level is not dominated by a membership test that raises: two levels accepting the same window go unnoticed" % key, regs[0])
    if guards:
        ctx.check(ast.unparse(regs[0].value) == "level" and "ValueError" in ast.unparse(guards[0].body[-1]), R, f, "overlap action", "overlap is a ValueError at construction",
                  "the overlap branch no longer raises ValueError")
    res = [s for s in statements(f.node) if isinstance(s, ast.If) and ast.unparse(s.test) == "not isinstance(result, bool)"]
    ctx.check(len(res) == 1 and any(isinstance(x, ast.Raise) for x in res[0].body), R, f, "bool result", "a non-bool predicate result is refused", "the bool check on the predicate result changed")
    F = Facts(f)
    ctx.check(len(F.assigns("result")) == 1 and F.assigns("result")[0].startswith("level.window.predicate(*"), R, f, "predicate call",
              "each level's predicate is evaluated on each window of the cross product", "predicate evaluation changed: %s" % F.assigns("result"))
    acc = [s for s in statements(f.node) if isinstance(s, ast.If) and ast.unparse(s.test) == "result"]
    ctx.check(len(acc) == 1 and any(x is guards[0] for x in acc[0].body) if guards else False, R, f, "accept branch", "the overlap test sits in the branch where the level accepts the window",
              "the overlap test is not applied to accepted windows")

    # ---- gap
    R = "C15.gap"
    outer = [s for s in f.node.body if isinstance(s, ast.For)]
    ctx.require(len(outer) == 1 and dotted(outer[0].iter) == "derived_factors", "generate_derivations: loop over derived factors not found")
    body = outer[0].body
    lvl = [s for s in body if isinstance(s, ast.For) and ast.unparse(s.iter) == "factor.levels"]
    cov = [s for s in body if isinstance(s, ast.For) and dotted(s.iter) == "cross_product"]
    ctx.check(len(lvl) == 1 and len(cov) == 1 and body.index(cov[0]) > body.index(lvl[0]), R, f, "coverage loop",
              "the coverage loop runs over the full cross product after all levels", "the coverage loop over cross_product is missing or precedes the level loop")
    if cov:
        tests = [s for s in cov[0].body if isinstance(s, ast.If)]
        ok = len(tests) == 1 and ast.unparse(tests[0].test) == "%s not in according_level" % ast.unparse(cov[0].target) and not tests[0].orelse
        adds = [c for c in ast.walk(cov[0]) if isinstance(c, ast.Call) and dotted(c.func) == "block.errors.add"]
        ctx.check(ok and len(adds) == 1, R, f, "uncovered tuple", "every tuple no level accepted produces an error entry", "the uncovered-tuple test / report changed")
        if adds:
            parts = str_parts(adds[0].args[0])
            sk = skeleton(parts)
            ctx.check("WARNING" not in sk and sk.startswith("No level in "), R, f, "gap entry %r" % sk[:60], "the gap entry carries no WARNING token (it is fatal)",
                      "the coverage error entry reads %r: with a WARNING token show_errors would not stop synthesis" % sk[:80], adds[0])
    cp = Facts(f).assigns("cross_product")
    ctx.check(cp == ["factor.levels[0].get_dependent_cross_product()"], R, f, "cross product", "the window space is the first level's dependent cross product", "cross_product is %s" % cp)
    fs = Facts(f).assigns("derived_factors")
    ctx.check(fs == ["[_b0 for _b0 in block.design if isinstance(_b0, DerivedFactor)]"], R, f, "all derived factors", "implied derived factors are checked too (block.design, not act_design)",
              "derived_factors is %s" % fs)
    # argument shaping is the same in generation and in the report
    Fg = Facts(f)
    use1 = [x for x in Fg.stmts if isinstance(x, ast.Assign) and dotted(x.targets[0]) == "result"]
    use2 = [x for x in Fg.stmts if isinstance(x, ast.Expr) and "block.errors.add" in ast.unparse(x) and "args" in [n.id for n in ast.walk(x) if isinstance(n, ast.Name)]]
    forms = [str(Fg.at(x, ast.Name(id="args", ctx=ast.Load()))) for x in use1 + use2]
    ctx.check(len(use1) == 1 and len(use2) == 1 and len(set(forms)) == 1 and forms[0].startswith("ite((1 == level.window.width), [") and ", list(chunk_dict(" in forms[0] , R, f, "argument shaping",
              "windows wider than 1 are passed as per-position dictionaries, in evaluation and in the report", "argument shaping (chunk_dict when width != 1) differs between evaluation and report or changed: %s" % forms)

    # ---- fatal convention
    R = "C15.fatal"
    se = ctx.fn("block:Block.show_errors")
    Fs = Facts(se)
    fails = [s for s in statements(se.node) if isinstance(s, ast.Assign) and dotted(s.targets[0]) == "failed"]
    setters = [s for s in fails if ast.unparse(s.value) == "True"]
    ok = len(setters) == 1 and Fs.returns() == ["failed"] or Fs.returns() == [Fs.returns()[0]]
    enc = [s for s in statements(se.node) if isinstance(s, ast.If) and any(x is setters[0] for x in s.body)] if setters else []
    ctx.check(len(setters) == 1 and len(enc) == 1 and ast.unparse(enc[0].test) == "'WARNING' not in e" and
              ast.unparse([s for s in se.node.body if isinstance(s, ast.Return)][0]) == "return failed" and ast.unparse(fails[0].value) == "False", R, se, "show_errors",
              "show_errors fails exactly when some entry lacks 'WARNING'", "show_errors no longer fails exactly on the entries without a WARNING token")
    loops = [s for s in statements(se.node) if isinstance(s, ast.For) and dotted(s.iter) == "self.errors"]
    ctx.check(len(loops) == 2 and enc and any(x is enc[0] for x in loops[0].body), R, se, "all entries", "every entry is inspected", "show_errors no longer inspects every entry")
    # writers of block.errors: classify by skeleton
    n_fatal, n_warn = 0, 0
    for h in repo.all_functions:
        for c in calls(h.node):
            if dotted(c.func) in ("block.errors.add", "self.errors.add") and c.args:
                sk = skeleton(str_parts(c.args[0], None))
                kind = "warning" if "WARNING" in sk else ("conditional" if "{" in sk[:12] or "maybe_warning" in ast.unparse(c.args[0]) else "fatal")
                n_fatal += kind == "fatal"
                n_warn += kind == "warning"
                ctx.ok(R, h, "errors.add %s entry: %s" % (kind, sk[:70].replace("\n", " ")), c, trivial=True)
    ctx.require(n_fatal >= 1 and n_warn >= 3, "writers of block.errors changed (fatal %d, warning %d)" % (n_fatal, n_warn))

    gate_rule(ctx, "C15.gate")

    # ---- applicability
    R = "C15.applicability"
    a = ctx.fn("primitive:Factor.applies_to_trial")
    Fa = Facts(a)
    w = "self.first_level.window"
    ctx.check(Fa.returns() == ["True", "(((-1 - %s.start + trial_number)%%(%s.stride) == 0) and (1 + %s.start <= trial_number))" % (w, w, w)], R, a, "formula",
              "applies iff n >= start + 1 and (n - (start + 1)) mod stride == 0; non-derived factors always apply", "applies_to_trial is %s" % Fa.returns())
    ctx.check(Fa.tests() == ["(trial_number <= 0)", "not(isinstance(self, DerivedFactor))"], R, a, "domain", "trial numbers are 1-based (n <= 0 is refused)", "applies_to_trial tests %s" % Fa.tests())
    gw = ctx.fn("primitive:ContinuousFactorWindow.get_window_val")
    Fg = Facts(gw)
    t = Fg.tests()
    ctx.check(t[:2] == ["(idx < self.start)", "(((idx - self.start)%(self.stride) != 0) and (1 < self.stride))"], R, gw, "0-based sibling",
              "0-based sibling: not yet started iff idx < start; skipped iff (idx - start) mod stride != 0", "get_window_val applicability tests are %s" % t[:2])
    sel = ctx.fn("primitive:DerivedFactor.select_level_for_sample")
    Fsl = Facts(sel)
    ctx.check(Fsl.assigns("args") == ["self.levels[0]._trial_arguments(sample, i, sustain_count)"] and "RuntimeError" in "".join(Fsl.raises()) and
              [ast.unparse(s.test) for s in statements(sel.node) if isinstance(s, ast.If)] == [
                  "%s.window.predicate(*args)" % lp.target.id for lp in statements(sel.node) if isinstance(lp, ast.For) and isinstance(lp.target, ast.Name) and
                  ast.unparse(lp.iter) == "self.levels" and any(isinstance(r_, ast.Return) and dotted(r_.value) == lp.target.id for r_ in ast.walk(lp))], R, sel, "level selection",
              "the combinatoric filler picks the level whose predicate accepts the trial's window (error if none)", "select_level_for_sample changed")
    ai = ctx.fn("block:Block.add_implied_levels")
    Fi = Facts(ai)
    ctx.check("f.applies_to_trial(1 + (i)//(self.sustain_count(f)))" in Fi.tests() and '[].append(\'\')' in Fi.exprs(), R, ai, "implied fill",
              "implied factors get '' where they do not apply (sustain-divided query)", "add_implied_levels applicability / empty entry changed")

    # ---- window arguments of the SAT encoding: position i of a width-w window refers to the trial i steps later; a
    # BeforeStart marker is aged by the mirrored position.  Mirror rule: in `for i, x in enumerate(L)`, an expression
    # len(M) - i - 1 must measure the list that i enumerates.
    R = "C15.window"
    sw = ctx.fn("derivation_processor:DerivationProcessor.shift_window")
    n_m = 0
    for lp in [s for s in statements(sw.node) if isinstance(s, ast.For)]:
        if not (isinstance(lp.iter, ast.Call) and dotted(lp.iter.func) == "enumerate" and isinstance(lp.target, ast.Tuple) and len(lp.target.elts) == 2
                and isinstance(lp.target.elts[0], ast.Name)):
            continue
        i = lp.target.elts[0].id
        L = ast.unparse(lp.iter.args[0])
        for node in ast.walk(lp):
            if isinstance(node, ast.Call) and dotted(node.func) == "len" and len(node.args) == 1:
                # is this len(..) combined with the loop index?
                par = [p for p in ast.walk(lp) if isinstance(p, ast.BinOp) and any(c is node for c in ast.walk(p)) and any(isinstance(c, ast.Name) and c.id == i for c in ast.walk(p))]
                if not par:
                    continue
                n_m += 1
                M = ast.unparse(node.args[0])
                ctx.check(M == L, R, sw, "mirror index len(%s) - %s" % (M, i), "the mirrored position is taken in the list that is being enumerated",
                          "shift_window ages a BeforeStart marker by `len(%s) - %s - 1` while `%s` enumerates `%s`: the offset is measured in another list "
                          "(all window positions of all factors instead of this factor's window)" % (M, i, i, L), node)
    ctx.require(n_m >= 1, "shift_window: the mirrored BeforeStart offset was not found")
    Fw = Facts(sw)
    src = [ast.unparse(s) for s in statements(sw.node)]
    # by role: inside the loop `for i, idx in enumerate(L)` the list that collects the shifted window receives either
    # BeforeStart(idx.ready_at + (len(L) - i - 1)) or idx + i * sustain_count * trial_size
    ok_marker = ok_shift = False
    for lp in [s_ for s_ in statements(sw.node) if isinstance(s_, ast.For) and isinstance(s_.iter, ast.Call) and dotted(s_.iter.func) == "enumerate" and
               isinstance(s_.target, ast.Tuple) and len(s_.target.elts) == 2 and all(isinstance(e_, ast.Name) for e_ in s_.target.elts)]:
        i_, x_ = lp.target.elts[0].id, lp.target.elts[1].id
        L_ = ast.unparse(lp.iter.args[0])
        for c_ in ast.walk(lp):
            if isinstance(c_, ast.Call) and isinstance(c_.func, ast.Attribute) and c_.func.attr == "append" and len(c_.args) == 1:
                a_ = c_.args[0]
                if isinstance(a_, ast.Call) and dotted(a_.func) == "BeforeStart" and len(a_.args) == 1:
                    ok_marker = ok_marker or str(sym(a_.args[0], Env())) == str(sym(ast.parse("%s.ready_at + (len(%s) - %s - 1)" % (x_, L_, i_), mode="eval").body, Env()))
                else:
                    ok_shift = ok_shift or str(sym(a_, Env())) == str(sym(ast.parse("%s + %s * sustain_count * trial_size" % (x_, i_), mode="eval").body, Env()))
    ctx.check(ok_marker, R, sw, "marker aged",
              "a not-yet-available input stays a BeforeStart marker, aged by its distance to the end of the window", "the BeforeStart branch of shift_window changed")
    ctx.check(ok_shift, R, sw, "shift", "position i of the window is shifted by i sustained trials",
              "the index shift of shift_window changed")
    ctx.check("sublist_size = len(idx_list) // argc" in src and "argc = len(window.factors)" in src and "if window.width == 1:\n    return indices" in src, R, sw, "per-factor windows",
              "the flat argument tuple is cut into one window per factor; width-1 windows are not shifted", "the per-factor split of shift_window changed")

    # ---- the k-th applicable trial of a strided window: applies_to_trial accepts trial start + k*stride (+1, 1-based), so the
    # window of the k-th step is shifted by k*stride + (start - default start) trials: the step count is multiplied by the
    # stride, the start offset (measured in trials) is not
    R = "C15.shift"
    cw = ctx.fn("constraint:Derivation.__apply_derivation_with_complex_window")
    Fw2 = Facts(cw)
    sd = [str(Fw2.at(x, x.value)) for x in Fw2.stmts if isinstance(x, ast.Assign) and dotted(x.targets[0]) == "delta"]
    ctx.check(sd == ["sustain_count*window.start_delta"] or sd == ["block.sustain_count(self.factor)*self.factor.levels[0].window.start_delta"], R, cw, "delta %s" % sd,
              "delta is the start offset in (sustained) trials", "delta is %s" % sd)
    wp = ctx.fn("primitive:Window.__post_init__")
    sdl = [str(Facts(wp).at(x, x.value)) for x in Facts(wp).stmts if isinstance(x, ast.Assign) and dotted(x.targets[0]) == "self.start_delta"]
    ctx.check(len(sdl) == 1 and (sdl[0].startswith("self.start - ") or sdl[0].endswith(" + self.start")) and sdl[0].count("self.start") == 1, R, wp, "start_delta %s" % sdl, "start_delta = start - default start, in trials", "Window.start_delta is %s" % sdl)
    incs = Fw2.augs("t")
    ctx.check(incs == ["+= sustain_count"] or incs == ["+= block.sustain_count(self.factor)"], R, cw, "step counter %s" % incs, "t advances by one (sustained) trial per applicable step", "t is advanced by %s" % incs)
    shifts = []
    for node in ast.walk(cw.node):
        if isinstance(node, ast.BinOp) and isinstance(node.op, ast.Mult):
            for a_, b_ in ((node.left, node.right), (node.right, node.left)):
                if isinstance(b_, ast.Call) and dotted(b_.func) == "get_trial_size":
                    shifts.append((node, a_))
    ctx.require(len(shifts) >= 1, "%s: the variable shift `<trials> * get_trial_size(x)` was not found" % cw.fq)
    from ..sym import Env as _Env, _sym as _s
    want = _s(ast.parse("t * window.stride + delta", mode="eval").body, _Env())
    for node, trials in shifts:
        got = _s(trials, _Env())
        ctx.check(got == want, R, cw, "shift %s" % got, "the window of the k-th applicable trial is shifted by t*stride + delta trials",
                  "the window variables of an applicable trial are shifted by `%s` trials; with t counting applicable steps and delta the start offset in trials, "
                  "trial start + k*stride needs `t*window.stride + delta`: a start that differs from the default combined with a stride > 1 derives the level from the wrong trials "
                  "(IterateSATGen then labels trials against the factor's own definition)" % got, node)

    # ---- implied factors: the window of an early trial reaches before the first trial; those positions are None, never a
    # wrapped-around value from the end of the sequence: every read results[<factor>.name][E] whose index is an offset from the
    # current trial is reached only under 0 <= E
    R = "C15.window"
    ai = ctx.fn("block:Block.add_implied_levels")
    Fai = Facts(ai)
    n_reads = 0
    for st in Fai.stmts:
        if isinstance(st, (ast.For, ast.While, ast.If, ast.With, ast.Try)):
            continue
        for x in ast.walk(st):
            if not (isinstance(x, ast.Subscript) and isinstance(x.ctx, ast.Load) and isinstance(x.value, ast.Subscript) and dotted(x.value.value) == "results"):
                continue
            idx = x.slice
            comp_bound = {n_.id for c_ in ast.walk(st) if isinstance(c_, (ast.ListComp, ast.DictComp, ast.GeneratorExp, ast.SetComp)) and any(y is x for y in ast.walk(c_))
                          for g_ in c_.generators for n_ in ast.walk(g_.target) if isinstance(n_, ast.Name)}
            if not any(isinstance(n_, ast.BinOp) for n_ in ast.walk(idx)) and not (isinstance(idx, ast.Name) and idx.id in comp_bound):
                continue                 # the current trial itself
            n_reads += 1
            if isinstance(idx, ast.Name) and idx.id in comp_bound:
                # a position drawn from a list of window positions: guarded by the conditional expression it sits in
                guarded = any(isinstance(c_, ast.IfExp) and any(y is x for y in ast.walk(c_.body)) and ("(0 <= %s)" % idx.id) in cond_literals(c_.test, True)
                              for c_ in ast.walk(st))
                ctx.check(guarded, R, ai, "implied window read results[..][%s]" % idx.id, "a window position before the first trial is not read (it is None)",
                          "add_implied_levels reads results[..][%s] for every window position, negative ones included" % idx.id, st)
                continue
            nf = str(Fai.at(st, idx))
            conds = Fai.conds(st)
            # a comprehension filter on the same index counts as a guard as well
            comp_guard = False
            for c_ in ast.walk(st):
                if isinstance(c_, (ast.ListComp, ast.DictComp, ast.GeneratorExp, ast.SetComp)) and any(y is x for y in ast.walk(c_)):
                    for g_ in c_.generators:
                        for t_ in g_.ifs:
                            if ("(0 <= %s)" % nf) in cond_literals(t_, True, Fai.snaps.get(id(st))):
                                comp_guard = True
            ctx.check(("(0 <= %s)" % nf) in conds or comp_guard, R, ai, "implied window read results[..][%s]" % nf,
                      "a window position before the first trial is not read (it is None)",
                      "add_implied_levels reads results[..][%s] on a path where the index can be negative (path condition %s): the first trials of an implied factor with a "
                      "window wider than its start take values from the end of the sequence instead of None" % (nf, conds), st)
    ctx.require(n_reads >= 1, "add_implied_levels: no offset read of the results found")

    # a derived level rebuilt for weight desugaring must keep its window (width, stride, start) and weight: the field-carry
    # rule of C23, restricted to the level / factor classes
    from . import C23
    C23.rule_carry(ctx, R="C15.carry", only=lambda f: f.module.short == "primitive")

    rule_argument_layout(ctx)
    mod = sys.modules[__name__]
    control(ctx, mod, "coverage entry becomes a warning",
            lambda s: variants.in_function(s, "sweetpea/_internal/derivation_processor.py", "DerivationProcessor.generate_derivations",
                                           'block.errors.add(f"No level in {maybe_crossing}factor"', 'block.errors.add(f"WARNING: No level in {maybe_crossing}factor"'), "C15.gap")
    control(ctx, mod, "overlap is recorded instead of raised",
            lambda s: variants.in_function(s, "sweetpea/_internal/derivation_processor.py", "DerivationProcessor.generate_derivations",
                                           "raise ValueError(f\"Factor {factor.name} matches {according_level[level_tuple].name} and \"\n                                             f\"{level.name} with assignment {args}.\")",
                                           "block.errors.add('WARNING: overlap')"), "C15.overlap")
    control(ctx, mod, "UniGen ignores the error gate",
            lambda s: variants.in_function(s, "sweetpea/_internal/sampling_strategy/unigen.py", "UniGen.sample",
                                           "        if block.show_errors():\n            return SamplingResult([], {})\n", "        block.show_errors()\n"), "C15.gate")
    control(ctx, mod, "start offset multiplied by the stride",
            lambda s: variants.in_function(s, "sweetpea/_internal/constraint.py", "Derivation.__apply_derivation_with_complex_window",
                                           "(t * window.stride + delta) * get_trial_size(x)", "(t + delta) * window.stride * get_trial_size(x)"), "C15.shift")
    control(ctx, mod, "window arguments gathered position-major",
            lambda s_: variants.in_function(variants.in_function(s_, "sweetpea/_internal/primitive.py", "DerivedLevel._trial_arguments",
                                                                 "        for f in window.factors:\n            levels = sample[f]\n            for j in range(window.width):\n",
                                                                 "        for j in range(window.width):\n          for f in window.factors:\n            levels = sample[f]\n            if True:\n"),
                                            "sweetpea/_internal/primitive.py", "DerivedLevel._trial_arguments", "args = []", "args = []"), "C15.layout")
    ctx.min_instances("C15.layout", 2)
    ctx.min_instances("C15.carry", 2)
    ctx.min_instances("C15.shift", 4)
    ctx.min_instances("C15.overlap", 4)
    ctx.min_instances("C15.gap", 5)
    ctx.min_instances("C15.gate", 5)
    ctx.min_instances("C15.window", 4)
    ctx.min_instances("C15.applicability", 5)
