"""C10 -- cardinality constraints are encoded exactly."""
import ast
import sys

from ..astutil import call_attr, dotted, statements, calls
from ..cfg import CFG
from ..facts import Facts, fact
from ..model import AnalysisError
from ..registry import enum_dispatch, enum_members
from ..report import control
from ..terms import TermEval, Lit, CNFV
from .. import variants

TECHNIQUE = "enum-dispatch registry, bit-order typing (two-valued MSB/LSB tag dataflow over the five builder functions), degenerate-range guard dominance on the CFG, contradiction recognised by DSL term extraction"
EXPLANATION = """
Decides: (dispatch) LowLevelRequest.comparisons are the names of AssertionType, to_generation_request passes k and
the variables through, combine_cnf_with_requests handles every member with EQ -> assert_k_of_n, LT ->
assert_k_less_than_n, GT -> assert_k_greater_than_n and raises otherwise; the LT/GT wrappers pass True/False so that
LT computes sum - k and GT computes k - sum (minuend / subtrahend roles read from the tuple assignment) and the
asserted bit is the sign (top) bit of the difference; (bit order) every list of bits in assert_k_of_n,
_inequality_assertion, _make_same_length and _convert_to_negative_twos_complement carries a tag MSB-first /
LSB-first: int_to_binary, pop_count, ripple_saturate yield MSB-first, ripple_carry takes MSB-first operands and
yields LSB-first sums, reverse()/reversed() flips, zip and the adders need equal tags, x[-1] of an LSB-first list is
the top bit, padding is added on the most-significant side -- every use type-checks; (definedness) every fresh
variable of these functions is unit-fixed or defined by a gadget (k's bits, paddings, flipped bits, the constant
one); (degenerate ranges) while the EQ comparison truncates k's bits to the pop-count width and the subtraction
returns without a spare sign bit for equal widths, the constructions are dominated by guards with the relations of
the table EQ: k > n -> contradiction, LT: k > n -> nothing, GT: k >= n -> contradiction, where 'contradiction' is
recognised by extracting the emitted clause table ({v}, {~v}).
"""
NOT_DECIDED = "width sufficiency of the circuits for every n and k and the arithmetic of their composition (C12 decides the gates)."


# ---------------------------------------------------------------------------------------------- bit-order typing
class TagError(Exception):
    pass


def bit_order(ctx, f, spec):
    """Walk the straight-line body of f; spec supplies parameter tags.  Returns the tag of the returned list (or None).
    Tags: 'M' MSB-first, 'L' LSB-first, 'F' fresh (no order yet; unified on first use)."""
    R = "C10.bit-order"
    tags = dict(spec.get("params", {}))
    findings = []
    ret = [None]

    def flip(t):
        return {"M": "L", "L": "M", "F": "F"}.get(t, t)

    def unify(a, b, node, what):
        ta, tb = tag_of(a), tag_of(b)
        if ta == "F" and tb in ("M", "L"):
            set_tag(a, tb)
            return tb
        if tb == "F" and ta in ("M", "L"):
            set_tag(b, ta)
            return ta
        if ta != tb:
            findings.append((node, "%s combines %s (%s) with %s (%s): bit lists of opposite order are paired" % (
                what, ast.unparse(a), _n(ta), ast.unparse(b), _n(tb))))
        return ta

    def set_tag(e, t):
        if isinstance(e, ast.Name):
            tags[e.id] = t

    def tag_of(e):
        if isinstance(e, ast.Name):
            return tags.get(e.id)
        if isinstance(e, ast.Call):
            n = call_attr(e)
            if n == "reversed" and e.args:
                return flip(tag_of(e.args[0]))
            if n == "list" and e.args:
                return tag_of(e.args[0])
            if n == "int_to_binary":
                return "M"
            if n in ("pop_count", "ripple_saturate"):
                return "M"
            if n in ("get_n_fresh",):
                return "F"
            if n == "_convert_to_negative_twos_complement":
                t = tag_of(e.args[0])
                if t not in ("M", "F"):
                    findings.append((e, "_convert_to_negative_twos_complement expects an MSB-first list, gets %s" % _n(t)))
                return "M"
        if isinstance(e, ast.Subscript) and isinstance(e.slice, ast.Slice):
            if e.slice.step is not None and ast.unparse(e.slice.step) == "-1" and e.slice.lower is None and e.slice.upper is None:
                return flip(tag_of(e.value))
            return tag_of(e.value)
        if isinstance(e, ast.GeneratorExp) or isinstance(e, ast.ListComp):
            if len(e.generators) == 1:
                it = e.generators[0].iter
                if isinstance(it, ast.Call) and call_attr(it) == "zip":
                    return unify(it.args[0], it.args[1], e, "zip")
                return tag_of(it)
        if isinstance(e, (ast.List,)):
            return "F"
        return None

    def visit(stmts):
        for st in stmts:
            if isinstance(st, ast.Expr) and isinstance(st.value, ast.Constant):
                continue
            if isinstance(st, ast.If):
                # both branches are analysed with the same incoming tags; they must agree afterwards
                before = dict(tags)
                visit(st.body)
                t1 = dict(tags)
                tags.clear()
                tags.update(before)
                visit(st.orelse)
                for k in set(t1) | set(tags):
                    if t1.get(k) != tags.get(k) and k in t1 and k in tags:
                        tags[k] = None
                    elif k in t1 and k not in tags:
                        tags[k] = t1[k]
                continue
            if isinstance(st, (ast.For,)):
                it = st.iter
                if isinstance(it, ast.Call) and call_attr(it) == "zip" and len(it.args) == 2:
                    unify(it.args[0], it.args[1], st, "zip")
                visit(st.body)
                continue
            if isinstance(st, ast.Return):
                if st.value is not None:
                    ret[0] = tag_of(st.value)
                continue
            if isinstance(st, ast.Raise):
                continue
            if isinstance(st, (ast.Assign, ast.AnnAssign)):
                targets = st.targets if isinstance(st, ast.Assign) else [st.target]
                v = st.value
                t = targets[0]
                if isinstance(t, ast.Tuple) and isinstance(v, ast.Call) and call_attr(v) == "ripple_carry":
                    a, b = v.args[0], v.args[1]
                    r = unify(a, b, st, "ripple_carry")
                    if r not in ("M", "F", None):
                        findings.append((st, "ripple_carry consumes its operands least-significant bit first from MSB-first lists; it is given %s lists" % _n(r)))
                    if isinstance(t.elts[1], ast.Name):
                        tags[t.elts[1].id] = "L"
                    continue
                if isinstance(t, ast.Tuple) and isinstance(v, ast.Tuple) and len(t.elts) == len(v.elts):
                    for a, b in zip(t.elts, v.elts):
                        if isinstance(a, ast.Name):
                            tags[a.id] = tag_of(b)
                    continue
                if isinstance(t, ast.Name):
                    tags[t.id] = tag_of(v)
                    # comprehension over zip: record pairing already done in tag_of
                    continue
                if isinstance(t, ast.Subscript) and isinstance(t.slice, ast.Slice) and isinstance(t.value, ast.Name):
                    # xs[:0] = padding  -> padding goes to the front = most significant side of an MSB-first list
                    lo, hi = t.slice.lower, t.slice.upper
                    front = lo is None and hi is not None and ast.unparse(hi) == "0"
                    tt = tags.get(t.value.id)
                    if front and tt not in ("M", "F", None):
                        findings.append((st, "padding is inserted at the front of %s, which is %s: the zeros land on the least-significant side" % (
                            t.value.id, _n(tt))))
                    if not front:
                        findings.append((st, "padding of %s is not inserted at the most-significant end (front)" % t.value.id))
                    continue
            if isinstance(st, ast.AugAssign) and isinstance(st.target, ast.Name):
                # left_padded += [-1 ...]: appends at the END: most-significant side only if the list is LSB-first
                tt = tags.get(st.target.id)
                if isinstance(st.value, (ast.ListComp, ast.List)) and spec.get("append_is_high", False):
                    if tt != "L":
                        findings.append((st, "zero padding is appended at the end of %s, which is %s: the padding must land on the most-significant side" % (
                            st.target.id, _n(tt))))
                continue
            if isinstance(st, ast.Expr) and isinstance(st.value, ast.Call):
                c = st.value
                n = call_attr(c)
                if n == "reverse" and isinstance(c.func, ast.Attribute) and isinstance(c.func.value, ast.Name):
                    tags[c.func.value.id] = flip(tags.get(c.func.value.id))
                    continue
                if n == "_make_same_length" and len(c.args) == 2:
                    r = unify(c.args[0], c.args[1], st, "_make_same_length")
                    if r not in ("M", "F", None):
                        findings.append((st, "_make_same_length pads at the front, so it needs MSB-first lists; it gets %s lists" % _n(r)))
                    continue
                if n == "set_to_one" and c.args and isinstance(c.args[0], ast.Subscript):
                    sub = c.args[0]
                    base_t = tag_of(sub.value)
                    idx = ast.unparse(sub.slice)
                    want = spec.get("sign_assert")
                    if want:
                        top = (base_t == "L" and idx == "-1") or (base_t == "M" and idx == "0")
                        if not top:
                            findings.append((st, "the asserted bit %s of a %s list is not the sign (top) bit of the difference" % (
                                ast.unparse(sub), _n(base_t))))
                    lowone = spec.get("low_one")
                    if lowone:
                        low = (base_t in ("M", "F") and idx == "-1") or (base_t == "L" and idx == "0")
                        if not low:
                            findings.append((st, "the constant one sets %s of a %s list, which is not the least-significant bit" % (
                                ast.unparse(sub), _n(base_t))))
                    continue
                if n == "zero_out" and c.args and isinstance(c.args[0], ast.Subscript) and spec.get("low_one"):
                    sub = c.args[0]
                    base_t = tag_of(sub.value)
                    sl = ast.unparse(sub.slice)
                    ok = (base_t in ("M", "F") and sl == ":-1") or (base_t == "L" and sl == "1:")
                    if not ok:
                        findings.append((st, "the constant one zeroes %s of a %s list: the zeroed part must be every bit but the least-significant" % (
                            ast.unparse(sub), _n(base_t))))
                    continue
                continue
    visit(f.node.body)
    for node, msg in findings:
        ctx.bad(R, f, msg[:90], msg, node)
    if not findings:
        ctx.ok(R, f, "every bit-list use in %s type-checks (tags at exit: %s)" % (f.qual, {k: v for k, v in sorted(tags.items()) if v}))
    return ret[0], tags


def _n(t):
    return {"M": "MSB-first", "L": "LSB-first", "F": "fresh", None: "untyped"}.get(t, str(t))


# ---------------------------------------------------------------------------------------------- the rule
def check(ctx):
    repo = ctx.repo
    te = TermEval(repo)

    # ---- dispatch
    R = "C10.dispatch"
    members = enum_members(repo.cls("utility:AssertionType"))
    llr = repo.cls("backend:LowLevelRequest")
    comp = llr.class_attrs.get("comparisons")
    ctx.require(comp is not None, "LowLevelRequest.comparisons not found")
    names = ast.literal_eval(comp)
    ctx.check(sorted(names) == sorted(members), R, llr, "comparisons %s" % names, "request kinds = AssertionType members %s" % sorted(members),
              "LowLevelRequest.comparisons %s differ from the AssertionType members %s" % (names, members))
    f = ctx.fn("backend:LowLevelRequest.to_generation_request")
    fact(ctx, R, f, "to_generation_request", Facts(f).returns(), ["GenerationRequest(AssertionType[self.comparison], self.k, [Var(_b0) for _b0 in self.variables])"],
         "kind by name, k and variables passed through unchanged")
    sat = ctx.fn("utility:combine_cnf_with_requests")
    chains = enum_dispatch(sat.node, "AssertionType")
    ctx.require(len(chains) == 1, "combine_cnf_with_requests: dispatch chain not found")
    first, branches, else_body = chains[0]
    want = {"EQ": "assert_k_of_n", "LT": "assert_k_less_than_n", "GT": "assert_k_greater_than_n"}
    for m in members:
        body = branches.get(m, [])
        cs = [c for st in body for c in ast.walk(st) if isinstance(c, ast.Call)]
        ok = len(cs) == 1 and call_attr(cs[0]) == want.get(m) and [ast.unparse(a) for a in cs[0].args] == ["request.k", "request.boolean_values"]
        ctx.check(ok, R, sat, "%s -> %s" % (m, [ast.unparse(c) for c in cs]), "%s -> %s(request.k, request.boolean_values)" % (m, want.get(m)),
                  "AssertionType.%s is dispatched to %s" % (m, [ast.unparse(c) for c in cs]), body[0] if body else first)
    ctx.check(any(isinstance(s, ast.Raise) for s in else_body), R, sat, "else raises", "unknown kinds raise", "unknown assertion kinds are silently ignored")
    F = Facts(sat)
    comb_ = F.assigns("final_cnf") or F.returns()[-1:]        # assigned to a local, or returned directly
    ctx.check(F.assigns("fresh_cnf") == ["CNF.from_fresh(fresh)"] and comb_ in (["CNF.from_fresh(fresh) + initial_cnf"], ["fresh_cnf + initial_cnf"]),
              R, sat, "combination", "request clauses and the base formula are conjoined; numbering starts above `fresh`",
              "combine_cnf_with_requests combination changed: %s / %s" % (F.assigns("fresh_cnf"), comb_))
    ff = ctx.fn("cnf:CNF.from_fresh")
    ctx.check(Facts(ff).assigns("cnf._num_vars") == ["fresh"], R, ff, "from_fresh", "auxiliary numbering starts above the given count", "from_fresh no longer records the variable count")
    for name, flag in (("assert_k_less_than_n", "True"), ("assert_k_greater_than_n", "False")):
        w = ctx.fn("cnf:CNF." + name)
        fact(ctx, R, w, name, Facts(w).exprs(), ["self._inequality_assertion(%s, k, in_list)" % flag],
             "%s selects the %s orientation" % (name, "less-than" if flag == "True" else "greater-than"))
    ineq = ctx.fn("cnf:CNF._inequality_assertion")
    sel = [s for s in ineq.node.body if isinstance(s, ast.If) and ast.unparse(s.test) == "assert_less_than" and s.orelse and "kbs" in ast.unparse(s.body[0])]
    ctx.require(len(sel) == 1, "_inequality_assertion: orientation branch not found")
    t_, e_ = ast.unparse(sel[0].body[0]), ast.unparse(sel[0].orelse[0]) if sel[0].orelse else ""
    ctx.check(t_ == "kbs, nbs = (sum_bits, k_vars)" and e_ == "kbs, nbs = (k_vars, sum_bits)", R, ineq, "orientation %s / %s" % (t_, e_),
              "LT: minuend = sum, subtrahend = k (sum - k < 0); GT: minuend = k, subtrahend = sum (k - sum < 0)",
              "operand roles of the subtraction changed: less-than `%s`, greater-than `%s`" % (t_, e_), sel[0])
    Fi = Facts(ineq)
    fact(ctx, R, ineq, "difference", Fi.assigns("neg_twos_comp_nbs"), ["self._convert_to_negative_twos_complement(ite(assert_less_than, self.get_n_fresh(len(int_to_binary(k))), self.pop_count(in_list, 1 + len(int_to_binary(k)))))"], "the subtrahend is negated in two's complement")
    rc = [c for c, st in Fi.calls_named("ripple_carry")]
    ctx.check(len(rc) == 1 and [ast.unparse(a) for a in rc[0].args] == ["kbs", "neg_twos_comp_nbs"], R, ineq, "addition",
              "difference = minuend + (-subtrahend)", "the difference is computed as %s" % ([ast.unparse(a) for a in rc[0].args] if rc else "?"))
    fact(ctx, R, ineq, "k bits", Fi.assigns("assertion"), ["[Var(_b0.value*_b1) for (_b0, _b1) in zip(self.get_n_fresh(len(int_to_binary(k))), int_to_binary(k))]"],
         "the bits of k are unit-fixed: variable i gets the sign of bit i of k")
    fact(ctx, R, ineq, "pop count width", Fi.assigns("sum_bits"), ["self.pop_count(in_list, 1 + len(int_to_binary(k)))"], "pop count saturates one bit above k's width")
    eq = ctx.fn("cnf:CNF.assert_k_of_n")
    Fe = Facts(eq)
    fact(ctx, R, eq, "EQ pop count width", Fe.assigns("sum_bits"), ["self.pop_count(in_list, 1 + len(int_to_binary(k)))"], "pop count saturates one bit above k's width")
    a_ = Fe.assigns("assertion")
    ctx.check(len(a_) == 1 and a_[0].startswith("[Var(_b0*_b1.value) for (_b0, _b1) in zip("), R, eq, "EQ comparison",
              "each sum bit is unit-fixed to the corresponding (zero-padded) bit of k", "the EQ comparison changed: %s" % (a_[0][:100] if a_ else a_))
    ib = ctx.fn("binary:int_to_binary")
    Fb = Facts(ib)
    ctx.check(Fb.tests() == ["(0 != value)", "((value)%(2) == 0)"] and Fb.exprs() == ["[].append(-1)", "[].append(1)", "[].reverse()"] and
              Fb.augs("value") == ["//= 2"], R, ib, "int_to_binary", "binary digits (+1/-1), produced LSB-first then reversed: MSB-first, no leading zero",
              "int_to_binary changed: %s %s %s" % (Fb.tests(), Fb.exprs(), Fb.augs("value")))
    even = [s for s in statements(ib.node) if isinstance(s, ast.If) and "% 2" in ast.unparse(s.test)]
    ctx.check(len(even) == 1 and "append(-1)" in ast.unparse(even[0].body[0]) and "append(1)" in ast.unparse(even[0].orelse[0]), R, ib,
              "int_to_binary polarity", "even -> -1 (false), odd -> +1 (true)", "int_to_binary digit polarity changed")

    # ---- bit order
    t, _ = bit_order(ctx, eq, {"params": {}, "append_is_high": True})
    t, _ = bit_order(ctx, ineq, {"params": {}, "sign_assert": True})
    msl = ctx.fn("cnf:CNF._make_same_length")
    bit_order(ctx, msl, {"params": {"xs": "M", "ys": "M"}})
    neg = ctx.fn("cnf:CNF._convert_to_negative_twos_complement")
    rt, _ = bit_order(ctx, neg, {"params": {"bits": "M"}, "low_one": True})
    ctx.check(rt == "M", "C10.bit-order", neg, "two's complement result %s" % _n(rt), "the negated number is returned MSB-first",
              "_convert_to_negative_twos_complement returns an %s list; its caller adds it to an MSB-first operand" % _n(rt))
    Fn = Facts(neg)
    flip_ok = False
    for lp_ in [x for x in Fn.stmts if isinstance(x, ast.For) and isinstance(x.target, ast.Tuple) and len(x.target.elts) == 2]:
        it_ = str(Fn.at(lp_, lp_.iter))
        xs_ = [c for c in ast.walk(lp_) if isinstance(c, ast.Call) and call_attr(c) == "xnor_vars" and len(c.args) == 2]
        if not it_.startswith("zip(") or len(xs_) != 1:
            continue
        a_, b_ = [t.id if isinstance(t, ast.Name) else "?" for t in lp_.target.elts]
        p_, q_ = ast.unparse(xs_[0].args[0]), ast.unparse(xs_[0].args[1])
        F_ = "self.get_n_fresh(len(bits))"
        if it_ == "zip(%s, [~(_b0) for _b0 in bits])" % F_ and (p_, q_) == (a_, b_):
            flip_ok = True
        if it_ == "zip(%s, bits)" % F_ and (p_, q_) in ((a_, "~" + b_), ("~" + b_, a_)):
            flip_ok = True
    ctx.check(flip_ok, "C10.bit-order", neg, "flip", "flipped[i] <-> ~bits[i] position by position", "the bit flip of the two's complement changed")

    # ---- definedness of the fresh variables of these functions (shared with C03)
    from . import C03
    C03.definedness(ctx, [eq, ineq, msl, neg, ctx.fn("cnf:CNF.pop_count")], te, rule="C10.defined")

    # ---- degenerate ranges
    R = "C10.range"
    lossy = any("in_binary[:len(sum_bits)]" in ast.unparse(s) for s in statements(eq.node))
    early = [s for s in msl.node.body if isinstance(s, ast.If) and ast.unparse(s.test) == "len(xs) == len(ys)" and
             any(isinstance(x, ast.Return) for x in s.body)]
    au = ctx.fn("cnf:CNF._assert_unsatisfiable") if repo.has_fn("cnf:CNF._assert_unsatisfiable") else None

    def contradiction_call(st) -> bool:
        if not (isinstance(st, ast.Expr) and isinstance(st.value, ast.Call)):
            return False
        n = call_attr(st.value)
        if au is not None and n == au.name:
            return True
        return False
    if au is not None:
        def run_au(stmts, env, out):
            """tiny interpreter of the helper's body: assignments, `if <list>:` on the list's emptiness, prepend(...)"""
            for s in stmts:
                if isinstance(s, ast.Expr) and isinstance(s.value, ast.Constant):
                    continue
                if isinstance(s, ast.Assign) and isinstance(s.targets[0], ast.Name):
                    if isinstance(s.value, ast.Call) and ast.unparse(s.value) == "self.get_fresh()":
                        env[s.targets[0].id] = Lit("fresh")
                    else:
                        env[s.targets[0].id] = te.eval(s.value, env, au)
                elif isinstance(s, ast.If):
                    t = s.test
                    neg = isinstance(t, ast.UnaryOp) and isinstance(t.op, ast.Not)
                    nm = t.operand if neg else t
                    ctx.require(isinstance(nm, ast.Name) and isinstance(env.get(nm.id), list), "_assert_unsatisfiable: branch condition outside the fragment: %s" % ast.unparse(t))
                    c = bool(env[nm.id]) != neg
                    run_au(s.body if c else s.orelse, env, out)
                elif isinstance(s, ast.Expr) and isinstance(s.value, ast.Call) and call_attr(s.value) == "prepend":
                    out.append(te.eval(s.value.args[0], env, au))
                else:
                    ctx.require(False, "_assert_unsatisfiable: statement outside the fragment: %s" % ast.unparse(s)[:60])
        for name_, inputs, want_ in (("over an input variable", [Lit("x1"), Lit("x2")], ["(x1)", "(~x1)"]), ("over a fresh variable when there is no input", [], ["(fresh)", "(~fresh)"])):
            out_ = []
            run_au(au.node.body, {"in_list": list(inputs)}, out_)
            val = out_[0] if len(out_) == 1 else None
            ok = isinstance(val, CNFV) and sorted(repr(c) for c in val.clauses) == want_
            ctx.check(ok, R, au, "contradiction %s: %r" % (name_, val), "_assert_unsatisfiable emits {v}, {~v} %s: no model" % name_,
                      "_assert_unsatisfiable emits %r, which is not a contradiction (%s)" % (val, name_))
    if lossy:
        g = CFG(eq.node)
        guards = [s for s in eq.node.body if isinstance(s, ast.If) and Facts(eq).at(s, s.test) is not None and
                  str(Facts(eq).at(s, s.test)) == "(len(in_list) < k)"]
        ok = len(guards) == 1 and any(contradiction_call(x) for x in guards[0].body) and isinstance(guards[0].body[-1], ast.Return)
        if ok:
            construct = [s for s in eq.node.body if "pop_count" in ast.unparse(s)][0]
            ok = g.dominates(g.node_of(guards[0]), g.node_of(construct))
        ctx.check(ok, R, eq, "EQ guard k > n", "EQ: k > n is settled as a contradiction before k's bits are truncated to the pop-count width",
                  "assert_k_of_n truncates k's bits to the pop-count width (in_binary[:len(sum_bits)]) but no dominating guard settles k > len(in_list) "
                  "as a contradiction: 'exactly k of n' with k > n is satisfiable for some counts", eq.node)
    else:
        ctx.note("assert_k_of_n no longer truncates k's bits: no range-guard obligation for EQ")
    if early:
        g = CFG(ineq.node)
        Fq = Facts(ineq)
        tests = {str(Fq.at(s, s.test)): s for s in ineq.node.body if isinstance(s, ast.If)}
        lt = tests.get("((len(in_list) < k) and assert_less_than)")
        gt = tests.get("((len(in_list) <= k) and not(assert_less_than))")
        construct = [s for s in ineq.node.body if "pop_count" in ast.unparse(s)]
        ctx.require(len(construct) >= 1, "_inequality_assertion: pop_count construction not found")
        ok_lt = lt is not None and len(lt.body) == 1 and isinstance(lt.body[0], ast.Return) and g.dominates(g.node_of(lt), g.node_of(construct[0]))
        ctx.check(ok_lt, R, ineq, "LT guard k > n", "LT: k > n asserts nothing (always true)",
                  "_make_same_length returns without a spare sign bit for equal widths, but _inequality_assertion has no dominating guard that "
                  "settles 'fewer than k' with k > len(in_list) as trivially true: the encoding is unsatisfiable there", ineq.node)
        ok_gt = gt is not None and any(contradiction_call(x) for x in gt.body) and isinstance(gt.body[-1], ast.Return) and \
            g.dominates(g.node_of(gt), g.node_of(construct[0]))
        ctx.check(ok_gt, R, ineq, "GT guard k >= n", "GT: k >= n is settled as a contradiction",
                  "_inequality_assertion has no dominating guard that settles 'more than k' with k >= len(in_list) as a contradiction: "
                  "the subtraction overflows and the encoding is satisfiable there", ineq.node)
    else:
        ctx.note("_make_same_length always extends both operands: no range-guard obligation for LT/GT")

    # ---- spare sign bit: for unequal widths both operands of the subtraction are extended to max width + d, d >= 1
    R = "C10.sign"
    from ..sym import Env, Poly, _sym
    br = [s for s in statements(msl.node) if isinstance(s, ast.If) and ast.unparse(s.test) in ("len(xs) < len(ys)", "len(ys) > len(xs)")]
    ctx.require(len(br) == 1, "_make_same_length: the `len(xs) < len(ys)` branch was not found")
    env = Env()
    fresh_n = {}
    for st in br[0].body:
        if isinstance(st, ast.Assign) and isinstance(st.value, ast.Call) and call_attr(st.value) == "get_n_fresh" and isinstance(st.targets[0], ast.Name):
            fresh_n[st.targets[0].id] = _sym(st.value.args[0], env)
    added = {"xs": Poly.const(0), "ys": Poly.const(0)}
    for st in br[0].body:
        if isinstance(st, ast.Assign) and isinstance(st.targets[0], ast.Subscript) and ast.unparse(st.targets[0].slice) == ":0" and \
                dotted(st.targets[0].value) in added and isinstance(st.value, ast.Name) and st.value.id in fresh_n:
            added[dotted(st.targets[0].value)] = added[dotted(st.targets[0].value)] + fresh_n[st.value.id]
    dy = added["ys"].const_value()
    diff = added["xs"] - added["ys"]
    want = _sym(ast.parse("len(ys) - len(xs)", mode="eval").body, env)
    ctx.check(diff == want, R, msl, "equal widths: xs +%s, ys +%s" % (added["xs"], added["ys"]), "after padding both operands have the same width",
              "the shorter operand receives %s leading zeros and the longer %s: the widths differ by %s instead of 0" % (added["xs"], added["ys"], diff - want), br[0])
    ctx.check(dy is not None and dy >= 1, R, msl, "spare sign bit +%s" % added["ys"], "both operands get at least one spare leading zero, so the top bit of the difference is its sign",
              "for unequal widths the longer operand gets no spare leading zero (%s): sum - k can overflow the width and the asserted top bit is not the sign" % added["ys"], br[0])
    rec = [s for s in statements(msl.node) if isinstance(s, ast.Expr) and ast.unparse(s.value) == "self._make_same_length(ys, xs)"]
    ctx.check(len(rec) == 1, R, msl, "symmetric case", "the other orientation swaps the roles", "the `len(xs) > len(ys)` case no longer mirrors the first")

    # the comparison circuits are built from the adders and the population count: C12's clauses, under their own names
    if not ctx.is_control or getattr(ctx, "nested_ok", False):
        from ..report import include
        include(ctx, "C12")

    mod = sys.modules[__name__]
    control(ctx, mod, "no spare sign bit",
            lambda s: variants.in_function(s, "sweetpea/_internal/core/cnf.py", "CNF._make_same_length",
                                           "            ys[:0] = one_more_zero\n", "            pass\n"), "C10.sign")
    control(ctx, mod, "swap the orientation of the LT/GT wrappers",
            lambda s: variants.in_function(s, "sweetpea/_internal/core/cnf.py", "CNF.assert_k_less_than_n",
                                           "self._inequality_assertion(True, k, in_list)", "self._inequality_assertion(False, k, in_list)"), "C10.dispatch")
    control(ctx, mod, "drop a reverse in assert_k_of_n",
            lambda s: variants.in_function(s, "sweetpea/_internal/core/cnf.py", "CNF.assert_k_of_n",
                                           "        left_padded.reverse()\n", "        pass\n"), "C10.bit-order")
    control(ctx, mod, "EQ guard uses >=",
            lambda s: variants.in_function(s, "sweetpea/_internal/core/cnf.py", "CNF.assert_k_of_n",
                                           "if k > len(in_list):", "if k >= len(in_list):"), "C10.range")
    ctx.min_instances("C10.dispatch", 18)
    ctx.min_instances("C10.bit-order", 5)
    ctx.min_instances("C10.range", 3)
    ctx.min_instances("C10.sign", 3)
    ctx.min_instances("C10.defined", 6)
