"""C17 -- the mismatch checker accepts exactly the valid sequences."""
import ast
import sys

from ..astutil import call_attr, dotted, statements, calls
from ..cfg import CFG
from ..report import control
from ..siblings import Roles
from ..sym import Env, Poly, sym
from .. import variants
from . import C07

TECHNIQUE = "path rules on the mismatch entry points (all sub-checks on every path, unfiltered constraint iteration) plus the sibling comparison of C07 for the geometry the checker shares with the encoder"
EXPLANATION = """
Decides: (entry) sample_mismatch_experiment compares every key's length with the block's trial count and, when
the lengths agree, runs all three sub-checks (factors, constraints, crossings) unconditionally and reports each
non-empty result under its own key; (constraints) sample_mismatch_constraints iterates self.constraints without a
filter and reports a constraint exactly when its potential_sample_conforms is falsy; (factors)
sample_mismatch_factors visits every non-hidden factor at every sustain-th trial and conjoins test_trial, and
DerivedFactor.test_trial evaluates the predicate of the level actually present on the window arguments of
_trial_arguments, whose index term i + (j - (width-1)) * sustain agrees with the encoder's window shift
(idx + i * sustain * trial_size) on the quantities {width, sustain}; (crossing) the crossing facts F1-F4 of C07
for sample_mismatch_crossing against Cross.apply; (pairs) the per-constraint sibling pairs of C07, because the
checker calls the same potential_sample_conforms methods.
"""
NOT_DECIDED = "the 'if and only if' for arbitrary candidate sequences; name-to-object conversion of malformed samples."


def check(ctx):
    repo = ctx.repo
    R = "C17.entry"
    f = ctx.fn("main:sample_mismatch_experiment")
    rf = Roles(f)
    # length test over every key
    loops = [s for s in f.node.body if isinstance(s, ast.For)]
    ctx.require(len(loops) == 1 and dotted(loops[0].iter) == "sample", "%s: loop over the sample's keys not found" % f.fq)
    tests = [s for s in loops[0].body if isinstance(s, ast.If)]
    t = str(rf.at(tests[0], tests[0].test)) if tests else ""
    ctx.check(t == "(block.trials_per_sample() != len(sample[key]))", R, f, "length test %s" % t,
              "every key's length is compared with the block's trial count", "length test is `%s`" % t)
    gate = [s for s in f.node.body if isinstance(s, ast.If) and ast.unparse(s.test) == "not res"]
    ctx.require(len(gate) == 1, "%s: `if not res:` gate not found" % f.fq)
    want = {"sample_mismatch_factors": "factors", "sample_mismatch_constraints": "constraints", "sample_mismatch_crossing": "crossings"}
    top_assigns = {}
    for s in gate[0].body:
        if isinstance(s, ast.Assign) and isinstance(s.value, ast.Call) and call_attr(s.value) in want:
            top_assigns[call_attr(s.value)] = (s, dotted(s.targets[0]))
    for m, key in want.items():
        ok = m in top_assigns
        ctx.check(ok, R, f, "sub-check %s" % m, "%s runs unconditionally once the lengths agree" % m,
                  "%s is not called unconditionally inside the `if not res:` branch (a mismatch in one category must not "
                  "hide or skip another)" % m)
        if not ok:
            continue
        s, var = top_assigns[m]
        args = [ast.unparse(a) for a in s.value.args]
        ctx.check(args[:1] == ["sample"] and dotted(s.value.func.value) == "block", R, f, "%s(%s)" % (m, args),
                  "%s checks the caller's sample on the caller's block" % m, "%s is called as %s" % (m, ast.unparse(s.value)))
        rep = [x for x in gate[0].body if isinstance(x, ast.If) and dotted(x.test) == var]
        good = len(rep) == 1 and len(rep[0].body) == 1 and isinstance(rep[0].body[0], ast.Assign) and \
            ast.unparse(rep[0].body[0]) == "res['%s'] = %s" % (key, var)
        ctx.check(good, R, f, "report %s" % key, "non-empty %s result reported under '%s'" % (m, key),
                  "the result of %s is not reported under res['%s'] when non-empty" % (m, key))
    rets = [s for s in f.node.body if isinstance(s, ast.Return)]
    ctx.check(len(rets) == 1 and dotted(rets[0].value) == "res", R, f, "return res", "returns the collected mismatches", "does not return res")

    # ---- constraints
    R = "C17.constraints"
    f = ctx.fn("cross_block:MultiCrossBlockRepeat.sample_mismatch_constraints")
    rf = Roles(f)
    lp = [l for l in rf.for_loops()]
    ctx.check(len(lp) == 1 and str(lp[0]["iter"]) == "self.constraints", R, f, "iteration %s" % [str(l["iter"]) for l in lp],
              "every constraint of the block is consulted", "sample_mismatch_constraints iterates %s, not all of self.constraints" % [str(l["iter"]) for l in lp])
    from ..facts import Facts as _F2
    Fm = _F2(f)
    reports = [x for x in Fm.stmts if isinstance(x, ast.Expr) and isinstance(x.value, ast.Call) and call_attr(x.value) == "append" and lp and any(x is y for y in ast.walk(lp[0]["stmt"]))]
    cds = [Fm.conds(x) for x in reports]
    ctx.check(len(reports) == 1 and cds[0] == ["not(constraint.potential_sample_conforms(convert_sample_from_names_to_objects(sample, self.design), self))"],
              R, f, "test", "a constraint is reported exactly when potential_sample_conforms is falsy",
              "the constraint test changed: a constraint is reported under %s" % cds)
    apps = [c for c, st in rf.calls_named("append") if dotted(c.func.value) == "res"]
    ctx.check(len(apps) == 1 and ast.unparse([s for s in f.node.body if isinstance(s, ast.Return)][0]) == "return res", R, f,
              "report", "failing constraints are appended to the returned list", "reporting of failing constraints changed")

    # ---- factors
    R = "C17.factors"
    f = ctx.fn("cross_block:MultiCrossBlockRepeat.sample_mismatch_factors")
    rf = Roles(f)
    lp = rf.for_loops()
    its = [str(l["iter"]) for l in lp]
    ctx.check(its[:1] == ["self.design"] and "range(0, len(convert_sample_from_names_to_objects(sample, self.design)[factor]), self.sustain_count(factor))" in its,
              R, f, "loops %s" % its, "every factor at every sustain-th trial", "sample_mismatch_factors loops are %s" % its)
    hid = [s for s in rf.stmts if isinstance(s, ast.If) and "HiddenName" in ast.unparse(s.test)]
    # canonical path condition of the test_trial call: exactly `the factor's name is not hidden` (nested if or guard clause with continue)
    from ..facts import Facts as _F17
    F17 = _F17(f)
    tt_ = [x for x in F17.stmts if not isinstance(x, (ast.For, ast.If, ast.While)) and any(isinstance(c_, ast.Call) and call_attr(c_) == "test_trial" for c_ in ast.walk(x))]
    ctx.check(len(hid) == 1 and len(tt_) == 1 and F17.conds(tt_[0]) == ["not(isinstance(factor.name, HiddenName))"], R, f, "hidden",
              "only library-internal (hidden) factors are skipped", "the hidden-factor filter changed: test_trial runs under %s" % (F17.conds(tt_[0]) if tt_ else "?"))
    tt = _one_call(ctx, rf, "test_trial", f)
    ctx.check(str(rf.at(tt[1], tt[0])) == "factor.test_trial(i, convert_sample_from_names_to_objects(sample, self.design), self.sustain_count(factor))" and
              isinstance(tt[1], ast.AugAssign) and isinstance(tt[1].op, ast.BitAnd), R, f, "test_trial", "test_trial results are conjoined",
              "test_trial call or its conjunction changed: %s" % ast.unparse(tt[1]))
    fail = [s for s in rf.stmts if isinstance(s, ast.If) and ast.unparse(s.test) == "not factor_test"]
    ctx.check(len(fail) == 1 and ast.unparse(fail[0].body[0]) == "res.append(factor.name)", R, f, "report",
              "a factor with a failing trial is reported", "reporting of failing factors changed")
    f = ctx.fn("primitive:DerivedFactor.test_trial")
    rf = Roles(f)
    # the predicate is evaluated under the path condition "this level is the one present at the trial" (an if around it, or a guard
    # `if not (..): continue` before it)
    from ..facts import Facts as _Facts
    F17t = _Facts(f)
    pr_ = [s for s in F17t.stmts if isinstance(s, ast.AugAssign) and "predicate" in ast.unparse(s.value)]
    pc = sorted(F17t.conds(pr_[0])) if len(pr_) == 1 else None
    ctx.check(pc == ["(level == trial_sequence[self][i])"], R, f, "level present",
              "the predicate of the level actually present is evaluated", "DerivedFactor.test_trial evaluates the predicate under `%s`" % pc)
    ta = _one_call(ctx, rf, "_trial_arguments", f)
    ctx.check(str(rf.at(ta[1], ta[0])) == "level._trial_arguments(trial_sequence, i, sustain_count)", R, f, "arguments",
              "window arguments of the trial under test", "_trial_arguments call changed: %s" % rf.at(ta[1], ta[0]))
    pr = [s for s in rf.stmts if isinstance(s, ast.AugAssign)]
    ctx.check(len(pr) == 1 and isinstance(pr[0].op, ast.BitAnd) and ast.unparse(pr[0].value) == "level.window.predicate(*args)", R, f,
              "predicate", "the level's predicate must hold", "predicate evaluation changed")
    f = ctx.fn("primitive:DerivedLevel._trial_arguments")
    rf = Roles(f)
    idx = [s for s in rf.stmts if isinstance(s, ast.Assign) and dotted(s.targets[0]) == "idx"]
    ctx.require(len(idx) == 1, "%s: idx computation not found" % f.fq)
    got = rf.at(idx[0], idx[0].value)
    want_ = sym(ast.parse("i + (j - (self.window.width - 1)) * sustain_count", mode="eval").body)
    ctx.check(got == want_, R, f, "window index %s" % got, "argument j of the window is read at i + (j - (width-1)) x sustain",
              "window index is `%s`, expected i + (j - (width-1)) * sustain_count" % got, idx[0])
    # what is appended for position j: the level name at idx when idx >= 0, None otherwise (statement or expression form)
    from ..facts import Facts as _F
    Ff = _F(f)
    apps = [x for x in Ff.stmts if isinstance(x, ast.Expr) and isinstance(x.value, ast.Call) and dotted(x.value.func) == "args.append"]
    I = str(got)
    forms = sorted((tuple(c.replace(I, "idx") for c in Ff.conds(x)), str(Ff.at(x, x.value.args[0])).replace(I, "idx")) for x in apps)
    ok = forms == [(("(0 <= idx)",), "sample[f][idx].name"), (("(idx < 0)",), "None")] or \
        forms == [((), "ite((0 <= idx), sample[f][idx].name, None)")] or forms == [((), "ite((idx < 0), None, sample[f][idx].name)")]
    ctx.check(ok, R, f, "before start", "positions before the sequence start give None", "handling of positions before the first trial changed: %s" % forms)
    jl = [l for l in rf.for_loops() if l["target"] == "j"]
    ctx.check(len(jl) == 1 and str(jl[0]["iter"]) == "range(self.window.width)", R, f, "width loop", "all width positions are read",
              "window positions loop is %s" % [str(l["iter"]) for l in jl])
    sw = ctx.fn("derivation_processor:DerivationProcessor.shift_window")
    rs = Roles(sw)
    app = [c for c, st in rs.calls_named("append") if "sustain_count" in ast.unparse(c) and len(c.args) == 1]
    ctx.require(len(app) == 1, "%s: shifted index append not found" % sw.fq)
    t = str(sym(app[0].args[0]))
    # the enumerate loop that holds the append names the position and the element
    enc_ = [l_ for l_ in statements(sw.node) if isinstance(l_, ast.For) and isinstance(l_.iter, ast.Call) and dotted(l_.iter.func) == "enumerate" and
            isinstance(l_.target, ast.Tuple) and len(l_.target.elts) == 2 and any(x_ is app[0] for x_ in ast.walk(l_))]
    if enc_ and all(isinstance(e_, ast.Name) for e_ in enc_[-1].target.elts):
        t = str(sym(app[0].args[0], Env(rename={enc_[-1].target.elts[0].id: "i", enc_[-1].target.elts[1].id: "idx"})))
    ctx.check(t == "idx + i*sustain_count*trial_size", R, sw, "encoder shift %s" % t,
              "encoder shifts window position i by i x sustain x trial_size (same {width, sustain} dependence as the checker)",
              "shift_window shifts by `%s`" % t, app[0])

    # ---- crossing facts and constraint pairs shared with C07
    C07.crossing_facts(ctx, R="C17.crossing")
    C07.pair_sequential(ctx, R="C17.pair")
    C07.pair_latin(ctx, R="C17.pair")
    C07.pair_sustain(ctx, R="C17.pair")
    C07.pair_pin(ctx, R="C17.pair")
    C07.pair_exclude(ctx, R="C17.pair")
    C07.pair_kinarow(ctx, R="C17.pair")

    # name -> object conversion keeps positions
    f = ctx.fn("sample_conversion:convert_sample_from_names_to_objects")
    rf = Roles(f)
    comp = [s for s in rf.stmts if isinstance(s, ast.Assign) and dotted(s.targets[0]) == "value"]
    t = str(rf.at(comp[0], comp[0].value)) if comp else ""
    ctx.check(t == "[_convert_form_name_to_level(_b0, _convert_from_name_to_factor(factor_name, design)) for _b0 in sample[factor_name]]",
              "C17.factors", f, "conversion", "level names are converted position by position", "sample conversion is `%s`" % t)

    mod = sys.modules[__name__]
    control(ctx, mod, "skip Pin in sample_mismatch_constraints",
            lambda s: variants.in_function(s, "sweetpea/_internal/cross_block.py", "MultiCrossBlockRepeat.sample_mismatch_constraints",
                                           "for constraint in self.constraints:", "for constraint in self.constraints[1:]:"),
            "C17.constraints")
    control(ctx, mod, "crossing check only when constraints passed",
            lambda s: variants.in_function(s, "sweetpea/_internal/main.py", "sample_mismatch_experiment",
                                           "        crossing_errors = block.sample_mismatch_crossing(sample)\n        if crossing_errors:\n            res['crossings'] = crossing_errors",
                                           "        if not constraint_errors:\n            crossing_errors = block.sample_mismatch_crossing(sample)\n            if crossing_errors:\n                res['crossings'] = crossing_errors"),
            "C17.entry")
    ctx.min_instances("C17.entry", 9)
    ctx.min_instances("C17.pair", 45)
    ctx.min_instances("C17.crossing", 14)
    ctx.min_instances("C17.factors", 10)


def _one_call(ctx, roles, name, f):
    cs = roles.calls_named(name)
    ctx.require(len(cs) == 1, "%s: expected one %s call, found %d" % (f.fq, name, len(cs)))
    return cs[0]
