"""C18 -- reusing factor and constraint objects across blocks does not change meaning."""
import ast

from ..astutil import call_attr, dotted, statements, calls, walk_body, names_in
from ..callgraph import CallGraph
from ..cfg import CFG
from ..effects import Effects
from ..report import control
from .. import variants

TECHNIQUE = "ownership / effect analysis: writes on constraint and factor objects reachable from block constructors must target block-owned copies"
EXPLANATION = """
Decides the ownership clause: block construction never stores state on caller-owned objects.  (own) In
MultiCrossBlockRepeat._create the `constraints` parameter is re-bound to a list of fresh copies (copy.copy /
deepcopy of every element) by a statement that dominates every other use of the parameter, so everything that is
derived from it (orig_constraints, the desugared constraints) is block-owned.  (mutators) Every method of the
Constraint family that writes attributes of `self` outside a constructor is a *mutator*; every call site of a
mutator must have a receiver that is block-owned: an element of self.constraints / self.orig_constraints inside a
Block-family method, a fresh copy made in the same function, or self/super() inside the family.  (deep) No
Constraint-family method mutates a container held in an attribute in place (shallow copies share it).  (external)
Outside the family, attribute stores on constraint / factor / level objects reachable from the five block
constructors are allowed only on block-owned or fresh receivers; Factor construction adopting fresh levels is the
one frozen exception.
"""
NOT_DECIDED = ("equality of the sequence sets of a block built from shared and from fresh objects (a runtime fact); "
               "sharing of Factor/Level objects is by design and they are not written after construction.")

CONSTRUCTORS = ["MultiCrossBlockRepeat", "MultiCrossBlock", "CrossBlock", "Nest", "Merge", "Repeat"]
COPY_FUNCS = {"copy.copy", "copy.deepcopy", "deepcopy", "copy"}
OWNED_ATTRS = {"self.constraints", "self.orig_constraints"}


def _is_copy_comp(v: ast.AST, of: str) -> bool:
    """[copy.copy(x) for x in <of>]  |  list(map(copy.copy, <of>))"""
    if isinstance(v, ast.ListComp) and len(v.generators) == 1:
        g = v.generators[0]
        if dotted(g.iter) == of and isinstance(g.target, ast.Name) and not g.ifs:
            e = v.elt
            if isinstance(e, ast.Call) and dotted(e.func) in COPY_FUNCS and len(e.args) >= 1 \
                    and isinstance(e.args[0], ast.Name) and e.args[0].id == g.target.id:
                return True
    if isinstance(v, ast.Call) and dotted(v.func) == "list" and len(v.args) == 1:
        m = v.args[0]
        if isinstance(m, ast.Call) and dotted(m.func) == "map" and len(m.args) == 2 and dotted(m.args[0]) in COPY_FUNCS \
                and dotted(m.args[1]) == of:
            return True
    return False


def check(ctx):
    repo = ctx.repo
    cg = CallGraph(repo)
    ef = Effects(repo, cg)
    base = repo.cls("base_constraint:Constraint")
    fam = {base.fq: base}
    for c in base.all_subclasses():
        fam[c.fq] = c
    blockbase = repo.cls("block:Block")
    blockfam = {blockbase.fq} | {c.fq for c in blockbase.all_subclasses()}

    # ------------------------------------------------------------------ (own)
    create = ctx.fn("cross_block:MultiCrossBlockRepeat._create")
    ctx.require("constraints" in create.params, "_create lost its 'constraints' parameter")
    g = CFG(create.node)
    copy_stmts = [st for st in create.node.body if isinstance(st, ast.Assign) and len(st.targets) == 1
                  and dotted(st.targets[0]) == "constraints" and _is_copy_comp(st.value, "constraints")]
    uses = []
    for st in statements(create.node):
        if st in copy_stmts:
            continue
        own = []
        for name, val in ast.iter_fields(st):
            if name in ("body", "orelse", "finalbody", "handlers"):
                continue
            vals = val if isinstance(val, list) else [val]
            for v in vals:
                if isinstance(v, ast.AST):
                    own += [n for n in ast.walk(v) if isinstance(n, ast.Name) and n.id == "constraints"]
        if own:
            uses.append(st)
    if not copy_stmts:
        ctx.bad("C18.own", create, "constraints not copied",
                "_create uses the caller's constraint objects directly: the `constraints` parameter is not re-bound to "
                "fresh copies, so init_within_block / sustain_within_block / validation state lands on objects the "
                "caller may reuse for another block", create.node)
    else:
        cp = g.node_of(copy_stmts[0])
        late = [u for u in uses if not g.dominates(cp, g.node_of(u))]
        ctx.check(not late, "C18.own", create, "use before copy",
                  "copying `constraints` dominates all %d other uses of the parameter" % len(uses),
                  "`constraints` is used before / on a path around the statement that copies it: %s" % (
                      ast.unparse(late[0]).split("\n")[0] if late else ""), late[0] if late else copy_stmts[0])

    # ------------------------------------------------------------------ mutators of the family
    mutators = {}
    for c in fam.values():
        for name, f in c.methods.items():
            if name in ("__init__", "__post_init__", "__new__", "__deepcopy__", "__copy__"):
                continue
            if name.startswith("__") and not name.endswith("__"):
                # a private helper that is called from the class's constructor only is part of construction
                users = [g for g in c.methods.values() if g is not f and
                         any(call_attr(k) == name for k in calls(g.node))]
                if users and all(g.name in ("__init__", "__post_init__") for g in users):
                    continue
            ws = [w for w in ef.writes(f) if w.root_kind == "self"]
            deep = [w for w in ef.writes(f) if w.root_kind == "self" and (w.kind.startswith("mutcall") or w.kind == "subscript")]
            for w in deep:
                ctx.bad("C18.deep", f, w.text(), "%s mutates a container attribute in place; shallow copies of the "
                        "constraint share it with the caller's object" % f.fq, w.node)
            if ws:
                mutators.setdefault(name, []).append(f)
    ctx.require({"init_within_block", "sustain_within_block"} <= set(mutators),
                "expected init_within_block and sustain_within_block among the constraint mutators, found %s" % sorted(mutators))
    for name, fs in sorted(mutators.items()):
        ctx.ok("C18.mutator", fs[0], "mutator method '%s' defined by %s" % (name, ", ".join(f.cls.name for f in fs)))
    allowed_mut = {"init_within_block", "sustain_within_block"}
    for name in sorted(set(mutators) - allowed_mut):
        for f in mutators[name]:
            ctx.bad("C18.mutator", f, "self-write in %s" % name,
                    "%s writes attributes of the constraint outside construction and outside the geometry mutators; "
                    "it runs on every block that uses the object" % f.fq, f.node)

    # ------------------------------------------------------------------ call sites of mutators
    n_sites = 0
    for f in repo.all_functions:
        sites = [c for c in calls(f.node) if call_attr(c) in allowed_mut and isinstance(c.func, ast.Attribute)]
        if not sites:
            continue
        repo.note_consulted(f)
        writes_alias = {}
        for c in sites:
            n_sites += 1
            recv = c.func.value
            rtxt = ast.unparse(recv)
            ok, why = _owned_receiver(repo, f, recv, fam, blockfam)
            ctx.check(ok, "C18.callsite", f, "%s.%s()" % (rtxt, c.func.attr),
                      "%s.%s(): receiver %s" % (rtxt, c.func.attr, why),
                      "%s.%s() is applied to an object that is not block-owned (%s): the caller's constraint object "
                      "would carry this block's geometry into the next block built from it" % (rtxt, c.func.attr, why), c)
    ctx.require(n_sites >= 5, "only %d call sites of the geometry mutators found" % n_sites)

    # ------------------------------------------------------------------ external writes reachable from constructors
    roots = [ctx.fn("cross_block:%s.__init__" % c) for c in CONSTRUCTORS]
    reach = cg.reachable(roots)
    ctx.extra["reachable_from_constructors"] = len(reach)
    prim = repo.module("primitive")
    guarded = {"Level", "SimpleLevel", "DerivedLevel", "ElseLevel", "Factor", "SimpleFactor", "DerivedFactor",
               "ContinuousFactor", "Window", "WithinTrial", "Transition"}
    for fq, (f, e) in sorted(reach.items()):
        for w in ef.writes(f):
            if w.root_kind in ("fresh", "self") or w.attr == "<itself>":
                continue
            if w.cls is not None and (w.cls.fq in blockfam or w.cls.name in ("BackendRequest", "BlockGeometry")):
                continue
            if w.root.split(".")[0] in ("self",) and w.root_kind.startswith("attr"):
                # self.x.y = ... inside a block or enumerator: receiver is a component of the object itself
                pass
            # candidate: a store on some other object
            is_user = (w.cls is not None and (w.cls.fq in fam or w.cls.name in guarded)) or w.cls is None
            if not is_user:
                continue
            if w.cls is None and w.root_kind in ("param", "local") and f.cls is None and f.module.short not in (
                    "cross_block", "block", "constraint", "primitive", "derivation_processor"):
                continue
            ok, why = _external_ok(f, w, blockfam)
            ctx.check(ok, "C18.external", f, w.text(), "store %s: %s" % (w.text(), why),
                      "block construction stores %s on an object it does not own (%s); path %s" % (
                          w.text(), why, " -> ".join(cg.path_to(reach, f.fq))), w.node)

    # ------------------------------------------------------------------ positive controls
    import sys
    # argument blocks and argument lists are read-only for every constructor (shared with C24)
    from . import C24
    C24.rule_readonly(ctx, R="C18.read-only")

    # a block reused in Repeat / Merge / Nest keeps its constraints' captured windows only if a constraint rebuilt during weight
    # desugaring carries that state over (C23's field-carry rule, evaluated here as C18.carry)
    from . import C23 as _C23
    _C23.rule_carry(ctx, R="C18.carry")

    mod = sys.modules[__name__]
    control(ctx, mod, "drop the copy in _create",
            lambda s: variants.in_function(s, "sweetpea/_internal/cross_block.py", "MultiCrossBlockRepeat._create",
                                           "constraints = [copy.copy(ct) for ct in constraints]", "constraints = list(constraints)"),
            "C18.own")
    control(ctx, mod, "sustain the outer block's own constraint objects in Nest",
            lambda s: variants.in_function(s, "sweetpea/_internal/cross_block.py", "Nest.__init__",
                                           "[copy.copy(ct) for ct in outer_block.orig_constraints]",
                                           "[ct for ct in outer_block.orig_constraints]"),
            "C18.callsite")
    ctx.min_instances("C18.callsite", 5)
    ctx.min_instances("C18.own", 1)
    ctx.min_instances("C18.read-only", 7)


def _owned_receiver(repo, f, recv, fam, blockfam):
    # super().m() / self.m() inside the family
    if isinstance(recv, ast.Call) and dotted(recv.func) == "super":
        return (f.cls is not None and f.cls.fq in fam), "super() delegation inside the family"
    if isinstance(recv, ast.Name):
        top = f
        while top.parent is not None:
            top = top.parent
        if top.cls is not None and top.cls.fq in fam and not isinstance(top.node, ast.Lambda) and top.node.args.args \
                and recv.id == top.node.args.args[0].arg:
            return True, "self inside the family"
        # loop element
        for st in statements(f.node):
            if isinstance(st, ast.For) and isinstance(st.target, ast.Name) and st.target.id == recv.id:
                it = dotted(st.iter)
                if it in OWNED_ATTRS and f.cls is not None and f.cls.fq in blockfam:
                    return True, "element of %s (block-owned copies)" % it
                if it:
                    # local list of fresh copies
                    defs = [s for s in statements(f.node) if isinstance(s, ast.Assign) and len(s.targets) == 1
                            and dotted(s.targets[0]) == it]
                    if len(defs) == 1 and isinstance(defs[0].value, ast.ListComp):
                        e = defs[0].value.elt
                        if isinstance(e, ast.Call) and dotted(e.func) in COPY_FUNCS:
                            return True, "element of %s, a list of fresh copies" % it
                    return False, "element of %s" % it
        # direct fresh local
        defs = [s for s in statements(f.node) if isinstance(s, ast.Assign) and len(s.targets) == 1
                and dotted(s.targets[0]) == recv.id]
        if defs and all(isinstance(s.value, ast.Call) and (dotted(s.value.func) in COPY_FUNCS or
                                                          repo.resolve_class_expr(f.module, s.value.func) is not None)
                        for s in defs):
            return True, "fresh object created in this function"
        return False, "provenance of '%s' unknown" % recv.id
    return False, "receiver expression %s" % ast.unparse(recv)


def _external_ok(f, w, blockfam):
    root = w.root
    if root.startswith("elem(") and root[5:].split(")")[0] in OWNED_ATTRS and f.cls is not None and f.cls.fq in blockfam:
        return True, "element of a block-owned constraint list"
    if f.name in ("__post_init__", "__new__", "__init__", "__deepcopy__") and f.cls is not None and \
            f.cls.name in ("Factor", "SimpleFactor", "DerivedFactor", "ContinuousFactor", "Level", "SimpleLevel",
                           "DerivedLevel", "ElseLevel"):
        return True, "factor/level construction adopting its own fresh parts (Factor.__post_init__ refuses levels that already belong to a factor)"
    if w.root_kind == "local" and w.via is None and w.cls is None:
        # a plain local whose definitions are not all recognised as fresh
        return False, "local object of unknown provenance"
    return False, "receiver %s (%s)" % (root, w.root_kind)
