"""C29 -- SMGen either refuses a design or returns valid sequences."""
import ast
import sys

from ..astutil import call_attr, dotted, statements, isinstance_disjuncts, calls
from ..callgraph import CallGraph
from ..cfg import CFG
from ..report import control
from .. import variants
from ..registry import concrete
from ..model import AnalysisError

TECHNIQUE = "class-family registry vs isinstance refusal chain (exhaustiveness check on the AST)"
EXPLANATION = """
Decides the exhaustiveness clause: every concrete class of the Constraint family is (a) covered, through
inheritance, by the isinstance refusal chain of SMGen.sample whose body always raises, or (b) in the frozen
'honoured' table together with the construct that honours it (MinimumTrials <- crossing_weight() /
trials_per_sample() scaling), or (c) in the frozen 'internal' table (Cross, Consistency, Derivation: regenerated
by the scattered-map encoding; Reify, ContinuousConstraint: not predicates on the discrete sequence).  Block
kinds: multi-crossing blocks are refused by a test on len(block.crossings) whose body always raises.  A new
constraint class, or a class dropped from the chain, is reported.  (reset) the scattered-map core's module state is
re-initialised between calls: every assignment of reset_state rebinds a declared global, every module global written by
the core is among them, and SMGen.sample calls reset_state before any encoding call.  (answer length) the construction of
the returned SamplingResult is dominated by a refusing branch that compares every returned column with
block.trials_per_sample().  (table) the transition-level table of the scattered-map core is written and read with one
orientation: [previous level][current level], decided from def-use (the writer's predicate window slots, the row that receives
or is compared with each reader's answer).
"""
NOT_DECIDED = ("validity of what the scattered-map search returns for supported designs, including the trial count "
               "when a MinimumTrials is met by Repeat (a runtime quantity).")

INTERNAL = {
    "Cross": "crossing is re-encoded by define_cross()",
    "Consistency": "one level per factor is inherent in the scattered-map representation",
    "Derivation": "derived levels are re-encoded from the factors' windows",
    "Reify": "only makes a factor non-implied for the SAT encoding",
    "ContinuousConstraint": "continuous values are sampled after the discrete search (C22)",
}
HONOURED = {"MinimumTrials": ("crossing_weight", "trials_per_sample")}


def _always_raises_call(repo, mod, call: ast.Call) -> bool:
    name = dotted(call.func)
    if name and "." not in name:
        r = repo.resolve_name(mod, name)
        if hasattr(r, "node") and not hasattr(r, "methods"):
            g = CFG(r.node)
            return len(g.exit.pred) == 0
    return False


def _body_refuses(repo, mod, body) -> bool:
    for st in body:
        if isinstance(st, ast.Raise):
            return True
        if isinstance(st, ast.Expr) and isinstance(st.value, ast.Call) and _always_raises_call(repo, mod, st.value):
            return True
    return False


_MUT = {"append", "extend", "insert", "pop", "remove", "clear", "sort", "reverse", "update", "add", "setdefault"}


def rule_reset(ctx):
    """The scattered-map core keeps the encoded experiment in module globals.  A second SMGen call is independent of the
    first only if (a) every assignment in reset_state really rebinds the module global (the name is declared `global`
    there; otherwise the assignment creates a dead local and the old value survives), (b) every module global that some
    function rebinds or mutates in place is reset, (c) SMGen.sample calls reset_state before it encodes the experiment."""
    R = "C29.reset"
    mod = ctx.repo.module("scattered_map_core")
    tree = mod.tree if hasattr(mod, "tree") else ast.parse(mod.src)
    modnames = set()
    for st in tree.body:
        if isinstance(st, (ast.Assign, ast.AugAssign, ast.AnnAssign)):
            for tg in (st.targets if isinstance(st, ast.Assign) else [st.target]):
                modnames |= {n.id for n in ast.walk(tg) if isinstance(n, ast.Name)}
    info = {}
    for fn in [x for x in tree.body if isinstance(x, ast.FunctionDef)]:
        g, assigned, mutated = set(), set(), set()
        for n in ast.walk(fn):
            if isinstance(n, ast.Global):
                g |= set(n.names)
        locs = {a.arg for a in fn.args.args}
        for n in ast.walk(fn):
            if isinstance(n, (ast.Assign, ast.AugAssign)):
                for tg in (n.targets if isinstance(n, ast.Assign) else [n.target]):
                    for e in (tg.elts if isinstance(tg, (ast.Tuple, ast.List)) else [tg]):
                        if isinstance(e, ast.Name):
                            assigned.add(e.id)
                        elif isinstance(e, ast.Subscript):
                            b = e
                            while isinstance(b, ast.Subscript):
                                b = b.value
                            if isinstance(b, ast.Name):
                                mutated.add(b.id)
            if isinstance(n, ast.Call) and isinstance(n.func, ast.Attribute) and n.func.attr in _MUT:
                b = n.func.value
                while isinstance(b, ast.Subscript):
                    b = b.value
                if isinstance(b, ast.Name):
                    mutated.add(b.id)
        localnames = (assigned - g) | locs
        info[fn.name] = (g, assigned, {m_ for m_ in mutated if m_ in modnames and m_ not in localnames}, fn)
    ctx.require("reset_state" in info, "scattered_map_core.reset_state not found")
    rs = ctx.fn("scattered_map_core:reset_state")
    rg, ra, _m, rnode = info["reset_state"]
    ctx.require(len(ra) >= 20, "reset_state assigns only %d names" % len(ra))
    dead = sorted(ra - rg)
    ctx.check(not dead, R, rs, "reset assignments rebind globals (%d)" % len(ra), "every name assigned in reset_state is declared global there",
              "reset_state assigns %s without declaring %s global: the assignment creates a local and the module state of the previous SMGen run survives "
              "(stale weights / factors leak into the next call)" % (dead, "them" if len(dead) > 1 else "it"), rnode)
    written = set()
    for k, (g, a, m_, _fn) in info.items():
        if k != "reset_state":
            written |= (g & a) | m_
    missing = sorted((written & modnames) - (ra & rg))
    ctx.check(not missing, R, rs, "every written module global is reset (%d written)" % len(written & modnames),
              "each module global that a function of the core rebinds or mutates in place is re-initialised by reset_state",
              "module globals %s are written by the scattered-map core but not re-initialised by reset_state" % missing, rnode)
    sm = ctx.fn("smgen:SMGen.sample")
    g_ = CFG(sm.node)
    rcalls = [st for st in statements(sm.node) if isinstance(st, ast.Expr) and isinstance(st.value, ast.Call) and dotted(st.value.func) == "reset_state"]
    enc = [st for st in statements(sm.node) if any(isinstance(c, ast.Call) and dotted(c.func) in ("encode_experiment", "add_primary", "add_wt", "add_transition", "define_cross") for c in ast.walk(st))
           and not isinstance(st, (ast.For, ast.If, ast.While, ast.Try, ast.With))]
    ctx.require(len(enc) >= 1, "SMGen.sample: encoding calls not found")
    ok = len(rcalls) == 1 and all(g_.dominates(g_.node_of(rcalls[0]), g_.node_of(e)) for e in enc)
    ctx.check(ok, R, sm, "reset before encoding (%d encoding statements)" % len(enc), "reset_state() dominates every call that encodes the experiment into the core",
              "SMGen.sample can encode an experiment into the scattered-map core without having reset it first", rcalls[0] if rcalls else sm.node)


def _blocks(fn_node):
    """every statement list of a function (nested functions included)"""
    for node in ast.walk(fn_node):
        for fld in ("body", "orelse", "finalbody"):
            b = getattr(node, fld, None)
            if isinstance(b, list) and b and isinstance(b[0], ast.stmt):
                yield b


def _last_def(block, upto, name):
    """value of the last plain assignment to `name` among block[:upto]"""
    for st in reversed(block[:upto]):
        if isinstance(st, ast.Assign) and len(st.targets) == 1 and isinstance(st.targets[0], ast.Name) and st.targets[0].id == name:
            return st.value
    return None


def _row_of(block, upto, e):
    """`ROW[cell]` behind an index expression (a local name is followed once); returns (row text, cell text)"""
    if isinstance(e, ast.Name):
        e = _last_def(block, upto, e.id)
    if isinstance(e, ast.Subscript):
        return ast.unparse(e.value), ast.unparse(e.slice)
    return None


def rule_transition_table(ctx, R="C29.table"):
    """The level of a transition factor is tabulated once (execute) and looked up by the search and by both result checkers.
    Orientation of the square table, decided from def-use: the writer's second index is the level it passes as the window's
    index 0 (the current trial), its first index the level passed as index -1 (the previous trial); every reader's second index
    is read from the row that receives, or is compared with, the looked-up answer (the current trial's row), its first index from
    another row at the same cell."""
    mod = ctx.repo.module("scattered_map_core") if hasattr(ctx.repo, "module") else None
    ex = ctx.fn("scattered_map_core:execute")
    n = 0
    # ---- writer
    for b in _blocks(ex.node):
        for i, st in enumerate(b):
            if not (isinstance(st, ast.Assign) and len(st.targets) == 1 and isinstance(st.targets[0], ast.Subscript) and
                    isinstance(st.targets[0].value, ast.Subscript) and isinstance(st.targets[0].value.value, ast.Name)):
                continue
            t = st.targets[0]
            base = t.value.value.id
            holders = {dotted(x.value) for x in ast.walk(ex.node) if isinstance(x, ast.Assign) and len(x.targets) == 1 and dotted(x.targets[0]) == "asg_vf" and
                       isinstance(x.value, ast.Name)}
            if not any(isinstance(c, ast.Call) and call_attr(c) == "append" and len(c.args) == 1 and dotted(c.args[0]) == base and dotted(c.func.value) in holders
                       for c in ast.walk(ex.node)):
                continue
            if not (isinstance(t.slice, ast.Name) and isinstance(t.value.slice, ast.Name)):
                continue
            first, second = t.value.slice.id, t.slice.id
            slots = {}
            for x in ast.walk(ast.Module(body=b[:i], type_ignores=[])):
                # the two-slot window handed to the predicate: W[0] = current level, W[-1] = previous level (any local name)
                if isinstance(x, ast.Assign) and len(x.targets) == 1 and isinstance(x.targets[0], ast.Subscript) and isinstance(x.targets[0].value, ast.Name):
                    k = ast.unparse(x.targets[0].slice)
                    r = _row_of(b, i, x.value)
                    if k in ("0", "-1") and r is not None:
                        slots[k] = r[1]
            if set(slots) != {"0", "-1"}:
                continue
            n += 1
            ctx.check(slots["0"] == second and slots["-1"] == first, R, ex, "transition table writer %s[%s][%s]" % (base, first, second),
                      "the table is written [previous level][current level]",
                      "execute() stores the transition level at %s[%s][%s], but the level indexed by `%s` is the one passed to the predicate as the window's index %s: "
                      "the table is transposed with respect to the readers that index it [previous][current]" % (
                          base, first, second, second, "0" if slots["0"] == second else "-1"), st)
    # ---- readers
    def is_lookup(v):
        return (isinstance(v, ast.Subscript) and isinstance(v.value, ast.Subscript) and isinstance(v.value.value, ast.Subscript) and
                dotted(v.value.value.value) == "asg_vf")
    for f in list(ctx.repo.all_functions):
        if f.module.short.split(".")[-1] != "scattered_map_core":
            continue
        for b in _blocks(f.node):
            for i, st in enumerate(b):
                # the statement's own expressions (not those of nested blocks)
                own = []
                for fld, val in ast.iter_fields(st):
                    if fld in ("body", "orelse", "finalbody", "handlers"):
                        continue
                    for x in (val if isinstance(val, list) else [val]):
                        if isinstance(x, ast.AST):
                            own += [y for y in ast.walk(x) if is_lookup(y)]
                for v in own:
                    ra, rb = _row_of(b, i, v.value.slice), _row_of(b, i, v.slice)
                    sink = None
                    if isinstance(st, ast.Assign) and len(st.targets) == 1 and st.value is v and isinstance(st.targets[0], ast.Subscript):
                        sink = ast.unparse(st.targets[0].value)            # ROW[cell] = table[..][..]
                    elif isinstance(st, ast.If) and isinstance(st.test, ast.Compare) and len(st.test.comparators) == 1 and \
                            any(x is v for x in (st.test.left, st.test.comparators[0])):
                        other = [x for x in (st.test.left, st.test.comparators[0]) if x is not v]
                        if isinstance(other[0], ast.Subscript):
                            sink = ast.unparse(other[0].value)             # if table[..][..] != ROW[cell]
                    elif isinstance(st, ast.Assign) and len(st.targets) == 1 and isinstance(st.targets[0], ast.Name) and st.value is v:
                        ans = st.targets[0].id
                        for later in b[i + 1:]:
                            if isinstance(later, ast.Assign) and len(later.targets) == 1 and isinstance(later.targets[0], ast.Subscript) and dotted(later.value) == ans:
                                sink = ast.unparse(later.targets[0].value)
                                break
                            if isinstance(later, ast.If) and isinstance(later.test, ast.Compare) and len(later.test.comparators) == 1:
                                sides = [later.test.left, later.test.comparators[0]]
                                if any(dotted(x) == ans for x in sides):
                                    other = [x for x in sides if dotted(x) != ans]
                                    if other and isinstance(other[0], ast.Subscript):
                                        sink = ast.unparse(other[0].value)
                                        break
                            if any(isinstance(x, ast.Name) and x.id == ans and isinstance(x.ctx, ast.Store) for x in ast.walk(later)):
                                break
                    if ra is None or rb is None or sink is None:
                        raise AnalysisError("%s: transition table lookup `%s` not understood (rows %s / %s, sink %s)" % (f.fq, ast.unparse(v), ra, rb, sink))
                    n += 1
                    ctx.check(rb[0] == sink and ra[0] != sink and ra[1] == rb[1], R, f, "transition table reader in %s" % f.name,
                              "the lookup is [other row][row that receives the answer] at one cell",
                              "%s looks the transition level up as `%s` with first index from `%s[%s]` and second index from `%s[%s]`, and the answer belongs to `%s`: the second "
                              "index must come from the row the answer belongs to (the current trial), the first from the previous trial's row, as the table is written" % (
                                  f.name, ast.unparse(v), ra[0], ra[1], rb[0], rb[1], sink), st)
    ctx.require(n >= 5, "transition table: only %d writer/reader sites found (1 writer and 4 readers confirmed by hand)" % n)


def check(ctx):
    repo = ctx.repo
    f = ctx.fn("smgen:SMGen.sample")
    mod = f.module
    base = repo.cls("base_constraint:Constraint")
    fam = [c for c in base.all_subclasses()]
    ctx.require(len(fam) >= 16, "Constraint family shrank to %d classes" % len(fam))

    # loop variable over block.constraints
    loops = [st for st in statements(f.node) if isinstance(st, ast.For) and dotted(st.iter) == "block.constraints"
             and isinstance(st.target, ast.Name)]
    ctx.require(len(loops) >= 1, "%s: no loop over block.constraints" % f.fq)
    refused = set()
    for lp in loops:
        var = lp.target.id
        for st in lp.body:
            if isinstance(st, ast.If):
                # a class tuple may be bound to a local name first: isinstance(c, unsupported)
                test = st.test
                local_tuples = {}
                for a in statements(f.node):
                    if isinstance(a, ast.Assign) and len(a.targets) == 1 and isinstance(a.targets[0], ast.Name) and isinstance(a.value, ast.Tuple):
                        local_tuples.setdefault(a.targets[0].id, []).append(a.value)

                class _Subst(ast.NodeTransformer):
                    def visit_Call(self, node):
                        self.generic_visit(node)
                        if isinstance(node.func, ast.Name) and node.func.id == "isinstance" and len(node.args) == 2 and isinstance(node.args[1], ast.Name) \
                                and len(local_tuples.get(node.args[1].id, [])) == 1:
                            return ast.Call(func=node.func, args=[node.args[0], local_tuples[node.args[1].id][0]], keywords=[])
                        return node
                import copy as _copy
                test = ast.fix_missing_locations(_Subst().visit(_copy.deepcopy(test)))
                ds = [(x, cs) for x, cs in isinstance_disjuncts(test) if x == var]
                if ds and _body_refuses(repo, mod, st.body):
                    for _, cs in ds:
                        for cn in cs:
                            c = repo.resolve_class_expr(mod, ast.parse(cn, mode="eval").body)
                            ctx.require(c is not None, "%s: refused class %s does not resolve" % (f.fq, cn))
                            refused.add(c.fq)
                            for s in c.all_subclasses():
                                refused.add(s.fq)
                            ctx.ok("C29.refusal", f, "refuses %s (and subclasses)" % cn, st)
                elif ds:
                    ctx.bad("C29.refusal", f, "isinstance chain body", "the isinstance chain on constraints does not "
                            "end in the unsupported-feature error", st)
    ctx.require(refused, "%s: no refusal chain found" % f.fq)

    called = {call_attr(c) for c in calls(f.node)}
    for c in sorted(fam, key=lambda c: c.name):
        if not concrete(c):
            ctx.ok("C29.registry", c, "%s is abstract" % c.name, trivial=True)
            continue
        if c.fq in refused:
            ctx.ok("C29.registry", c, "%s refused" % c.name)
        elif c.name in HONOURED:
            need = HONOURED[c.name]
            ctx.check(all(n in called for n in need), "C29.registry", f, "%s honoured-by %s" % (c.name, need),
                      "%s honoured through %s" % (c.name, "/".join(need)),
                      "%s is in the honoured table but SMGen.sample no longer calls %s" % (c.name, need))
        elif c.name in INTERNAL:
            ctx.ok("C29.registry", c, "%s internal: %s" % (c.name, INTERNAL[c.name]))
            ctx.exception(c.name, INTERNAL[c.name])
        else:
            ctx.bad("C29.registry", f, "unhandled %s" % c.name,
                    "constraint class %s is neither refused by SMGen.sample nor honoured nor internal: "
                    "SMGen would silently ignore it" % c.fq, loops[0])

    # block kinds: multiple crossings refused
    ok = False
    for st in statements(f.node):
        if isinstance(st, ast.If) and "len(block.crossings)" in ast.unparse(st.test) and _body_refuses(repo, mod, st.body):
            t = ast.unparse(st.test).replace(" ", "")
            if t in ("len(block.crossings)!=1", "len(block.crossings)>1", "notlen(block.crossings)==1", "1!=len(block.crossings)"):
                ok = True
                node = st
    ctx.check(ok, "C29.block-kind", f, "len(block.crossings) != 1", "multi-crossing blocks are refused",
              "SMGen.sample no longer refuses blocks whose number of crossings differs from 1")
    # ---- trial count: SMGen encodes a larger trial count only by weighting the levels of one factor; whatever else makes a block
    # longer (repeated crossings, an uncrossed factor carrying the weight) is not modelled.  The answer must therefore be compared
    # with block.trials_per_sample() and refused when it differs: the construction of the returned SamplingResult is dominated by
    # a refusing branch whose test measures every returned column against the block's trial count
    from ..facts import Facts
    F_ = Facts(f)
    g_ = CFG(f.node)
    outs = [st for st in F_.stmts if not isinstance(st, (ast.For, ast.If, ast.While, ast.Try, ast.With)) and
            any(isinstance(c_, ast.Call) and dotted(c_.func) == "SamplingResult" for c_ in ast.walk(st))]
    ctx.require(len(outs) >= 1, "SMGen.sample: construction of the SamplingResult not found")
    guards = []
    for st in statements(f.node):
        if isinstance(st, ast.If) and _body_refuses(repo, mod, st.body):
            t = str(F_.at(st, st.test))
            if "block.trials_per_sample()" in t and "len(" in t and "execute(" in t:
                guards.append((st, t))
    ok_len = len(guards) >= 1 and all(any(g_.dominates(g_.node_of(gs), g_.node_of(o)) for gs, _t in guards) for o in outs)
    ctx.check(ok_len, "C29.block-kind", f, "answer length checked against the block (%d guard)" % len(guards),
              "a scattered-map answer whose columns are not block.trials_per_sample() long is refused before it is returned",
              "SMGen.sample returns the search core's answer without comparing its length with block.trials_per_sample(): a block that reaches its trial count by repeating the crossing "
              "(Repeat / Merge) or whose first non-derived factor is not in the crossing gets sequences that are too short (guards found: %s)" % [t[:80] for _s, t in guards])
    # ---- parallel lists of the weight encoding: an index list and its weight list are paired by position by the search
    # core, so they must be appended to under the same conditions (same block, same number of appends)
    R = "C29.parallel"
    ew = ctx.fn("scattered_map_core:encode_weights")
    PAIRS = [("inds", "w"), ("weighted_objects_init", "weights_init")]
    n_blocks = 0
    for node in ast.walk(ew.node):
        for fld in ("body", "orelse"):
            b = getattr(node, fld, None)
            if not (isinstance(b, list) and b and isinstance(b[0], ast.stmt)):
                continue
            for a, w_ in PAIRS:
                na = sum(1 for x in b if isinstance(x, ast.Expr) and isinstance(x.value, ast.Call) and dotted(x.value.func) == a + ".append")
                nw = sum(1 for x in b if isinstance(x, ast.Expr) and isinstance(x.value, ast.Call) and dotted(x.value.func) == w_ + ".append")
                if na or nw:
                    n_blocks += 1
                    ctx.check(na == nw, R, ew, "%s / %s appended together" % (a, w_), "`%s` and `%s` grow together" % (a, w_),
                              "encode_weights appends to `%s` %d time(s) and to `%s` %d time(s) in one block: the two lists are paired by position later, so weights end up "
                              "attached to the wrong levels" % (a, na, w_, nw), b[0])
    ctx.require(n_blocks >= 4, "encode_weights: only %d blocks with paired appends found" % n_blocks)
    rule_reset(ctx)
    rule_transition_table(ctx)
    modx = sys.modules[__name__]
    control(ctx, modx, "answer returned without the length check",
            lambda s_: variants.in_function(s_, "sweetpea/_internal/sampling_strategy/smgen.py", "SMGen.sample",
                                            "        if any(len(vals) != block.trials_per_sample() for a in r for vals in a.values()):\n            _cexit(", "        if False:\n            _cexit("), "C29.block-kind")
    SM = "sweetpea/_internal/sampling_strategy/scattered_map_core.py"
    control(ctx, modx, "transition table written transposed",
            lambda s_: variants.in_function(s_, SM, "execute", "asg_vf_i[j][z]=answers[0]", "asg_vf_i[z][j]=answers[0]"), "C29.table")
    control(ctx, modx, "one reader of the transition table transposed",
            lambda s_: variants.in_function(s_, SM, "sm_backtrack_random", "ans=(asg_vf[i])[source_row][dst_row]", "ans=(asg_vf[i])[dst_row][source_row]"), "C29.table")
    ctx.min_instances("C29.table", 5)
    ctx.min_instances("C29.parallel", 4)
    ctx.min_instances("C29.reset", 3)
    ctx.min_instances("C29.refusal", 5)
    ctx.min_instances("C29.registry", 16)
