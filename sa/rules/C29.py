"""C29 -- SMGen either refuses a design or returns valid sequences."""
import ast

from ..astutil import call_attr, dotted, statements, isinstance_disjuncts, calls
from ..callgraph import CallGraph
from ..cfg import CFG
from ..registry import concrete

TECHNIQUE = "class-family registry vs isinstance refusal chain (exhaustiveness check on the AST)"
EXPLANATION = """
Decides the exhaustiveness clause: every concrete class of the Constraint family is (a) covered, through
inheritance, by the isinstance refusal chain of SMGen.sample whose body always raises, or (b) in the frozen
'honoured' table together with the construct that honours it (MinimumTrials <- crossing_weight() /
trials_per_sample() scaling), or (c) in the frozen 'internal' table (Cross, Consistency, Derivation: regenerated
by the scattered-map encoding; Reify, ContinuousConstraint: not predicates on the discrete sequence).  Block
kinds: multi-crossing blocks are refused by a test on len(block.crossings) whose body always raises.  A new
constraint class, or a class dropped from the chain, is reported.
"""
NOT_DECIDED = ("validity of what the scattered-map search returns for supported designs, including the trial count "
               "when a MinimumTrials is met by Repeat (a runtime quantity).")

INTERNAL = {
    "Cross": "crossing is re-encoded by define_cross()",
    "Consistency": "one level per factor is inherent in the scattered-map representation",
    "Derivation": "derived levels are re-encoded from the factors' windows",
    "Reify": "only makes a factor non-implied for the SAT encoding",
    "ContinuousConstraint": "continuous values are sampled after the discrete search (C22)",
}
HONOURED = {"MinimumTrials": ("crossing_weight", "trials_per_sample")}


def _always_raises_call(repo, mod, call: ast.Call) -> bool:
    name = dotted(call.func)
    if name and "." not in name:
        r = repo.resolve_name(mod, name)
        if hasattr(r, "node") and not hasattr(r, "methods"):
            g = CFG(r.node)
            return len(g.exit.pred) == 0
    return False


def _body_refuses(repo, mod, body) -> bool:
    for st in body:
        if isinstance(st, ast.Raise):
            return True
        if isinstance(st, ast.Expr) and isinstance(st.value, ast.Call) and _always_raises_call(repo, mod, st.value):
            return True
    return False


def check(ctx):
    repo = ctx.repo
    f = ctx.fn("smgen:SMGen.sample")
    mod = f.module
    base = repo.cls("base_constraint:Constraint")
    fam = [c for c in base.all_subclasses()]
    ctx.require(len(fam) >= 16, "Constraint family shrank to %d classes" % len(fam))

    # loop variable over block.constraints
    loops = [st for st in statements(f.node) if isinstance(st, ast.For) and dotted(st.iter) == "block.constraints"
             and isinstance(st.target, ast.Name)]
    ctx.require(len(loops) >= 1, "%s: no loop over block.constraints" % f.fq)
    refused = set()
    for lp in loops:
        var = lp.target.id
        for st in lp.body:
            if isinstance(st, ast.If):
                # a class tuple may be bound to a local name first: isinstance(c, unsupported)
                test = st.test
                local_tuples = {}
                for a in statements(f.node):
                    if isinstance(a, ast.Assign) and len(a.targets) == 1 and isinstance(a.targets[0], ast.Name) and isinstance(a.value, ast.Tuple):
                        local_tuples.setdefault(a.targets[0].id, []).append(a.value)

                class _Subst(ast.NodeTransformer):
                    def visit_Call(self, node):
                        self.generic_visit(node)
                        if isinstance(node.func, ast.Name) and node.func.id == "isinstance" and len(node.args) == 2 and isinstance(node.args[1], ast.Name) \
                                and len(local_tuples.get(node.args[1].id, [])) == 1:
                            return ast.Call(func=node.func, args=[node.args[0], local_tuples[node.args[1].id][0]], keywords=[])
                        return node
                import copy as _copy
                test = ast.fix_missing_locations(_Subst().visit(_copy.deepcopy(test)))
                ds = [(x, cs) for x, cs in isinstance_disjuncts(test) if x == var]
                if ds and _body_refuses(repo, mod, st.body):
                    for _, cs in ds:
                        for cn in cs:
                            c = repo.resolve_class_expr(mod, ast.parse(cn, mode="eval").body)
                            ctx.require(c is not None, "%s: refused class %s does not resolve" % (f.fq, cn))
                            refused.add(c.fq)
                            for s in c.all_subclasses():
                                refused.add(s.fq)
                            ctx.ok("C29.refusal", f, "refuses %s (and subclasses)" % cn, st)
                elif ds:
                    ctx.bad("C29.refusal", f, "isinstance chain body", "the isinstance chain on constraints does not "
                            "end in the unsupported-feature error", st)
    ctx.require(refused, "%s: no refusal chain found" % f.fq)

    called = {call_attr(c) for c in calls(f.node)}
    for c in sorted(fam, key=lambda c: c.name):
        if not concrete(c):
            ctx.ok("C29.registry", c, "%s is abstract" % c.name, trivial=True)
            continue
        if c.fq in refused:
            ctx.ok("C29.registry", c, "%s refused" % c.name)
        elif c.name in HONOURED:
            need = HONOURED[c.name]
            ctx.check(all(n in called for n in need), "C29.registry", f, "%s honoured-by %s" % (c.name, need),
                      "%s honoured through %s" % (c.name, "/".join(need)),
                      "%s is in the honoured table but SMGen.sample no longer calls %s" % (c.name, need))
        elif c.name in INTERNAL:
            ctx.ok("C29.registry", c, "%s internal: %s" % (c.name, INTERNAL[c.name]))
            ctx.exception(c.name, INTERNAL[c.name])
        else:
            ctx.bad("C29.registry", f, "unhandled %s" % c.name,
                    "constraint class %s is neither refused by SMGen.sample nor honoured nor internal: "
                    "SMGen would silently ignore it" % c.fq, loops[0])

    # block kinds: multiple crossings refused
    ok = False
    for st in statements(f.node):
        if isinstance(st, ast.If) and "len(block.crossings)" in ast.unparse(st.test) and _body_refuses(repo, mod, st.body):
            t = ast.unparse(st.test).replace(" ", "")
            if t in ("len(block.crossings)!=1", "len(block.crossings)>1", "notlen(block.crossings)==1", "1!=len(block.crossings)"):
                ok = True
                node = st
    ctx.check(ok, "C29.block-kind", f, "len(block.crossings) != 1", "multi-crossing blocks are refused",
              "SMGen.sample no longer refuses blocks whose number of crossings differs from 1")
    # ---- parallel lists of the weight encoding: an index list and its weight list are paired by position by the search
    # core, so they must be appended to under the same conditions (same block, same number of appends)
    R = "C29.parallel"
    ew = ctx.fn("scattered_map_core:encode_weights")
    PAIRS = [("inds", "w"), ("weighted_objects_init", "weights_init")]
    n_blocks = 0
    for node in ast.walk(ew.node):
        for fld in ("body", "orelse"):
            b = getattr(node, fld, None)
            if not (isinstance(b, list) and b and isinstance(b[0], ast.stmt)):
                continue
            for a, w_ in PAIRS:
                na = sum(1 for x in b if isinstance(x, ast.Expr) and isinstance(x.value, ast.Call) and dotted(x.value.func) == a + ".append")
                nw = sum(1 for x in b if isinstance(x, ast.Expr) and isinstance(x.value, ast.Call) and dotted(x.value.func) == w_ + ".append")
                if na or nw:
                    n_blocks += 1
                    ctx.check(na == nw, R, ew, "%s / %s appended together" % (a, w_), "`%s` and `%s` grow together" % (a, w_),
                              "encode_weights appends to `%s` %d time(s) and to `%s` %d time(s) in one block: the two lists are paired by position later, so weights end up "
                              "attached to the wrong levels" % (a, na, w_, nw), b[0])
    ctx.require(n_blocks >= 4, "encode_weights: only %d blocks with paired appends found" % n_blocks)
    ctx.min_instances("C29.parallel", 4)
    ctx.min_instances("C29.refusal", 5)
    ctx.min_instances("C29.registry", 16)
