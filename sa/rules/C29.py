"""C29 -- SMGen either refuses a design or returns valid sequences."""
import ast

from ..astutil import call_attr, dotted, statements, isinstance_disjuncts, calls
from ..callgraph import CallGraph
from ..cfg import CFG
from ..registry import concrete

TECHNIQUE = "class-family registry vs isinstance refusal chain (exhaustiveness check on the AST)"
EXPLANATION = """
Decides the exhaustiveness clause: every concrete class of the Constraint family is (a) covered, through
inheritance, by the isinstance refusal chain of SMGen.sample whose body always raises, or (b) in the frozen
'honoured' table together with the construct that honours it (MinimumTrials <- crossing_weight() /
trials_per_sample() scaling), or (c) in the frozen 'internal' table (Cross, Consistency, Derivation: regenerated
by the scattered-map encoding; Reify, ContinuousConstraint: not predicates on the discrete sequence).  Block
kinds: multi-crossing blocks are refused by a test on len(block.crossings) whose body always raises.  A new
constraint class, or a class dropped from the chain, is reported.
"""
NOT_DECIDED = ("validity of what the scattered-map search returns for supported designs, including the trial count "
               "when a MinimumTrials is met by Repeat (a runtime quantity).")

INTERNAL = {
    "Cross": "crossing is re-encoded by define_cross()",
    "Consistency": "one level per factor is inherent in the scattered-map representation",
    "Derivation": "derived levels are re-encoded from the factors' windows",
    "Reify": "only makes a factor non-implied for the SAT encoding",
    "ContinuousConstraint": "continuous values are sampled after the discrete search (C22)",
}
HONOURED = {"MinimumTrials": ("crossing_weight", "trials_per_sample")}


def _always_raises_call(repo, mod, call: ast.Call) -> bool:
    name = dotted(call.func)
    if name and "." not in name:
        r = repo.resolve_name(mod, name)
        if hasattr(r, "node") and not hasattr(r, "methods"):
            g = CFG(r.node)
            return len(g.exit.pred) == 0
    return False


def _body_refuses(repo, mod, body) -> bool:
    for st in body:
        if isinstance(st, ast.Raise):
            return True
        if isinstance(st, ast.Expr) and isinstance(st.value, ast.Call) and _always_raises_call(repo, mod, st.value):
            return True
    return False


def check(ctx):
    repo = ctx.repo
    f = ctx.fn("smgen:SMGen.sample")
    mod = f.module
    base = repo.cls("base_constraint:Constraint")
    fam = [c for c in base.all_subclasses()]
    ctx.require(len(fam) >= 16, "Constraint family shrank to %d classes" % len(fam))

    # loop variable over block.constraints
    loops = [st for st in statements(f.node) if isinstance(st, ast.For) and dotted(st.iter) == "block.constraints"
             and isinstance(st.target, ast.Name)]
    ctx.require(len(loops) >= 1, "%s: no loop over block.constraints" % f.fq)
    refused = set()
    for lp in loops:
        var = lp.target.id
        for st in lp.body:
            if isinstance(st, ast.If):
                ds = [(x, cs) for x, cs in isinstance_disjuncts(st.test) if x == var]
                if ds and _body_refuses(repo, mod, st.body):
                    for _, cs in ds:
                        for cn in cs:
                            c = repo.resolve_class_expr(mod, ast.parse(cn, mode="eval").body)
                            ctx.require(c is not None, "%s: refused class %s does not resolve" % (f.fq, cn))
                            refused.add(c.fq)
                            for s in c.all_subclasses():
                                refused.add(s.fq)
                            ctx.ok("C29.refusal", f, "refuses %s (and subclasses)" % cn, st)
                elif ds:
                    ctx.bad("C29.refusal", f, "isinstance chain body", "the isinstance chain on constraints does not "
                            "end in the unsupported-feature error", st)
    ctx.require(refused, "%s: no refusal chain found" % f.fq)

    called = {call_attr(c) for c in calls(f.node)}
    for c in sorted(fam, key=lambda c: c.name):
        if not concrete(c):
            ctx.ok("C29.registry", c, "%s is abstract" % c.name, trivial=True)
            continue
        if c.fq in refused:
            ctx.ok("C29.registry", c, "%s refused" % c.name)
        elif c.name in HONOURED:
            need = HONOURED[c.name]
            ctx.check(all(n in called for n in need), "C29.registry", f, "%s honoured-by %s" % (c.name, need),
                      "%s honoured through %s" % (c.name, "/".join(need)),
                      "%s is in the honoured table but SMGen.sample no longer calls %s" % (c.name, need))
        elif c.name in INTERNAL:
            ctx.ok("C29.registry", c, "%s internal: %s" % (c.name, INTERNAL[c.name]))
            ctx.exception(c.name, INTERNAL[c.name])
        else:
            ctx.bad("C29.registry", f, "unhandled %s" % c.name,
                    "constraint class %s is neither refused by SMGen.sample nor honoured nor internal: "
                    "SMGen would silently ignore it" % c.fq, loops[0])

    # block kinds: multiple crossings refused
    ok = False
    for st in statements(f.node):
        if isinstance(st, ast.If) and "len(block.crossings)" in ast.unparse(st.test) and _body_refuses(repo, mod, st.body):
            t = ast.unparse(st.test).replace(" ", "")
            if t in ("len(block.crossings)!=1", "len(block.crossings)>1", "notlen(block.crossings)==1", "1!=len(block.crossings)"):
                ok = True
                node = st
    ctx.check(ok, "C29.block-kind", f, "len(block.crossings) != 1", "multi-crossing blocks are refused",
              "SMGen.sample no longer refuses blocks whose number of crossings differs from 1")
    ctx.min_instances("C29.refusal", 5)
    ctx.min_instances("C29.registry", 16)
