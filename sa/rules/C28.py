"""C28 -- ILP export accepts the same assignments as the SAT encoding."""
import ast

from ..astutil import call_attr, dotted, statements, walk_body, calls
from ..model import AnalysisError
from ..registry import enum_dispatch, enum_members
from ..strfmt import str_parts, consts, skeleton
from ..sym import env_for, sym, Poly

TECHNIQUE = "registry/enum-dispatch comparison plus string-skeleton and linear-form extraction (AST)"
EXPLANATION = """
Decides the structural clause: the OPB writer (combine_and_save_opb, CNF.as_opb_string,
sample_ilp.update_file) renders every AssertionType member, and for each member the pair (relation token,
linear form in k) is one of the forms that mean the relation the SAT dispatcher (combine_cnf_with_requests)
implements -- EQ:(=,k)  LT:(<=,k-1)|(<,k)  GT:(>=,k+1)|(>,k); request terms have coefficient +1; clause rows
use -1 for negated literals, +1 otherwise, relation >=, threshold 1-#negatives; the blocking row uses the same
coefficients, relation <=, threshold len-1-#negatives.  Relation tokens and coefficient prefixes are read from
the constant skeleton of the string builders, integer parts are normalised to polynomials.
"""
NOT_DECIDED = "that the SAT encodings mean EQ/LT/GT (C10), file handling, Gurobi's reading of OPB."

ACCEPT = {          # (relation token, offset c of the linear form k + c)
    "EQ": [("=", 0)],
    "LT": [("<=", -1), ("<", 0)],
    "GT": [(">=", 1), (">", 0)],
}
SAT_METHOD = {"EQ": "assert_k_of_n", "LT": "assert_k_less_than_n", "GT": "assert_k_greater_than_n"}


def _norm_k(p: Poly):
    """offset c if p == request.k + c, else None"""
    if p.atoms() == {"request.k"} and p.coeff("request.k") == 1 and set(p.t) <= {(), ("request.k",)}:
        return p.coeff()
    return None


def check(ctx):
    repo = ctx.repo
    util = repo.module("utility")
    members = enum_members(repo.cls("utility:AssertionType"))
    ctx.require(set(members) == {"EQ", "LT", "GT"}, "AssertionType members changed: %s" % members)

    # ---- rule dispatch: both dispatchers cover every member and raise otherwise
    opb = ctx.fn("utility:combine_and_save_opb")
    sat = ctx.fn("utility:combine_cnf_with_requests")
    for f in (opb, sat):
        chains = enum_dispatch(f.node, "AssertionType")
        ctx.require(len(chains) == 1, "%s: expected exactly one AssertionType dispatch chain, found %d" % (f.fq, len(chains)))
        first, branches, else_body = chains[0]
        for mname in members:
            ctx.check(mname in branches, "C28.dispatch", f, "AssertionType.%s" % mname,
                      "member %s handled" % mname, "AssertionType.%s has no branch in %s" % (mname, f.qual), first)
        raises = any(isinstance(s, ast.Raise) for s in else_body)
        ctx.check(raises, "C28.dispatch", f, "else-branch", "unknown assertion type raises",
                  "dispatch chain of %s does not raise for an unknown assertion type" % f.qual, first)

    # SAT side: which method each member calls (reference table, also checked under C10)
    _, sat_br, _ = enum_dispatch(sat.node, "AssertionType")[0]
    for mname, body in sat_br.items():
        called = [call_attr(c) for st in body for c in ast.walk(st) if isinstance(c, ast.Call)]
        ctx.check(SAT_METHOD.get(mname) in called, "C28.sat-reference", sat, "AssertionType.%s" % mname,
                  "%s -> %s" % (mname, SAT_METHOD.get(mname)),
                  "SAT dispatcher maps %s to %s, expected %s" % (mname, called, SAT_METHOD.get(mname)), body[0])

    # ---- rule relation: per member (relation token, linear form)
    env = env_for(opb.node)
    _, opb_br, _ = enum_dispatch(opb.node, "AssertionType")[0]
    comparison_var = None
    for mname, body in opb_br.items():
        assigns = [st for st in body if isinstance(st, ast.Assign) and len(st.targets) == 1
                   and isinstance(st.targets[0], ast.Name)]
        ctx.require(len(assigns) == 1, "%s: branch %s is not a single assignment of the comparison text" % (opb.fq, mname))
        a = assigns[0]
        comparison_var = a.targets[0].id
        parts = str_parts(a.value, env_for(ast.Module(body=[], type_ignores=[])))
        cs = [c.strip() for c in consts(parts)]
        nums = [p[1] for p in parts if p[0] == "num"]
        ctx.require(len(nums) == 1 and len([c for c in cs if c]) == 1,
                    "%s: comparison text for %s has an unexpected shape: %s" % (opb.fq, mname, skeleton(parts)))
        rel = [c for c in cs if c][0]
        form = _norm_k(nums[0])
        good = form is not None and (rel, form) in ACCEPT[mname]
        shown = "%s %s" % (rel, nums[0])
        ctx.check(good, "C28.relation", opb, "%s: %s" % (mname, shown),
                  "%s rendered as '%s'" % (mname, shown),
                  "AssertionType.%s is rendered as '%s'; the SAT side (%s) means %s" % (
                      mname, shown, SAT_METHOD[mname], " or ".join("'%s k%+d'" % x for x in ACCEPT[mname])), a)

    # ---- rule request-row: coefficient +1 for every request variable, over request.boolean_values,
    #      followed by the comparison text and the ';' terminator
    writes = [c for c in calls(opb.node, nested=False) if call_attr(c) == "write"]
    row = None
    for w in writes:
        txt = ast.unparse(w)
        if comparison_var and comparison_var in [n.id for n in ast.walk(w) if isinstance(n, ast.Name)]:
            row = w
    ctx.require(row is not None, "%s: no write() of the request row using '%s'" % (opb.fq, comparison_var))
    from ..astutil import expand_ast
    row = expand_ast(opb.node, row, skip=(comparison_var,) if comparison_var else ())
    coef_ok, iter_ok = False, False
    for n in ast.walk(row):
        if isinstance(n, ast.Lambda) or isinstance(n, ast.GeneratorExp) or isinstance(n, ast.ListComp):
            body = n.body if isinstance(n, ast.Lambda) else n.elt
            ps = str_parts(body)
            if ps and ps[0][0] == "const" and ps[0][1] == "+1 v" and len(ps) == 2 and ps[1][0] == "num":
                coef_ok = True
    for n in ast.walk(row):
        if dotted(n) == "request.boolean_values":
            iter_ok = True
    ctx.check(coef_ok, "C28.request-row", opb, "coefficient", "every request term is '+1 v<var>'",
              "request row terms are not rendered as '+1 v<var>'", row)
    ctx.check(iter_ok, "C28.request-row", opb, "variables", "row ranges over request.boolean_values",
              "request row does not range over request.boolean_values", row)
    rp = str_parts(row.args[0], env)
    term = [c for c in consts(rp) if ";" in c]
    ctx.check(bool(term), "C28.request-row", opb, "terminator", "row terminated by ';'",
              "request row is not terminated by ';'", row)

    # ---- rule clause-row (CNF.as_opb_string)
    f = ctx.fn("cnf:CNF.as_opb_string")
    ret = [st for st in f.node.body if isinstance(st, ast.Return)]
    ctx.require(len(ret) == 1, "%s: expected a single return expression" % f.fq)
    _clause_row(ctx, f, ret[0].value, relation=">=", threshold_kind="clause")

    # ---- rule blocking-row (sample_ilp.update_file)
    f = ctx.fn("sample_ilp:update_file")
    ws = [c for c in calls(f.node) if call_attr(c) == "write"]
    ctx.require(len(ws) == 1, "%s: expected one write()" % f.fq)
    _clause_row(ctx, f, ws[0].args[0], relation="<=", threshold_kind="blocking")

    ctx.min_instances("C28.dispatch", 8)
    ctx.min_instances("C28.relation", 3)
    ctx.min_instances("C28.row", 8)


def _is_neg_test(t: ast.AST) -> bool:
    """str(v)[0] == '-'   or   v < 0"""
    s = ast.unparse(t).replace(" ", "")
    return (s.startswith("str(") and "[0]=='-'" in s) or s.endswith("<0")


def _inline_branch_helpers(fnode, expr, skip=()):
    """a nested one-parameter helper of the shape `if T: return A / else: return B` (or `return A if T else B`) used as
    map(helper, xs) or helper(x) is replaced by the equivalent lambda / conditional expression"""
    import copy as _copy
    helpers = {}
    for n in fnode.body:
        if isinstance(n, ast.FunctionDef) and len(n.args.args) == 1 and n.name not in skip:
            body = [b for b in n.body if not (isinstance(b, ast.Expr) and isinstance(b.value, ast.Constant))]
            e = None
            if len(body) == 1 and isinstance(body[0], ast.Return) and body[0].value is not None:
                e = body[0].value
            elif len(body) == 1 and isinstance(body[0], ast.If) and len(body[0].body) == 1 and len(body[0].orelse) == 1 and \
                    isinstance(body[0].body[0], ast.Return) and isinstance(body[0].orelse[0], ast.Return):
                e = ast.IfExp(test=body[0].test, body=body[0].body[0].value, orelse=body[0].orelse[0].value)
            elif len(body) == 2 and isinstance(body[0], ast.If) and not body[0].orelse and len(body[0].body) == 1 and isinstance(body[0].body[0], ast.Return) and \
                    isinstance(body[1], ast.Return):
                e = ast.IfExp(test=body[0].test, body=body[0].body[0].value, orelse=body[1].value)
            if e is not None:
                helpers[n.name] = (n.args.args[0].arg, e)
    if not helpers:
        return expr

    class T(ast.NodeTransformer):
        def visit_Call(self, node):
            self.generic_visit(node)
            if isinstance(node.func, ast.Name) and node.func.id in helpers and len(node.args) == 1 and not node.keywords:
                p_, e_ = helpers[node.func.id]

                class S(ast.NodeTransformer):
                    def visit_Name(self, nm):
                        return _copy.deepcopy(node.args[0]) if nm.id == p_ and isinstance(nm.ctx, ast.Load) else nm
                return S().visit(_copy.deepcopy(e_))
            if isinstance(node.func, ast.Name) and node.func.id == "map" and len(node.args) == 2 and isinstance(node.args[0], ast.Name) and node.args[0].id in helpers:
                p_, e_ = helpers[node.args[0].id]
                node.args[0] = ast.Lambda(args=ast.arguments(posonlyargs=[], args=[ast.arg(arg=p_)], kwonlyargs=[], kw_defaults=[], defaults=[]), body=_copy.deepcopy(e_))
            return node
    out = T().visit(_copy.deepcopy(expr))
    ast.fix_missing_locations(out)
    return out


def _clause_row(ctx, f, expr, relation, threshold_kind):
    from ..astutil import expand_ast
    expr = expand_ast(f.node, expr, skip=("false_count", "count_false_var"))
    expr = _inline_branch_helpers(f.node, expr, skip=("false_count", "count_false_var"))
    env = env_for(f.node)
    # nested helper definitions (count_false_var) are expanded by hand below
    helper_defs = {n.name: n for n in f.node.body if isinstance(n, ast.FunctionDef)}
    # 1. coefficient conditional:  '-1 v' + <positive var text> if <negative test> else '+1 v' + str(v)
    conds = [n for n in ast.walk(expr) if isinstance(n, ast.IfExp)]
    if not conds:
        ctx.bad("C28.row", f, "sign coefficients", "the %s row of %s has no per-literal sign coefficient any more: every literal must appear, negated ones with -1 and the others with +1 "
                "(a row over part of the literals accepts / excludes other assignments than the clause / the previous solution)" % (threshold_kind, f.qual), expr)
        return
    c = conds[0]
    # the literals that are rendered and the literals that are counted for the threshold are the same collection
    maps = [n for n in ast.walk(expr) if isinstance(n, ast.Call) and isinstance(n.func, ast.Name) and n.func.id == "map" and len(n.args) == 2 and any(x is c for x in ast.walk(n.args[0]))]
    comps = [n for n in ast.walk(expr) if isinstance(n, (ast.GeneratorExp, ast.ListComp)) and len(n.generators) == 1 and any(x is c for x in ast.walk(n.elt))]
    cands = sorted(maps + comps, key=lambda n: len(list(ast.walk(n))))[:1]      # the innermost iteration that contains the term
    maps = [n for n in cands if isinstance(n, ast.Call)]
    comps = [n for n in cands if not isinstance(n, ast.Call)]
    ctx.require(len(maps) + len(comps) == 1, "%s: the iteration over the literals was not found" % f.fq)
    rendered = ast.unparse(maps[0].args[1]) if maps else ast.unparse(comps[0].generators[0].iter)
    if not maps:
        maps = comps
    counted = None
    for n in ast.walk(expr):
        if isinstance(n, ast.Call) and isinstance(n.func, ast.Name) and n.func.id == "count_false_var" and n.args:
            counted = ast.unparse(n.args[0])
    if threshold_kind == "blocking":
        counted = "solution"
    ctx.check(rendered == counted, "C28.row", f, "terms over %s, threshold over %s" % (rendered, counted), "the terms and the threshold range over the same literals",
              "the %s row renders the literals of `%s` but its threshold is computed from `%s`: repeated / omitted literals shift the threshold against the terms" % (threshold_kind, rendered, counted), maps[0])
    neg_parts, pos_parts = str_parts(c.body), str_parts(c.orelse)
    negtest = _is_neg_test(c.test)
    ctx.require(negtest, "%s: coefficient test '%s' is not a recognised negativity test" % (f.fq, ast.unparse(c.test)))
    ctx.check(neg_parts and neg_parts[0] == ("const", "-1 v"), "C28.row", f, "negative-literal coefficient",
              "negative literal -> '-1 v<var>'", "negative literals are rendered with '%s'" % skeleton(neg_parts), c)
    ctx.check(pos_parts and pos_parts[0] == ("const", "+1 v"), "C28.row", f, "positive-literal coefficient",
              "positive literal -> '+1 v<var>'", "positive literals are rendered with '%s'" % skeleton(pos_parts), c)
    # the variable text of a negative literal must be its absolute value: str(v)[1:] or str(abs(x))
    nv = ast.unparse(c.body).replace(" ", "")
    ctx.check(("[1:]" in nv) or ("abs(" in nv), "C28.row", f, "negative-literal variable",
              "negative literal names |v|", "negative literal is not rendered by its absolute value: %s" % nv, c)
    pv = ast.unparse(c.orelse).replace(" ", "")
    ctx.check("[1:]" not in pv and "abs(" not in pv or "abs(" in pv, "C28.row", f, "positive-literal variable",
              "positive literal names v", "unexpected positive literal text %s" % pv, c, trivial=True)
    # 2. relation token and threshold
    parts = str_parts(expr, env) if not isinstance(expr, ast.Call) else None
    # find the top-level concatenation that carries the relation: search all BinOp(Add) chains
    best = None
    for n in ast.walk(expr):
        if isinstance(n, ast.BinOp) and isinstance(n.op, ast.Add):
            ps = str_parts(n, env)
            cs = [x.strip() for x in consts(ps)]
            if any(x.strip(" ;\n") in ("<=", ">=", "=", "<", ">") for x in cs):
                if best is None or len(ps) > len(best):
                    best = ps
    ctx.require(best is not None, "%s: no relation token found in the row text" % f.fq)
    rels = [x.strip(" ;\n") for x in consts(best) if x.strip(" ;\n") in ("<=", ">=", "=", "<", ">")]
    ctx.check(rels == [relation], "C28.row", f, "relation %s" % rels,
              "row relation is '%s'" % relation, "row relation is %s, expected '%s'" % (rels, relation))
    nums = [p[1] for p in best if p[0] == "num"]
    ctx.require(len(nums) >= 1, "%s: no numeric threshold in the row" % f.fq)
    thr = nums[-1]
    # expected threshold forms
    if threshold_kind == "clause":
        # 1 - count_false_var(clause); count_false_var must count the negative literals of its argument
        ok = False
        atoms = thr.atoms()
        if thr.coeff() == 1 and len(atoms) == 1:
            a = list(atoms)[0]
            if thr.coeff(a) == -1 and a.startswith("count_false_var(") and "count_false_var" in helper_defs:
                h = helper_defs["count_false_var"]
                r = [s for s in h.body if isinstance(s, ast.Return)]
                if r:
                    txt = ast.unparse(r[0].value).replace(" ", "")
                    ok = txt.startswith("len(") and "[0]=='-'" in txt
        ctx.check(ok, "C28.row", f, "threshold %s" % thr, "clause threshold = 1 - #negatives",
                  "clause row threshold is '%s', expected 1 - (number of negated literals)" % thr)
    else:
        # len(solution) - 1 - false_count with false_count = len(v for v in solution if v < 0)
        s = str(thr)
        ok = False
        atoms = thr.atoms()
        if thr.coeff() == -1 and len(atoms) == 2:
            la = [a for a in atoms if a.startswith("len(") and thr.coeff(a) == 1]
            na = [a for a in atoms if thr.coeff(a) == -1]
            if len(la) == 1 and len(na) == 1:
                neg = na[0].replace(" ", "")
                ok = la[0] == "len(solution)" and neg.startswith("len(") and "<0" in neg and "insolution" in neg
        ctx.check(ok, "C28.row", f, "threshold %s" % thr, "blocking threshold = len - 1 - #negatives",
                  "blocking row threshold is '%s', expected len(solution) - 1 - (number of negative literals)" % thr)
    ctx.check(any(";" in x for x in consts(best)), "C28.row", f, "terminator", "row terminated by ';'",
              "row is not terminated by ';'")
