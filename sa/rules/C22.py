"""C22 -- continuous factors respect their constraints, inputs and windows."""
import ast
import sys

from ..astutil import call_attr, dotted, statements, calls, walk_body
from ..cfg import CFG
from ..facts import Facts, fact
from ..report import control
from ..sym import Env, Poly, _sym
from .. import variants

TECHNIQUE = "loop-exit rule on the CFG of the resample-until-constraints-hold loop (every exit conditioned on the check of the very value returned), all-paths rule on _check_constraints, index def-use of the per-trial inputs, key-coverage of the merge into the returned trials"
EXPLANATION = """
Decides that continuous values are released only after the constraint check passed on exactly those values and that
per-trial inputs are taken at the trial being generated: (loop) in Block.sample_continuous every normal exit of the
resampling loop is conditioned on the truth of self._check_constraints(v) where v is the value of the last
self._sample_continuous(trial_num, trial) call and is what the function returns, v is not re-drawn between check and
exit, and the flag that carries the verdict is assigned from nothing else inside the loop; (check) _check_constraints
selects by isinstance(c, ContinuousConstraint) from the unfiltered self.constraints, returns True only when there is
no such constraint or after the complete constraint x trial iteration (no break / continue / early `return True`
inside the loops), returns False when the predicate is falsy, feeds the predicate the values of c.factors in order,
all at the same trial index, over the full length; (inputs) in _sample_continuous every per-trial input
(trial[d.name][i], continuous_output[d.name][i], get_window_val(i, continuous_output)) is indexed by the loop
variable of the value being generated, that loop runs over the block's trial count, exactly one generated value is
appended per trial and the list is stored under the factor's own name in the dict that is returned; (window) in
ContinuousFactorWindow.get_window_val the entry stored under key -k is read at index idx - k of the same factor, for k
over range(width), every such read is reached only when its index is non-negative (idx - k >= 0 or idx >= width - 1), and
the not-yet-defined / skipped-by-stride branches return NaN entries; (merge)
synthesize_trials, when the block has continuous factors, calls block.sample_continuous once per returned
experiment with that experiment's own discrete trials and copies every key of the result into it.
"""
NOT_DECIDED = "distribution behaviour (what generate() draws), the numeric value of window entries beyond the index/key relation, float NaN semantics, and validity of the discrete part (C01/C04)."


def _names_assigned(st):
    out = []
    if isinstance(st, ast.Assign):
        for t in st.targets:
            for n in ast.walk(t):
                if isinstance(n, ast.Name):
                    out.append(n.id)
    elif isinstance(st, (ast.AugAssign, ast.AnnAssign)) and isinstance(st.target, ast.Name):
        out.append(st.target.id)
    return out


def _is_check_call(e, value_name=None):
    """self._check_constraints(<name>) -> name"""
    if isinstance(e, ast.Call) and call_attr(e) == "_check_constraints" and dotted(e.func) == "self._check_constraints" \
            and len(e.args) == 1 and not e.keywords and isinstance(e.args[0], ast.Name):
        return e.args[0].id
    return None


def rule_loop(ctx):
    R = "C22.loop"
    f = ctx.fn("block:Block.sample_continuous")
    g = CFG(f.node)
    loops = [s for s in statements(f.node) if isinstance(s, ast.While)]
    ctx.require(len(loops) == 1, "sample_continuous: expected exactly one resampling loop, found %d" % len(loops))
    lp = loops[0]
    inside = [s for s in statements(f.node) if s is not lp and any(s is x for x in ast.walk(lp))]
    head = g.node_of(lp)
    # the drawn value
    draws = [s for s in inside if isinstance(s, ast.Assign) and isinstance(s.value, ast.Call) and call_attr(s.value) == "_sample_continuous"]
    ctx.require(len(draws) >= 1 and all(len(s.targets) == 1 and isinstance(s.targets[0], ast.Name) for s in draws),
                "sample_continuous: the _sample_continuous draw is not a plain assignment inside the loop")
    vnames = {s.targets[0].id for s in draws}
    ctx.require(len(vnames) == 1, "sample_continuous: several names hold drawn values: %s" % sorted(vnames))
    v = vnames.pop()
    for d in draws:
        args = [ast.unparse(a) for a in d.value.args]
        ctx.check(dotted(d.value.func) == "self._sample_continuous" and args == ["trial_num", "trial"], R, f, "draw %s" % ast.unparse(d.value),
                  "values are drawn for the experiment and the discrete trials that were passed in",
                  "the draw is %s, expected self._sample_continuous(trial_num, trial)" % ast.unparse(d.value), d)
    other_v = [s for s in statements(f.node) if v in _names_assigned(s) and s not in draws]
    ctx.check(not other_v, R, f, "value bindings of %s" % v, "the returned value is bound only by the draw",
              "'%s' is also bound by %s -- what is returned need not be what was checked" % (v, [ast.unparse(s) for s in other_v]), other_v[0] if other_v else None)
    # where is the verdict computed
    checks = []       # (stmt, flag name or None)
    for s in inside:
        if isinstance(s, ast.Assign) and _is_check_call(s.value):
            ctx.require(len(s.targets) == 1 and isinstance(s.targets[0], ast.Name), "sample_continuous: verdict stored in a non-name")
            checks.append((s, s.targets[0].id, _is_check_call(s.value)))
        elif isinstance(s, ast.If) and _is_check_call(s.test):
            checks.append((s, None, _is_check_call(s.test)))
    ctx.require(len(checks) >= 1, "sample_continuous: no self._check_constraints(<value>) inside the loop")
    for s, flag, arg in checks:
        ctx.check(arg == v, R, f, "checked value %s" % arg, "the check is applied to the drawn value '%s'" % v,
                  "_check_constraints is applied to '%s' but '%s' is what is drawn and returned" % (arg, v), s)
    flags = {fl for _, fl, _ in checks if fl}
    # flag is assigned inside the loop only from the check
    for fl in sorted(flags):
        bad = [s for s in inside if fl in _names_assigned(s) and not (isinstance(s, ast.Assign) and _is_check_call(s.value))]
        ctx.check(not bad, R, f, "flag %s" % fl, "inside the loop the verdict flag '%s' is assigned only from _check_constraints" % fl,
                  "the verdict flag '%s' is also set by `%s` inside the loop: the loop can end without the constraints holding" % (
                      fl, ast.unparse(bad[0]) if bad else ""), bad[0] if bad else None)

    def truthy_guard(test, polarity):
        """does (test == polarity) imply that the check passed?"""
        if polarity and isinstance(test, ast.Name) and test.id in flags:
            return True
        if polarity and _is_check_call(test) == v:
            return True
        if not polarity and isinstance(test, ast.UnaryOp) and isinstance(test.op, ast.Not):
            return truthy_guard(test.operand, True)
        if polarity and isinstance(test, ast.BoolOp) and isinstance(test.op, ast.And):
            return any(truthy_guard(x, True) for x in test.values)
        if not polarity and isinstance(test, ast.BoolOp) and isinstance(test.op, ast.Or):
            return any(truthy_guard(x, False) for x in test.values)
        return False

    # exits of the loop
    n_exits = 0
    const_true = isinstance(lp.test, ast.Constant) and bool(lp.test.value)
    if not const_true:
        n_exits += 1
        ctx.check(truthy_guard(lp.test, False), R, f, "loop test %s" % ast.unparse(lp.test),
                  "the loop test ends the loop only when the check passed",
                  "the loop condition `%s` can end the loop although the constraint check did not pass" % ast.unparse(lp.test), lp)
        # flag initialised falsy before the loop
        for fl in sorted(flags):
            init = [s for s in f.node.body if isinstance(s, ast.Assign) and fl in _names_assigned(s) and f.node.body.index(s) < f.node.body.index(lp)]
            ctx.check(len(init) == 1 and isinstance(init[0].value, ast.Constant) and init[0].value.value is False, R, f, "flag init",
                      "the verdict flag starts False (at least one draw is checked)", "the verdict flag '%s' does not start False" % fl)
    from ..cfg import guard_stack
    gs = guard_stack(f.node)
    for s in inside:
        if isinstance(s, (ast.Break, ast.Return)):
            n_exits += 1
            stack = gs[id(s)]
            # guards that lie inside the loop
            inner = [(t, pol) for t, pol in stack if any(t is x for x in ast.walk(lp))]
            ok = any(truthy_guard(t, pol) for t, pol in inner if t is not lp.test)
            if isinstance(s, ast.Return):
                ok = ok and dotted(s.value) == v
            ctx.check(ok, R, f, "exit %s" % ast.unparse(s), "`%s` is taken only when the check passed" % ast.unparse(s),
                      "`%s` leaves the resampling loop without the constraint check having passed on the returned value" % ast.unparse(s), s)
    ctx.require(n_exits >= 1, "sample_continuous: the resampling loop has no exit")
    # between a passed check and the exit nothing re-draws
    for s, flag, arg in checks:
        cn = g.node_of(s)
        redraw = [d for d in draws if g.node_of(d).id in g.reachable(cn, avoid=[head])]
        ctx.check(not redraw, R, f, "no redraw after check", "the value is not re-drawn between its check and the loop test",
                  "a new value is drawn after the check and before the loop decides to stop", redraw[0] if redraw else None)
        # every path from loop head to the check passes a draw
        ctx.check(g.every_path_passes(head, cn, [g.node_of(d) for d in draws],
                                      edge_filter=lambda a, b, lab: not (a is head and lab == "F")), R, f, "draw before check",
                  "every iteration draws before it checks", "an iteration can check a stale value", s)
    # what is returned after the loop
    rets = [s for s in statements(f.node) if isinstance(s, ast.Return) and s not in inside]
    ctx.check(len(rets) == 1 and dotted(rets[0].value) == v, R, f, "return %s" % (ast.unparse(rets[0]) if rets else None),
              "the checked value is what is returned", "sample_continuous returns %s, the checked value is '%s'" % ([ast.unparse(r) for r in rets], v))
    raises = [s for s in inside if isinstance(s, ast.Raise)]
    for s in raises:
        ctx.ok(R, f, "raise inside the loop releases no values", s, trivial=True)


def rule_check(ctx):
    R = "C22.check"
    f = ctx.fn("block:Block._check_constraints")
    F = Facts(f)
    body = f.node.body
    sel_loops = [s for s in body if isinstance(s, ast.For) and ast.unparse(s.iter) == "self.constraints"]
    sel_comp = [s for s in body if isinstance(s, ast.Assign) and isinstance(s.value, ast.ListComp) and
                ast.unparse(s.value.generators[0].iter) == "self.constraints"]
    ctx.require(len(sel_loops) + len(sel_comp) == 1, "_check_constraints: selection of the continuous constraints not found")
    if sel_loops:
        lp = sel_loops[0]
        cv = lp.target.id if isinstance(lp.target, ast.Name) else None
        ok = len(lp.body) == 1 and isinstance(lp.body[0], ast.If) and not lp.body[0].orelse and \
            ast.unparse(lp.body[0].test) == "isinstance(%s, ContinuousConstraint)" % cv and len(lp.body[0].body) == 1 and \
            isinstance(lp.body[0].body[0], ast.Expr) and isinstance(lp.body[0].body[0].value, ast.Call) and \
            call_attr(lp.body[0].body[0].value) == "append" and ast.unparse(lp.body[0].body[0].value.args[0]) == cv
        ccname = dotted(lp.body[0].body[0].value.func.value) if ok else None
    else:
        a = sel_comp[0]
        gen = a.value.generators[0]
        cv = gen.target.id if isinstance(gen.target, ast.Name) else None
        ok = len(gen.ifs) == 1 and ast.unparse(gen.ifs[0]) == "isinstance(%s, ContinuousConstraint)" % cv and ast.unparse(a.value.elt) == cv
        ccname = dotted(a.targets[0]) if ok else None
    ctx.check(ok, R, f, "selection", "every ContinuousConstraint of self.constraints (and nothing else filtered) is selected",
              "the continuous constraints are no longer selected by `isinstance(c, ContinuousConstraint)` over the unfiltered self.constraints",
              (sel_loops or sel_comp)[0])
    ctx.require(ccname is not None, "_check_constraints: selected list not identified")
    main_loops = [s for s in body if isinstance(s, ast.For) and dotted(s.iter) == ccname]
    ctx.require(len(main_loops) == 1, "_check_constraints: loop over the selected constraints not found")
    ml = main_loops[0]
    c = ml.target.id
    # returns
    rets = [s for s in statements(f.node) if isinstance(s, ast.Return)]
    in_loop = [s for s in rets if any(s is x for x in ast.walk(ml))]
    out_loop = [s for s in rets if s not in in_loop]
    bad_inner = [s for s in in_loop if not (isinstance(s.value, ast.Constant) and s.value.value is False)]
    ctx.check(not bad_inner, R, f, "returns inside loops", "inside the constraint x trial iteration only `return False` leaves",
              "`%s` inside the iteration accepts before every constraint was evaluated at every trial" % (ast.unparse(bad_inner[0]) if bad_inner else ""),
              bad_inner[0] if bad_inner else None)
    jumps = [s for s in ast.walk(ml) if isinstance(s, (ast.Break, ast.Continue))]
    ctx.check(not jumps, R, f, "no break/continue", "no break / continue cuts the iteration short",
              "a `%s` inside the constraint x trial iteration skips evaluations" % (ast.unparse(jumps[0]) if jumps else ""), jumps[0] if jumps else None)
    # early True only under "no constraints"
    for s in out_loop:
        val = s.value.value if isinstance(s.value, ast.Constant) else None
        if s is body[-1]:
            ctx.check(val is True, R, f, "final return", "True after the complete iteration", "the final return is `%s`" % ast.unparse(s), s)
            continue
        guard = [x for x in body if isinstance(x, ast.If) and any(s is y for y in x.body)]
        g_ok = len(guard) == 1 and ast.unparse(guard[0].test) in ("len(%s) == 0" % ccname, "not %s" % ccname, "0 == len(%s)" % ccname,
                                                                   "not len(%s)" % ccname) and body.index(guard[0]) < body.index(ml)
        ctx.check(val is True and g_ok, R, f, "early return", "an early True is returned only when there is no continuous constraint",
                  "`%s` under `%s` accepts without evaluating the constraints" % (ast.unparse(s), ast.unparse(guard[0].test) if guard else "?"), s)
    ctx.check(body[-1] in out_loop, R, f, "falls to True", "the function ends with the accepting return", "the function does not end with a return")
    # predicate evaluation
    tl = [s for s in ml.body if isinstance(s, ast.For)]
    ctx.require(len(tl) == 1 and isinstance(tl[0].target, ast.Name), "_check_constraints: trial loop not found")
    i = tl[0].target.id
    Fe = Facts(f)
    it = str(Fe.at(tl[0], tl[0].iter))
    ctx.check(it == "range(len(continuous_samples[%s.factors[0].name]))" % c, R, f, "trial range %s" % it, "every trial of the drawn values is examined",
              "the trial loop runs over `%s`, not over the full length of the drawn values" % it, tl[0])
    tests = [s for s in tl[0].body if isinstance(s, ast.If)]
    ctx.require(len(tests) == 1, "_check_constraints: predicate test not found")
    t = str(Fe.at(tests[0], tests[0].test))
    want = "not(%s.constraint_function(*[continuous_samples[_b0.name][%s] for _b0 in %s.factors]))" % (c, i, c)
    ctx.check(t == want and len(tests[0].body) == 1 and in_loop and tests[0].body[0] is in_loop[0] and not tests[0].orelse, R, f, "predicate %s" % t,
              "a falsy predicate on the values of c.factors at trial i rejects", "the predicate test is `%s` (expected `%s` -> return False)" % (t, want), tests[0])
    ctx.check(len(in_loop) == 1, R, f, "one rejecting return", "exactly one rejecting return", "%d returns inside the iteration" % len(in_loop))


def rule_output_keys(ctx, R="C22.inputs"):
    """the dict _sample_continuous returns holds the continuous factors only: it starts empty and is stored to under cFactor.name"""
    f = ctx.fn("block:Block._sample_continuous")
    rets = [s for s in statements(f.node) if isinstance(s, ast.Return)]
    ctx.require(len(rets) == 1 and isinstance(rets[0].value, ast.Name), "_sample_continuous: expected a single `return <dict>`")
    out = rets[0].value.id
    inits = [s for s in f.node.body if isinstance(s, ast.Assign) and dotted(s.targets[0]) == out]
    ctx.check(len(inits) == 1 and isinstance(inits[0].value, ast.Dict) and not inits[0].value.keys, R, f, "starts empty: %s" % (ast.unparse(inits[0]) if inits else None),
              "the returned dict starts empty, so it only ever holds continuous factors",
              "the dict returned by _sample_continuous starts as `%s`: everything in it is merged into the returned trials by synthesize_trials, including keys the hidden-name filter had removed" % (
                  ast.unparse(inits[0].value) if inits else "?"), inits[0] if inits else f.node)
    stores = [s for s in statements(f.node) if isinstance(s, ast.Assign) and isinstance(s.targets[0], ast.Subscript) and dotted(s.targets[0].value) == out]
    ctx.check(bool(stores) and all(ast.unparse(s.targets[0].slice).endswith(".name") for s in stores), R, f, "keys are continuous factor names", "entries are stored under the name of the continuous factor being sampled",
              "_sample_continuous stores under %s" % [ast.unparse(s.targets[0].slice) for s in stores])


def rule_inputs(ctx):
    R = "C22.inputs"
    rule_output_keys(ctx, R)
    f = ctx.fn("block:Block._sample_continuous")
    F = Facts(f)
    outer = [s for s in f.node.body if isinstance(s, ast.For)]
    ctx.require(len(outer) == 1 and ast.unparse(outer[0].iter) == "self.continuous_factors" and isinstance(outer[0].target, ast.Name),
                "_sample_continuous: loop over self.continuous_factors not found")
    cf = outer[0].target.id
    tl = [s for s in outer[0].body if isinstance(s, ast.For)]
    ctx.require(len(tl) == 1 and isinstance(tl[0].target, ast.Name), "_sample_continuous: trial loop not found")
    i = tl[0].target.id
    it = ast.unparse(tl[0].iter)
    ctx.check(it in ("range(self._trials_per_sample)", "range(self.trials_per_sample())"), R, f, "trial range %s" % it,
              "one value per trial of the block", "the per-trial loop runs over `%s`, not over the block's trial count" % it, tl[0])
    rets = [s for s in statements(f.node) if isinstance(s, ast.Return)]
    ctx.require(len(rets) == 1 and isinstance(rets[0].value, ast.Name), "_sample_continuous: expected a single `return <dict>`")
    out = rets[0].value.id
    # per-trial inputs: every subscript / get_window_val inside the trial loop that reads trial[...] or out[...]
    n = 0
    for node in ast.walk(tl[0]):
        if isinstance(node, ast.Subscript) and isinstance(node.ctx, ast.Load) and isinstance(node.value, ast.Subscript) and \
                dotted(node.value.value) in ("trial", out):
            n += 1
            idx = ast.unparse(node.slice)
            ctx.check(idx == i, R, f, "input %s" % ast.unparse(node), "input `%s` is taken at the trial being generated" % ast.unparse(node),
                      "input `%s` is read at index `%s`, the value being generated is for trial `%s`" % (ast.unparse(node), idx, i), node)
            key = ast.unparse(node.value.slice)
            ctx.check(key.endswith(".name"), R, f, "key %s" % key, "inputs are looked up by factor name", "input key is `%s`" % key, node, trivial=True)
        if isinstance(node, ast.Call) and call_attr(node) == "get_window_val":
            n += 1
            args = [ast.unparse(a) for a in node.args]
            ctx.check(args == [i, out], R, f, "window input %s" % ast.unparse(node), "the window is evaluated at the trial being generated, over the values of this sequence",
                      "get_window_val is called with %s, expected (%s, %s)" % (args, i, out), node)
    ctx.require(n >= 2, "_sample_continuous: only %d per-trial inputs found" % n)
    # one generated value per trial, appended to the list stored under the factor's own name
    gens = [s for s in tl[0].body if isinstance(s, ast.Assign) and isinstance(s.value, ast.Call) and call_attr(s.value) == "generate"]
    ctx.require(len(gens) == 1, "_sample_continuous: generate(...) call not found at the top of the trial loop body")
    gv = gens[0].targets[0].id
    ctx.check(ast.unparse(gens[0].value) == "%s.generate(sample_input)" % cf, R, f, "generate", "the factor's own generator receives the assembled inputs",
              "the value is produced by `%s`" % ast.unparse(gens[0].value), gens[0])
    apps = [s for s in tl[0].body if isinstance(s, ast.Expr) and isinstance(s.value, ast.Call) and call_attr(s.value) == "append" and
            [ast.unparse(a) for a in s.value.args] == [gv]]
    ctx.check(len(apps) == 1 and tl[0].body.index(apps[0]) > tl[0].body.index(gens[0]), R, f, "append once", "exactly one value is appended per trial",
              "the generated value is not appended exactly once per trial")
    lst = dotted(apps[0].value.func.value) if apps else None
    resets = [s for s in outer[0].body if isinstance(s, ast.Assign) and dotted(s.targets[0]) == lst and isinstance(s.value, ast.List) and not s.value.elts]
    ctx.check(len(resets) == 1 and outer[0].body.index(resets[0]) < outer[0].body.index(tl[0]), R, f, "fresh list per factor",
              "each factor's values start from an empty list", "the per-factor value list is not reset before the trial loop")
    stores = [s for s in outer[0].body if isinstance(s, ast.Assign) and isinstance(s.targets[0], ast.Subscript) and dotted(s.targets[0].value) == out]
    ok = bool(stores) and all(ast.unparse(s.targets[0].slice) == "%s.name" % cf and dotted(s.value) == lst for s in stores)
    ctx.check(ok, R, f, "store under own name", "the values are stored under the factor's own name in the returned dict",
              "the per-factor list is stored as %s" % [ast.unparse(s) for s in stores])
    # sample_input reset per trial
    si = [s for s in tl[0].body if isinstance(s, ast.Assign) and dotted(s.targets[0]) == "sample_input"]
    ctx.check(len(si) == 1 and isinstance(si[0].value, ast.List) and not si[0].value.elts and tl[0].body.index(si[0]) < tl[0].body.index(gens[0]), R, f,
              "inputs reset per trial", "the input list is rebuilt for every trial", "sample_input is not reset at the start of every trial")
    # every draw starts from a reset distribution: reset() is called per factor, inside the draw, before its trial loop
    resets_ = [c for c in ast.walk(outer[0]) if isinstance(c, ast.Call) and call_attr(c) == "reset" and not c.args]
    dists = F.assigns("dist")
    ok = len(resets_) == 1 and dotted(resets_[0].func.value) == "dist" and dists == ["%s.get_distribution()" % cf]
    if ok:
        holder = [s for s in outer[0].body if any(x is resets_[0] for x in ast.walk(s))]
        ok = len(holder) == 1 and outer[0].body.index(holder[0]) < outer[0].body.index(tl[0]) and not any(x is resets_[0] for x in ast.walk(tl[0]))
        if ok and isinstance(holder[0], ast.If):
            ok = ast.unparse(holder[0].test) in ("hasattr(dist, 'reset')", "hasattr(dist, \"reset\")") and not holder[0].orelse
    ctx.check(ok, R, f, "reset per draw", "each factor's distribution is reset inside every draw, before its first trial (stateful distributions restart with the sequence)",
              "the distribution of a factor is not reset (exactly once, before the trial loop) inside _sample_continuous: a rejected draw leaks state into the next one")
    # dependencies iterate over cFactor.get_levels()
    deps = F.assigns("dependents")
    ctx.check(deps == ["%s.get_levels()" % cf], R, f, "dependencies", "inputs are the factor's declared dependencies, in order", "dependents is %s" % deps)


def rule_window(ctx):
    R = "C22.window"
    f = ctx.fn("primitive:ContinuousFactorWindow.get_window_val")
    ctx.require(f.params[:3] == ["self", "idx", "dependent_dict"], "get_window_val: parameters changed: %s" % f.params)
    F = Facts(f)
    n = 0
    # every read of the window's factor (through local aliases): dependent_dict[f.name][INDEX], stored under KEY
    for st in F.stmts:
        if isinstance(st, (ast.For, ast.While, ast.If, ast.With, ast.Try)):
            continue
        for x in ast.walk(st):
            if not (isinstance(x, ast.Subscript) and isinstance(x.ctx, ast.Load)):
                continue
            nf = str(F.at(st, x))
            if not (nf.startswith("dependent_dict[") and nf.count("][") == 1):
                continue
            n += 1
            fac = nf[len("dependent_dict["):nf.index("][")]
            ctx.check(fac == "f.name", R, f, "factor %s" % fac, "read from the window's own factor", "window entry reads `%s`" % fac, st, trivial=True)
            # the key it is stored under: target subscript of the assignment, or the key of the enclosing dict comprehension
            dcs = [d for d in ast.walk(st) if isinstance(d, ast.DictComp) and any(y is x for y in ast.walk(d.value))]
            if dcs:
                keyn, gens = dcs[0].key, dcs[0].generators
                rng = ast.unparse(gens[0].iter) if len(gens) == 1 and not gens[0].ifs else "?"
            elif isinstance(st, ast.Assign) and isinstance(st.targets[0], ast.Subscript):
                keyn = st.targets[0].slice
                loop = [l for l in F.stmts if isinstance(l, ast.For) and any(st is y for y in ast.walk(l)) and isinstance(l.target, ast.Name)
                        and l.target.id in [y.id for y in ast.walk(keyn) if isinstance(y, ast.Name)]]
                rng = ast.unparse(loop[0].iter) if len(loop) == 1 else "?"
            else:
                ctx.bad(R, f, "entry %s" % ast.unparse(st)[:60], "window read `%s` is not stored under a key of the window dictionary" % ast.unparse(x), st)
                continue
            env = Env()
            key, idx = _sym(keyn, env), _sym(x.slice, env)
            ctx.check(idx - key == Poly.atom("idx"), R, f, "entry %s -> %s" % (ast.unparse(keyn), ast.unparse(x)),
                      "the entry under key -k is the value k trials before the current one", "window entry: key %s is filled from index %s (expected idx + key)" % (key, idx), st)
            ctx.check(rng in ("range(self.width)", "range(0, self.width)"), R, f, "width entries (%s)" % rng, "width entries per window", "the window ranges over `%s`" % rng, st)
            # a position before the first trial must not be read (a negative index wraps around to the end of the sequence)
            conds = F.conds(st)
            guarded = ("(0 <= %s)" % idx) in conds or "(-1 + self.width <= idx)" in conds
            if dcs and not guarded:
                guarded = any(str(F.at(st, c)) in ("(0 <= %s)" % idx,) for c in gens[0].ifs) if len(gens) == 1 else False
            ctx.check(guarded, R, f, "non-negative index %s" % idx, "the read at %s is reached only when that position exists (idx - k >= 0, or idx >= width - 1)" % idx,
                      "get_window_val reads dependent_dict[f.name][%s] on a path where %s can be negative (path condition %s): early trials take values from the end of the sequence instead of NaN" % (
                          idx, idx, conds), st)
    ctx.require(n >= 1, "get_window_val: no read of the window's factor found")
    t = F.tests()
    ctx.check(t[:2] == ["(idx < self.start)", "(((idx - self.start)%(self.stride) != 0) and (1 < self.stride))"], R, f, "undefined / skipped",
              "NaN before the window start and where the stride skips the trial", "applicability tests are %s" % t[:2])
    # the first two branches append the NaN entry
    ifs = [s for s in statements(f.node) if isinstance(s, ast.If)]
    nan_branches = [s for s in ifs[:2] if len(s.body) == 1 and ast.unparse(s.body[0]) == "outlist.append(self._return_nan())"]
    ctx.check(len(nan_branches) == 2, R, f, "NaN branches", "both branches yield the NaN entry", "the not-applicable branches no longer append self._return_nan()")
    rn = ctx.fn("primitive:ContinuousFactorWindow._return_nan")
    Fr = Facts(rn)
    body = " ".join(ast.unparse(s) for s in statements(rn.node))
    ctx.check("float('nan')" in body and "range(self.width)" in body and [ast.unparse(s) for s in statements(rn.node) if isinstance(s, ast.Return)] == ["return factor_idx"], R, rn, "NaN entry", "the NaN entry has width keys", "_return_nan changed")
    # partial window at the beginning (idx < width-1): NaN where idx-k < 0
    part = [s for s in statements(f.node) if isinstance(s, ast.If) and str(F.at(s, s.test)) == "(idx - k < 0)"]
    ctx.check(len(part) == 1 and "float('nan')" in ast.unparse(part[0].body[0]), R, f, "partial window", "positions before the first trial are NaN", "partial-window handling changed")


def rule_merge(ctx, R="C22.merge"):
    f = ctx.fn("main:synthesize_trials")
    rets = [s for s in statements(f.node) if isinstance(s, ast.Return) and s.value is not None]
    ctx.require(len(rets) == 1 and isinstance(rets[0].value, ast.Name), "synthesize_trials: expected a single `return <list>`")
    rv = rets[0].value.id
    gates = [s for s in f.node.body if isinstance(s, ast.If) and ast.unparse(s.test) in ("block.continuous_factors", "len(block.continuous_factors) > 0")]
    ctx.require(len(gates) == 1, "synthesize_trials: continuous-factor section not found")
    gate = gates[0]
    ctx.check(f.node.body.index(gate) < f.node.body.index(rets[0]) and not gate.orelse, R, f, "section before return", "continuous values are merged before the list is returned",
              "the continuous section no longer precedes the return")
    loops = [s for s in gate.body if isinstance(s, ast.For)]
    ctx.require(len(loops) == 1, "synthesize_trials: loop over the returned experiments not found")
    lp = loops[0]
    it = ast.unparse(lp.iter)
    tgt = ast.unparse(lp.target)
    ok = it in ("enumerate(%s)" % rv, rv)
    ctx.check(ok, R, f, "all experiments %s" % it, "every returned experiment is completed", "the merge loop runs over `%s`, not over every returned experiment" % it, lp)
    if it.startswith("enumerate") and isinstance(lp.target, ast.Tuple) and len(lp.target.elts) == 2:
        num, tr = lp.target.elts[0].id, lp.target.elts[1].id
    else:
        num, tr = None, tgt
    sc = [s for s in lp.body if isinstance(s, ast.Assign) and isinstance(s.value, ast.Call) and call_attr(s.value) == "sample_continuous"]
    ctx.require(len(sc) == 1, "synthesize_trials: block.sample_continuous call not found in the merge loop")
    args = [ast.unparse(a) for a in sc[0].value.args]
    same_trial = len(args) == 2 and args[1] in (tr, "%s[%s]" % (rv, num))
    ctx.check(dotted(sc[0].value.func) == "block.sample_continuous" and same_trial and (num is None or args[0] == num), R, f, "draw for own trials %s" % args,
              "the values are drawn from this experiment's own discrete trials", "sample_continuous is called with %s inside the loop over (%s)" % (args, tgt), sc[0])
    cs = sc[0].targets[0].id
    kl = [s for s in lp.body if isinstance(s, ast.For) and ast.unparse(s.iter) in (cs, "%s.keys()" % cs, "%s.items()" % cs)]
    upd = [s for s in lp.body if isinstance(s, ast.Expr) and ast.unparse(s.value) == "%s.update(%s)" % (tr, cs)]
    if upd:
        ctx.ok(R, f, "every key merged via update", upd[0])
    else:
        ok = len(kl) == 1 and len(kl[0].body) == 1 and not any(isinstance(x, (ast.If, ast.Continue, ast.Break)) for x in ast.walk(kl[0]))
        if ok:
            st = kl[0].body[0]
            k = ast.unparse(kl[0].target)
            ok = ast.unparse(st) in ("%s[%s] = %s[%s]" % (tr, k, cs, k),) or (
                ast.unparse(kl[0].iter).endswith(".items()") and isinstance(kl[0].target, ast.Tuple) and
                ast.unparse(st) == "%s[%s] = %s" % (tr, ast.unparse(kl[0].target.elts[0]), ast.unparse(kl[0].target.elts[1])))
        ctx.check(ok, R, f, "every key merged", "every key of the drawn values is written into the experiment, unfiltered",
                  "the merge of the continuous values into the experiment changed: %s" % ([ast.unparse(s) for s in kl] or "no key loop"), kl[0] if kl else lp)
    # the constraint class carries what the checker reads
    cc = ctx.cls("constraint:ContinuousConstraint")
    init = cc.methods.get("__init__")
    ctx.require(init is not None, "ContinuousConstraint.__init__ not found")
    src = " ".join(ast.unparse(s) for s in statements(init.node))
    ctx.check("self.factors = factors" in src and "self.constraint_function = constraint_function" in src, R, init, "constraint fields",
              "the checker reads the fields the constructor stores", "ContinuousConstraint no longer stores factors / constraint_function as given")


def check(ctx):
    rule_loop(ctx)
    rule_check(ctx)
    rule_inputs(ctx)
    rule_window(ctx)
    rule_merge(ctx)
    mod = sys.modules[__name__]
    P = "sweetpea/_internal/block.py"
    control(ctx, mod, "give up after max attempts",
            lambda s: variants.in_function(s, P, "Block.sample_continuous", "            if continue_counter >= max_attempts:\n",
                                           "            if continue_counter >= max_attempts:\n                meet_constraints = True\n"), "C22.loop")
    control(ctx, mod, "accept after the first constraint",
            lambda s: variants.in_function(s, P, "Block._check_constraints", "                if not _function(*inputs):\n                    return False\n",
                                           "                if not _function(*inputs):\n                    return False\n            return True\n"), "C22.check")
    control(ctx, mod, "previous trial's input",
            lambda s: variants.in_function(s, P, "Block._sample_continuous", "sample_input.append(trial[dependent.name][i])", "sample_input.append(trial[dependent.name][i - 1])"), "C22.inputs")
    control(ctx, mod, "window shifted by one",
            lambda s: variants.in_function(s, "sweetpea/_internal/primitive.py", "ContinuousFactorWindow.get_window_val",
                                           "                    factor_idx[-k] = dependent_dict[f.name][idx-k]\n                outlist.append(factor_idx)\n        if",
                                           "                    factor_idx[-k] = dependent_dict[f.name][idx-k-1]\n                outlist.append(factor_idx)\n        if"), "C22.window")
    ctx.min_instances("C22.loop", 8)
    ctx.min_instances("C22.check", 8)
    ctx.min_instances("C22.inputs", 15)
    ctx.min_instances("C22.window", 7)
    ctx.min_instances("C22.merge", 5)
