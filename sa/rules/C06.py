"""C06 -- exhausting RandomGen yields exactly the valid set; reported count is exact."""
import ast
import sys

from ..astutil import call_attr, dotted, statements, calls
from ..cfg import CFG
from ..facts import Facts, fact
from ..report import control
from .. import variants

TECHNIQUE = "loop-exit rule and post-dominance rule on the CFG of the sampling loop, provenance (normal forms) of the exhaustion bound and of every drawn range against the counted shapes"
EXPLANATION = """
Decides that the exhaustion bookkeeping is coherent: (bound) possible_keys = preamble_solution_count() x
solution_count() ** rounds_per_run x leftover_solution_count(), with rounds_per_run / leftover the quotient and
remainder of (trials - preamble) by the crossing size; (exits) the sampling loop is left only when enough samples
were accepted or when len(used_keys) == possible_keys; (record) the drawn key is stored in used_keys on every path
from generate_random_samples to the next iteration -- accept *and* reject -- because the store precedes the
rejection test; generate_random_samples re-draws while its key is in the `sampled` argument, which is used_keys;
(count) metrics['solution_count'] is enumerator.solution_count(), the value __count_solutions returned; (ranges)
every random.randrange(0, X) of the enumerator has X = the very shape field that the counting code filled
(crossings_shape, combinations_shapes, independent_shapes, _preamble_solution_count) with no arithmetic in
between, so the drawn range equals the counted range, and the counted total is the product the shapes describe; the
level list counted for an independent factor is the list kept for unranking and is the list without excluded levels
in every pass; (dispatch) counting, drawing and decoding choose between one source index per combination and one per
trial by the same test, which depends on the segment's own trial count (a flag cached at construction cannot);
the closed-form product is taken only for uniform completions and uniform copies, otherwise the count is summed over
all arrangements (checked by role); (filter) no verdict over several derived factors / constraints is overwritten per
loop iteration (a boolean initialised before a loop, assigned in it without mentioning itself, and read after it).
"""
NOT_DECIDED = "that the count equals the number of valid sequences and that the candidate-to-sequence map is injective (C05/C13 territory)."


def overwritten_flags(fn_node):
    """(loop, assignment, name) for every variable that is initialised before a for-loop, assigned inside it to a non-constant
    value that does not mention the variable itself, not followed by leaving the loop, and read after the loop: only the last
    iteration's verdict survives (`ok = test(x)` where `ok = ok and test(x)` / `if not test(x): ok = False` was meant)"""
    out = []
    body_lists = []
    for n in ast.walk(fn_node):
        for fld in ("body", "orelse", "finalbody"):
            b = getattr(n, fld, None)
            if isinstance(b, list) and b and isinstance(b[0], ast.stmt):
                body_lists.append(b)
    for blk in body_lists:
        for i, lp in enumerate(blk):
            if not isinstance(lp, ast.For):
                continue
            # only verdict variables: initialised to a boolean constant before the loop
            before = {t.id for st in blk[:i] for x in ast.walk(st) if isinstance(x, ast.Assign) and isinstance(x.value, ast.Constant) and isinstance(x.value.value, bool)
                      for t in x.targets if isinstance(t, ast.Name)}
            after_reads = {x.id for st in blk[i + 1:] for x in ast.walk(st) if isinstance(x, ast.Name) and isinstance(x.ctx, ast.Load)}

            def scan(stmts):
                for j, st in enumerate(stmts):
                    if isinstance(st, ast.Assign) and len(st.targets) == 1 and isinstance(st.targets[0], ast.Name):
                        v = st.targets[0].id
                        mentions = any(isinstance(x, ast.Name) and x.id == v for x in ast.walk(st.value))
                        leaves = j + 1 < len(stmts) and isinstance(stmts[j + 1], (ast.Break, ast.Return, ast.Raise))
                        if v in before and v in after_reads and not isinstance(st.value, ast.Constant) and not mentions and not leaves:
                            out.append((lp, st, v))
                    elif isinstance(st, ast.If):
                        scan(st.body)
                        scan(st.orelse)
                    elif isinstance(st, (ast.With, ast.Try)):
                        scan(st.body)
            scan(lp.body)
    return out


def check(ctx):
    R = "C06.bound"
    f = ctx.fn("random:RandomGen.__sample")
    F = Facts(f)
    E = "UCSolutionEnumerator(block)"
    T = "block.trials_per_sample()"
    fact(ctx, R, f, "rounds", F.assigns("rounds_per_run"), ["(-%s._preamble_size + %s)//(%s.crossing_size)" % (E, T, E)], "rounds = (trials - preamble) // crossing size")
    fact(ctx, R, f, "leftover", F.assigns("leftover"), ["(-%s._preamble_size + %s)%%(%s.crossing_size)" % (E, T, E)], "leftover = (trials - preamble) % crossing size")
    pk = [s for s in F.stmts if isinstance(s, ast.Assign) and dotted(s.targets[0]) == "possible_keys"]
    ctx.require(len(pk) == 1, "__sample: possible_keys not found")
    t = ast.unparse(pk[0].value).replace(" ", "")
    ctx.check(t == "enumerator.preamble_solution_count()*pow(enumerator.solution_count(),rounds_per_run)*enumerator.leftover_solution_count()", R, f, "possible_keys",
              "possible_keys = preamble count x round count ** rounds x leftover count", "possible_keys is computed as `%s`" % ast.unparse(pk[0].value), pk[0])
    fact(ctx, R, f, "reported count", F.assigns("metrics[]")[:1], ["%s.solution_count()" % E], "metrics['solution_count'] is the enumerator's count")
    m = [s for s in F.stmts if isinstance(s, ast.Assign) and isinstance(s.targets[0], ast.Subscript) and ast.unparse(s.targets[0]) == "metrics['solution_count']"]
    ctx.check(len(m) == 1, R, f, "metrics key", "the count is stored under 'solution_count'", "metrics['solution_count'] is stored %d times" % len(m))
    for name, field in (("solution_count", "_solution_count"), ("leftover_solution_count", "_leftover_solution_count"), ("preamble_solution_count", "_preamble_solution_count")):
        a = ctx.fn("random:UCSolutionEnumerator." + name)
        fact(ctx, R, a, name, Facts(a).returns(), ["self." + field], "%s() reports the counted field" % name)
    en = ctx.fn("random:UCSolutionEnumerator.__init__")
    Fe = Facts(en)
    sc = Fe.assigns("self._solution_count")
    ctx.check(len(sc) == 1 and sc[0].startswith("self.__count_solutions(self.crossing_size, self._components_shape, self._pmemo, "), R, en, "round count",
              "round count = __count_solutions(crossing size, the round's shape, the round's memo, ..)", "self._solution_count is `%s`" % (sc[0][:120] if sc else sc))
    lc = Fe.assigns("self._leftover_solution_count")
    ctx.check(len(lc) == 2 and lc[0] == "1" and lc[1] == "self.__count_solutions((block.trials_per_sample() - ite(([] == block.crossings), 0, self.preamble_sizes[self._partitions.main_crossing]))%(self.crossing_size), self._leftover_components_shape, self._leftover_pmemo, None, None)",
              R, en, "leftover count", "leftover count = 1 without leftover, else __count_solutions(leftover, its own shape and memo)", "leftover count is %s" % lc)
    raw = [s for s in Fe.stmts if isinstance(s, ast.Assign) and dotted(s.targets[0]) in ("self._solution_count", "self._leftover_solution_count") and isinstance(s.value, ast.Call)]
    shapes = [[ast.unparse(a) for a in s.value.args][:3] for s in raw]
    ctx.check(shapes == [["self.crossing_size", "self._components_shape", "self._pmemo"], ["leftover", "self._leftover_components_shape", "self._leftover_pmemo"]], R, en,
              "shape pairing %s" % shapes, "round / leftover counts fill the shape and memo that the corresponding draws use", "count/shape pairing changed: %s" % shapes)

    # ---- exits
    R = "C06.exits"
    g = CFG(f.node)
    loops = [s for s in f.node.body if isinstance(s, ast.While)]
    ctx.require(len(loops) == 1, "__sample: sampling loop not found")
    lp = loops[0]
    inside = [s for s in statements(f.node) if any(s is x for x in ast.walk(lp)) and s is not lp]
    exits = [s for s in inside if isinstance(s, (ast.Break, ast.Return, ast.Raise))]
    conds = [ast.unparse(lp.test)]
    ok = True
    for e in exits:
        guard = [s for s in inside if isinstance(s, ast.If) and any(x is e for x in s.body)]
        if not isinstance(e, ast.Break) or len(guard) != 1:
            ok = False
            ctx.bad(R, f, "exit %s" % ast.unparse(e), "the sampling loop has an unexpected exit: %s" % ast.unparse(e), e)
        else:
            conds.append("break if " + ast.unparse(guard[0].test))
    ctx.check(ok and conds == ["sampled < sample_count", "break if len(used_keys) == possible_keys"], R, f, "exits %s" % conds,
              "the loop ends when enough samples were accepted or every key was drawn", "the sampling loop can end for another reason: %s" % conds, lp)
    brk = [s for s in lp.body if isinstance(s, ast.If) and any(isinstance(x, ast.Break) for x in s.body)]
    gens = [s for s in inside if isinstance(s, ast.Assign) and isinstance(s.value, ast.Call) and call_attr(s.value) == "generate_random_samples"]
    ctx.require(len(gens) == 1, "__sample: generate_random_samples call not found")
    ctx.check(len(brk) == 1 and g.dominates(g.node_of(brk[0]), g.node_of(gens[0])), R, f, "exhaustion first", "exhaustion is tested before a new key is drawn (the re-draw loop needs a free key)",
              "a new key can be drawn before exhaustion is tested (generate_random_samples would spin forever)")
    inc = [s for s in inside if isinstance(s, ast.AugAssign) and dotted(s.target) == "sampled"]
    ctx.check(len(inc) == 1 and ast.unparse(inc[0]) == "sampled += 1", R, f, "progress", "one accepted sample, one increment", "`sampled` bookkeeping changed")

    # ---- record
    R = "C06.record"
    rec = [s for s in inside if isinstance(s, ast.Assign) and isinstance(s.targets[0], ast.Subscript) and dotted(s.targets[0].value) == "used_keys"]
    ctx.require(len(rec) == 1, "__sample: used_keys store not found")
    key = ast.unparse(rec[0].targets[0].slice)
    ctx.check(key == "enumerator.extract_sequence_key(%s)" % dotted(gens[0].targets[0]), R, f, "key %s" % key, "the recorded key is that of the candidate just drawn",
              "the recorded key is `%s`" % key, rec[0])
    head = g.node_of(lp)
    gn, rn = g.node_of(gens[0]), g.node_of(rec[0])
    ctx.check(g.every_path_passes(gn, head, [rn]) and g.every_path_passes(gn, g.exit, [rn]), R, f, "record on every path",
              "every path from the draw to the next iteration (accept or reject) records the key", "a drawn key can reach the next iteration without being recorded "
              "(e.g. only accepted candidates are recorded): exhaustion is then never detected", rec[0])
    args = [ast.unparse(a) for a in gens[0].value.args]
    ctx.check(args == ["rounds_per_run", "leftover", "used_keys"], R, f, "draw args %s" % args, "the draw avoids the keys in used_keys", "generate_random_samples is called with %s" % args)
    gr = ctx.fn("random:UCSolutionEnumerator.generate_random_samples")
    w = [s for s in gr.node.body if isinstance(s, ast.While)]
    ctx.check(len(w) == 1 and ast.unparse(w[0].test).endswith(" in sampled") and len(w[0].body) == 1 and dotted(w[0].body[0].targets[0]) == "choice", R, gr, "re-draw",
              "re-draws while the key is in `sampled`", "the re-draw loop of generate_random_samples changed")
    ch = [s for s in statements(gr.node) if isinstance(s, ast.Assign) and dotted(s.targets[0]) == "choice"]
    ctx.check(len(ch) == 2 and ast.unparse(ch[0].value) == ast.unparse(ch[1].value), R, gr, "same draw", "the re-draw draws from the same space as the first draw",
              "the re-draw differs from the initial draw")

    # ---- ranges
    R = "C06.ranges"
    want = {
        "random:UCSolutionEnumerator.generate_random_samples": {"self._preamble_solution_count"},
        "random:UCSolutionEnumerator.random_components": {"components_shape.crossings_shape", "len", "components_shape.combinations_shapes[p]"},
    }
    for ref, allowed in want.items():
        h = ctx.fn(ref)
        rr = [c for c in calls(h.node, nested=True) if call_attr(c) == "randrange"]
        ctx.require(len(rr) >= 1, "%s: randrange sites not found" % h.fq)
        for c in rr:
            lo, hi = ast.unparse(c.args[0]), ast.unparse(c.args[1])
            ok = lo == "0" and hi in allowed
            if hi == "len":
                # comprehension variable over a shape list
                comp = [n for n in ast.walk(h.node) if isinstance(n, (ast.ListComp, ast.GeneratorExp)) and any(x is c for x in ast.walk(n))]
                ok = ok and len(comp) >= 1 and ast.unparse(comp[0].generators[0].iter) in ("components_shape.combinations_shapes", "components_shape.independent_shapes")
            ctx.check(ok, R, h, "randrange(%s, %s)" % (lo, hi), "draw range = the counted shape field", "random.randrange(%s, %s) does not draw from a counted shape field as is "
                      "(drawn range and counted range differ)" % (lo, hi), c)
    cs = ctx.fn("random:UCSolutionEnumerator.__count_solutions")
    Fc = Facts(cs)
    fact(ctx, R, cs, "crossings_shape", Fc.assigns("components_shape.crossings_shape"), ["ite(((1 == self.__complex_crossing_instances) and self._crossing_is_unweighted), ite((first_n == len(self._crossing_instances)*self.__complex_crossing_instances), factorial(len(self._crossing_instances)*self.__complex_crossing_instances), (factorial(len(self._crossing_instances)*self.__complex_crossing_instances))//(factorial(-first_n + len(self._crossing_instances)*self.__complex_crossing_instances))), count_prefixes_of_permutations_with_copies(len(self._crossing_instances), self._m_or_counters, first_n, pmemo))"], "the permutation count is what crossings_shape holds")
    app = [e for e in Fc.exprs() if e.startswith("components_shape.")]
    ctx.check(app == ["components_shape.combinations_shapes.append(len(list(range(len(self._source_combinations)))))", "components_shape.independent_shapes.append(pow(len(%s), first_n))" % "list(filter(lambda l: not(self._block.is_excluded_combination({f: l})), f.levels))"]
              or (len(app) == 2 and app[0].startswith("components_shape.combinations_shapes.append(len(") and app[1].startswith("components_shape.independent_shapes.append(pow(len(")),
              R, cs, "shape fills", "one combinations entry per crossing instance, one independent entry (levels ** trials) per independent factor", "shape fills changed: %s" % app)
    # the level list of an independent factor: what is counted is what is kept for unranking, and it is the list without excluded levels,
    # in the full-round and in the leftover pass alike (no dependence on which pass is running)
    kept = [str(Fc.at(x, x.value.args[0])) for x in Fc.stmts if isinstance(x, ast.Expr) and isinstance(x.value, ast.Call) and dotted(x.value.func) == "ind_factor_levels.append" and x.value.args]
    counted = Fc.assigns("possibilities")
    FILTERED = ("[_b0 for _b0 in f.levels if not(self._block.is_excluded_combination({f: _b0}))]", "[_b0 for _b0 in list(f.levels) if not(self._block.is_excluded_combination({f: _b0}))]")
    ctx.check(len(kept) == 1 and len(counted) == 1 and any(kept[0] == "(f, %s)" % L and counted[0] == "pow(len(%s), first_n)" % L for L in FILTERED), R, cs, "independent levels counted = kept",
              "the independent factor's levels without excluded ones are counted (levels ** trials) and kept for unranking, identically in every pass",
              "the level list counted for an independent factor (%s) is not the list kept for unranking (%s), or not the list without excluded levels: keys then decode to the same sequence twice, or sequences are missed" % (counted, kept))
    body = ast.unparse(cs.node)
    ctx.check("solution_count = permutations" in body and "solution_count *= reduce(op.mul, components_shape.combinations_shapes, 1)" in body and
              "solution_count *= possibilities" in body and "possibilities = pow(len(levels), first_n)" in body and Fc.returns()[-1:] == [Fc.returns()[-1]], R, cs, "count product",
              "the count is the product of exactly the quantities stored in the shape", "the solution count is no longer the product of the stored shapes")
    cp = ctx.fn("random:UCSolutionEnumerator.__count_preamble_solutions")
    Fp = Facts(cp)
    ctx.check(Fp.returns() == ["1", "pow(combos, self._preamble_size)"] and Fp.augs("combos") == ["*= len([_b0 for _b0 in f.levels if not(self._block.is_excluded_combination({f: _b0}))])"], R, cp, "preamble count",
              "preamble count = (product of allowed level counts of the basic factors) ** preamble trials", "preamble count changed: %s %s" % (Fp.returns(), Fp.augs("combos")))
    gp = ctx.fn("random:UCSolutionEnumerator.generate_preamble_sample")
    Fg = Facts(gp)
    ctx.check("range(self._preamble_size)" in Fg.iters() and "self._basic_factor_levels" in Fg.iters() and
              Fg.assigns("n") == ["(sequence_number)%(len(levels))"] and Fg.assigns("sequence_number") == ["(sequence_number)//(len(levels))"], R, gp, "preamble unranking",
              "the preamble index is unranked with the radices the count multiplied (same factors, same level lists)", "preamble unranking changed")

    # ---- one index per combination, or one per trial: the three places that make this choice agree, and make it on the
    # number of *distinct* combinations of an unweighted crossing
    R = "C06.dispatch"
    sites = {"random:UCSolutionEnumerator.__count_solutions": "first_n", "random:UCSolutionEnumerator.random_components": "trial_count",
             "random:UCSolutionEnumerator.generate_trial_values": "trial_count"}
    forms = {}
    for ref, var in sites.items():
        h = ctx.fn(ref)
        ts = [x.test for x in statements(h.node) if isinstance(x, ast.If) and "_crossing_instances" in ast.unparse(x.test) or
              (isinstance(x, ast.If) and "crossing_size" in ast.unparse(x.test) and var in ast.unparse(x.test))]
        ts = [t for t in ts if var in [n.id for n in ast.walk(t) if isinstance(n, ast.Name)]]
        text = None
        if not ts:
            # the test may have been moved into a one-line helper method: self.<helper>(var)
            for x in statements(h.node):
                if isinstance(x, ast.If) and isinstance(x.test, ast.Call) and isinstance(x.test.func, ast.Attribute) and dotted(x.test.func.value) == "self" and \
                        [ast.unparse(a) for a in x.test.args] == [var] and h.cls is not None and h.cls.lookup(x.test.func.attr) is not None:
                    hm = h.cls.lookup(x.test.func.attr)
                    rets = [r for r in statements(hm.node) if isinstance(r, ast.Return)]
                    if len(rets) == 1 and len(hm.params) == 2:
                        ts = [x.test]
                        text = ast.unparse(rets[0].value).replace(hm.params[1], "N")
        if not ts:
            # by role: the two-way branch that separates per-combination from per-trial indexing; its test is judged after expanding an
            # attribute of self through the assignment that defines it (a flag cached in __init__ cannot depend on this call's trial count)
            role = [x for x in statements(h.node) if isinstance(x, ast.If) and x.orelse and
                    any(k in ast.unparse(x.body) + ast.unparse(x.orelse) for k in ("combinations_shapes", "components[1]"))]
            if len(role) == 1:
                t_ = role[0].test
                d_ = dotted(t_)
                if d_ and d_.startswith("self.") and h.cls is not None:
                    defs_ = [y for m_ in h.cls.methods.values() for y in statements(m_.node) if isinstance(y, ast.Assign) and dotted(y.targets[0]) == d_]
                    if len(defs_) == 1:
                        ts = [role[0].test]
                        text = "%s  [= %s, set in %s]" % (d_, " ".join(ast.unparse(defs_[0].value).split()), "__init__")
                if not ts:
                    ts = [role[0].test]
        ctx.require(len(ts) == 1, "%s: the per-combination / per-trial test was not found" % h.fq)
        forms[ref] = text if text is not None else ast.unparse(ts[0]).replace(var, "N")
        want_t = "N == len(self._crossing_instances) and self._crossing_is_unweighted"
        ctx.check(forms[ref] == want_t, R, h, "per-combination test: %s" % forms[ref], "one source-combination index per crossing combination exactly when the segment holds every distinct combination of an unweighted crossing once",
                  "%s decides between one index per combination and one per trial by `%s` (expected `%s`): the counted space and the drawn / decoded components no longer describe the same candidates" % (
                      h.qual, forms[ref], want_t), ts[0])
    ctx.check(len(set(forms.values())) == 1, R, ctx.fn("random:UCSolutionEnumerator.__count_solutions"), "siblings agree", "counting, drawing and decoding take the same branch",
              "counting, drawing and decoding decide differently: %s" % forms)
    scp = ctx.fn("random:UCSolutionEnumerator.sum_combination_products")
    ts = [x for x in statements(scp.node) if isinstance(x, ast.If) and "shapes[0]" in ast.unparse(x.test)]
    ctx.require(len(ts) == 1, "sum_combination_products: shortcut test not found")
    from ..sym import cond_literals as _cl
    t = sorted(_cl(ts[0].test, True))
    ret = [ast.unparse(x.value) for x in ts[0].body if isinstance(x, ast.Return)]
    ctx.check(t == ["all([(_b0 == shapes[0]) for _b0 in shapes])", "uniform_m"] and ret == ["solution_count * pow(shapes[0], first_n)"], R, scp, "closed form only for the uniform case",
              "the product shortcut is taken only when every combination has the same number of completions AND every combination has the same number of copies",
              "sum_combination_products takes the closed form under `%s` returning %s: with unequal completions per combination the count must be summed over the arrangements" % (t, ret), ts[0])
    Fs_ = Facts(scp)
    um_nf = str(Fs_.at(ts[0], ast.Name(id="uniform_m", ctx=ast.Load())))
    ctx.check(um_nf == "(all([(_b0 == m_or_counters[0]) for _b0 in m_or_counters]) or isinstance(m_or_counters, int))", R, scp, "uniform copies",
              "uniform copies: a single m, or a counter list whose entries are all equal", "the uniform-copies test of sum_combination_products changed")
    # general case, by role: an outer loop over every arrangement index 0..solution_count-1, the arrangement unranked with the same
    # counters, an inner product of shapes[p] over its positions, accumulated (+=) into the value that is returned
    ok_general = False
    general_rets = []
    for lp in [x for x in statements(scp.node) if isinstance(x, ast.For) and isinstance(x.target, ast.Name)]:
        it = ast.unparse(lp.iter).replace(" ", "")
        if it not in ("range(0,solution_count)", "range(solution_count)"):
            continue
        iv = lp.target.id
        unr = [x for x in lp.body if isinstance(x, ast.Assign) and isinstance(x.value, ast.Call) and dotted(x.value.func) == "compute_jth_prefix_of_permutations_with_copies"]
        if len(unr) != 1 or not isinstance(unr[0].targets[0], ast.Name):
            continue
        a_ = [str(Fs_.at(unr[0], y)) for y in unr[0].value.args]
        perm = unr[0].targets[0].id
        inner = [x for x in lp.body if isinstance(x, ast.For) and dotted(x.iter) == perm and isinstance(x.target, ast.Name)]
        if len(inner) != 1 or len(inner[0].body) != 1:
            continue
        mul = inner[0].body[0]
        pv = inner[0].target.id
        if not (isinstance(mul, ast.AugAssign) and isinstance(mul.op, ast.Mult) and isinstance(mul.target, ast.Name) and ast.unparse(mul.value) == "shapes[%s]" % pv):
            continue
        prodv = mul.target.id
        init1 = [x for x in lp.body if isinstance(x, ast.Assign) and dotted(x.targets[0]) == prodv and ast.unparse(x.value) == "1"]
        adds = [x for x in lp.body if isinstance(x, ast.AugAssign) and isinstance(x.op, ast.Add) and isinstance(x.target, ast.Name) and dotted(x.value) == prodv]
        if len(init1) != 1 or len(adds) != 1:
            continue
        accv = adds[0].target.id
        rets_ = [x for x in statements(scp.node) if isinstance(x, ast.Return) and dotted(x.value) == accv]
        zero = [x for x in statements(scp.node) if isinstance(x, ast.Assign) and dotted(x.targets[0]) == accv and ast.unparse(x.value) == "0"]
        if a_ == ["len(self._crossing_instances)", "m_or_counters", "first_n", iv, "pmemo"] and rets_ and zero:
            ok_general = True
            general_rets.extend(rets_)
    ctx.check(ok_general, R, scp, "general case sums over arrangements",
              "otherwise the count is the sum over all arrangements of the product of their completions", "the general case of sum_combination_products changed")
    # no third way out: every result of the function is the closed form of the uniform case or the sum of the general case
    other = [x for x in statements(scp.node) if isinstance(x, ast.Return) and x not in ts[0].body and not any(x is y for y in general_rets)]
    ctx.check(not other, R, scp, "no further shortcut", "the closed form of the uniform case and the sum over arrangements are the only results",
              "sum_combination_products has a further result path `%s` under %s: a closed form is exact only when every combination has the same number of completions and of copies; "
              "any other shortcut miscounts the candidates (RandomGen then stops early or draws out of range)" % (
                  ast.unparse(other[0]) if other else "", sorted(Fs_.conds(other[0])) if other else ""), other[0] if other else None)

    # ---- a verdict computed over several factors / constraints must not be overwritten per iteration
    R = "C06.filter"
    n_fn = 0
    for f_ in ctx.repo.all_functions:
        if f_.module.short != "random" or isinstance(f_.node, ast.Lambda):
            continue
        n_fn += 1
        hits = overwritten_flags(f_.node)
        for lp_, st_, v_ in hits:
            ctx.bad(R, f_, "%s = %s" % (v_, ast.unparse(st_.value)[:60]),
                    "%s assigns `%s = %s` inside `for %s in %s` and reads `%s` after the loop: each iteration overwrites the verdict of the previous ones, so only the last "
                    "element decides (a candidate / source combination rejected by an earlier element is kept)" % (
                        f_.qual, v_, ast.unparse(st_.value)[:80], ast.unparse(lp_.target), ast.unparse(lp_.iter)[:60], v_), st_)
        if not hits:
            ctx.ok(R, f_, "%s: no overwritten loop verdict" % f_.qual, trivial=True)
    ctx.require(n_fn >= 30, "only %d functions of the combinatoric sampler were scanned" % n_fn)

    mod = sys.modules[__name__]
    control(ctx, mod, "closed form whenever the copies are uniform",
            lambda s: variants.in_function(s, "sweetpea/_internal/sampling_strategy/random.py", "UCSolutionEnumerator.sum_combination_products",
                                           "if all([s == shapes[0] for s in shapes]) and uniform_m:", "if all([s == shapes[0] for s in shapes]) or uniform_m:"), "C06.dispatch")
    control(ctx, mod, "record the key only on accept",
            lambda s: variants.in_function(
                variants.in_function(s, "sweetpea/_internal/sampling_strategy/random.py", "RandomGen.__sample",
                                     "            used_keys[enumerator.extract_sequence_key(solution_variabless)] = True\n", ""),
                "sweetpea/_internal/sampling_strategy/random.py", "RandomGen.__sample", "            sampled += 1\n",
                "            sampled += 1\n            used_keys[enumerator.extract_sequence_key(solution_variabless)] = True\n"), "C06.record")
    control(ctx, mod, "draw one short of the counted range",
            lambda s: variants.in_function(s, "sweetpea/_internal/sampling_strategy/random.py", "UCSolutionEnumerator.random_components",
                                           "random.randrange(0, components_shape.crossings_shape)", "random.randrange(0, components_shape.crossings_shape - 1)"), "C06.ranges")
    control(ctx, mod, "possible_keys without the leftover factor",
            lambda s: variants.in_function(s, "sweetpea/_internal/sampling_strategy/random.py", "RandomGen.__sample",
                                           "\n                         * enumerator.leftover_solution_count())", ")"), "C06.bound")
    ctx.min_instances("C06.bound", 10)
    ctx.min_instances("C06.exits", 3)
    ctx.min_instances("C06.record", 5)
    ctx.min_instances("C06.ranges", 9)
    ctx.min_instances("C06.dispatch", 7)
