"""C01 -- formula-based samplers return only valid trial sequences (structural part)."""
import ast
import importlib
import sys

from ..astutil import call_attr, dotted, statements, calls
from ..cfg import CFG, enclosing_loops
from ..facts import Facts, fact
from ..report import control, Ctx, include
from ..sym import Env, _sym
from .. import variants
from . import C07, C15

TECHNIQUE = "pipeline completeness rules: provenance of the installed constraint list, must-apply rule on build_backend_request, def-use 'emission' rule (every request / clause set an encoder builds reaches the backend request), typestate rule for the fresh-variable counter in every encoder, argument provenance of the solver calls and decoding of every returned assignment; plus the encoder-side clauses shared with C07 / C10 / C14 / C15 / C16 / C26"
EXPLANATION = """
Decides that the encoding pipeline is complete and its variable bookkeeping sound: (install) _create hands
Block.__init__ the list [Cross(), Consistency()] + (copies of) the caller's constraints + Sustain() when some crossing
sustain count differs from 1, desugared as a whole, and appends the generated Derivation constraints; (apply)
build_backend_request starts the auxiliary counter at 1 + variables_per_sample() and calls apply on every element of
self.constraints, skipping only MinimumTrials (which acts on the trial count); (emit) inside every encoder (the
apply / apply_to_backend_request methods of the Constraint family and their private helpers) every LowLevelRequest
that is constructed and every clause set returned by block.cnf_fn flows into backend_request.ll_requests /
backend_request.cnfs (directly, through a local list, or through a helper's return value), and only Reify,
ContinuousConstraint and MinimumTrials emit nothing; (fresh) every block.cnf_fn call receives the up-to-date counter
-- backend_request.fresh itself, or a local copy taken inside the same loop iteration and advanced by exactly the
number of variables allocated from it -- and its second result is stored back into backend_request.fresh before the
next allocation / iteration / exit; direct allocations advance backend_request.fresh by what they take; (pipeline)
each formula-based sampler consults the error gate, passes the solver get_cnfs_as_json(), fresh - 1,
variables_per_sample() and the cardinality requests of the very request it built, decodes every returned assignment
with Gen.decode, and synthesize_trials completes every raw sample with add_implied_levels. The clauses about what the
individual encodings mean are those of C07 (crossing requirement; encoder / checker pairs incl. the per-case clause table
of the run-length encoders, as C01.encoders), C10 (cardinality), C14 (variable layout), C15
(derivations), C16 (trial count) and C26 (window scoping); they are evaluated here as well, under their own rule names.
"""
NOT_DECIDED = "that each individual encoding (window arithmetic, derivation index shifts, Latin-square rotations, the propositional meaning of the run-length implications beyond their recorded case table) means its documentation for every design."

INCLUDED = ["C10", "C14", "C15", "C16", "C18", "C25", "C26"]
NO_EMISSION = {"Reify": "documented no-op: only makes a factor non-implied", "ContinuousConstraint": "acts on continuous values after the discrete solve",
               "MinimumTrials": "acts on the trial count (Block.min_trials), skipped by build_backend_request"}


def encoders(ctx):
    """(class, function) for apply / apply_to_backend_request / private __apply helpers of every Constraint subclass"""
    base = ctx.repo.cls("base_constraint:Constraint")
    out = []
    for c in sorted(base.all_subclasses(), key=lambda c: c.name):
        for name, f in sorted(c.methods.items()):
            takes_request = "backend_request" in f.params and name not in ("__init__",)
            if name in ("apply", "apply_to_backend_request") or "__apply" in name or "__add_weight" in name or takes_request:
                if any(d == "abstractmethod" for d in f.decorators):
                    continue
                out.append((c, f))
                for g in f.nested.values():
                    if not isinstance(g.node, ast.Lambda):
                        out.append((c, g))
    return out


def rule_install(ctx):
    R = "C01.install"
    cr = ctx.fn("cross_block:MultiCrossBlockRepeat._create")
    src = [ast.unparse(s) for s in statements(cr.node)]
    ctx.check("all_constraints = cast(List[Constraint], [Cross(), Consistency()]) + constraints" in src, R, cr, "Cross, Consistency, caller's constraints",
              "the constraint list starts with Cross(), Consistency() and contains every constraint of the caller", "the initial constraint list of _create changed: %s" % [s for s in src if s.startswith("all_constraints =")][:2])
    ctx.check("constraints = [copy.copy(ct) for ct in constraints]" in src, R, cr, "all of the caller's constraints (copied)", "every caller constraint is kept (as a copy)",
              "_create no longer keeps a copy of every caller constraint")
    sus = [s for s in statements(cr.node) if isinstance(s, ast.If) and "crossing_sustain_counts" in ast.unparse(s.test)]
    ctx.check(len(sus) == 1 and ast.unparse(sus[0].test) == "any((count != 1 for count in crossing_sustain_counts))" and [ast.unparse(x) for x in sus[0].body] == ["all_constraints += [Sustain()]"],
              R, cr, "Sustain when nested", "Sustain() is installed exactly when some crossing is sustained", "the Sustain installation changed")
    ctx.check("all_constraints = _desugar_constraints(all_constraints, replacements)" in src, R, cr, "desugared as a whole", "the whole list is desugared", "the constraint list is no longer desugared as a whole")
    sup = [c for c in calls(cr.node) if ast.unparse(c.func) == "super().__init__"]
    ctx.require(len(sup) == 1, "_create: super().__init__ not found")
    ctx.check(len(sup[0].args) >= 5 and ast.unparse(sup[0].args[4]) == "all_constraints", R, cr, "handed to Block.__init__", "Block.__init__ receives the complete list",
              "Block.__init__ receives `%s` as its constraints" % (ast.unparse(sup[0].args[4]) if len(sup[0].args) >= 5 else "?"))
    ctx.check("self.constraints += DerivationProcessor.generate_derivations(self)" in src, R, cr, "derivations appended", "the generated Derivation constraints are appended",
              "the generated derivations are no longer appended to self.constraints")
    bi = ctx.fn("block:Block.__init__")
    ctx.check("self.constraints = list(constraints).copy()" in [ast.unparse(s) for s in statements(bi.node)], R, bi, "stored", "Block stores the list it was given", "Block.__init__ no longer stores the constraint list as given")
    # nothing removes constraints afterwards
    removed = []
    for f in ctx.repo.all_functions:
        if isinstance(f.node, ast.Lambda):
            continue
        for c in calls(f.node):
            if isinstance(c.func, ast.Attribute) and c.func.attr in ("remove", "pop", "clear") and ast.unparse(c.func.value) in ("self.constraints", "block.constraints"):
                removed.append((f, c))
        for st in statements(f.node):
            if isinstance(st, ast.Assign) and any(ast.unparse(t) in ("block.constraints",) for t in st.targets):
                removed.append((f, st))
    ctx.check(not removed, R, cr, "never removed", "no code removes or replaces elements of a block's constraint list",
              "%s removes / replaces constraints of a block: `%s`" % (removed[0][0].fq if removed else "", ast.unparse(removed[0][1])[:80] if removed else ""))


def rule_apply_all(ctx):
    R = "C01.apply"
    f = ctx.fn("block:Block.build_backend_request")
    F = Facts(f)
    ctx.check(F.assigns("fresh") == ["1 + self.variables_per_sample()"], R, f, "aux start", "auxiliary variables start right above the trial variables", "the auxiliary counter starts at %s" % F.assigns("fresh"))
    ctx.check(F.assigns("backend_request") == ["BackendRequest(1 + self.variables_per_sample())"], R, f, "request", "the request is created with that counter", "backend_request is %s" % F.assigns("backend_request"))
    loops = [s for s in f.node.body if isinstance(s, ast.For)]
    ctx.require(len(loops) == 1, "build_backend_request: constraint loop not found")
    lp = loops[0]
    ctx.check(ast.unparse(lp.iter) == "self.constraints" and isinstance(lp.target, ast.Name), R, f, "all constraints", "the loop runs over self.constraints, unfiltered",
              "the loop runs over `%s`" % ast.unparse(lp.iter), lp)
    c = lp.target.id if isinstance(lp.target, ast.Name) else "c"
    skips = [s for s in lp.body if isinstance(s, ast.If)]
    # canonical path condition of the apply call: nothing, or `c is not a MinimumTrials` (guard clause with continue, or nesting)
    applies_ = [x for x in F.stmts if isinstance(x, ast.Expr) and isinstance(x.value, ast.Call) and dotted(x.value.func) == "%s.apply" % c]
    okskip = len(applies_) == 1 and F.conds(applies_[0]) in ([], ["not(isinstance(%s, MinimumTrials))" % c])
    ctx.check(okskip and len(skips) <= 1, R, f, "only MinimumTrials skipped", "the only constraint class not applied is MinimumTrials",
              "build_backend_request skips constraints under %s" % [ast.unparse(s.test) for s in skips], skips[0] if skips else lp)
    appl = [s for s in statements(lp) if isinstance(s, ast.Expr) and ast.unparse(s.value) == "%s.apply(self, backend_request)" % c]
    others = [s for s in lp.body if s not in skips and s not in appl]
    ctx.check(len(appl) == 1 and not others, R, f, "apply", "every other constraint is applied to this block and this request",
              "the loop body of build_backend_request changed: %s" % [ast.unparse(s)[:60] for s in lp.body])
    rets = [ast.unparse(s) for s in statements(f.node) if isinstance(s, ast.Return)]
    ctx.check(rets == ["return backend_request"], R, f, "returned", "the request that was filled is returned", "build_backend_request returns %s" % rets)
    # no break / early return in the loop
    jumps = [s for s in ast.walk(lp) if isinstance(s, (ast.Break, ast.Return))]
    ctx.check(not jumps, R, f, "complete loop", "nothing cuts the loop short", "a `%s` cuts the constraint loop short" % (ast.unparse(jumps[0]) if jumps else ""))


def _tainted_flow(fnode, sources, is_sink, helper_returns=False):
    """does every source expression node reach a sink?  returns list of sources that do not"""
    parents = {}
    for n in ast.walk(fnode):
        for ch in ast.iter_child_nodes(n):
            parents[id(ch)] = n
    stmts = list(statements(fnode))
    lost = []
    for src in sources:
        tainted = set()
        reached = False
        # iterate to a fixpoint over statements (handles loops)
        for _ in range(4):
            for st in stmts:
                own = [n for n in ast.walk(st)] if not isinstance(st, (ast.For, ast.While, ast.If, ast.With, ast.Try)) else \
                    [n for fld in ("test", "iter", "items") for x in ([getattr(st, fld, None)] if not isinstance(getattr(st, fld, None), list) else getattr(st, fld))
                     if x is not None for n in ast.walk(x)]
                has = any(n is src for n in own) or any(isinstance(n, ast.Name) and n.id in tainted and isinstance(n.ctx, ast.Load) for n in own)
                if not has:
                    continue
                if is_sink(st):
                    reached = True
                if isinstance(st, ast.Return) and helper_returns:
                    reached = True
                if isinstance(st, (ast.Assign, ast.AugAssign, ast.AnnAssign)):
                    ts = st.targets if isinstance(st, ast.Assign) else [st.target]
                    for t in ts:
                        for n in ast.walk(t):
                            if isinstance(n, ast.Name):
                                tainted.add(n.id)
                if isinstance(st, ast.For):
                    for n in ast.walk(st.target):
                        if isinstance(n, ast.Name):
                            tainted.add(n.id)
                if isinstance(st, ast.Expr) and isinstance(st.value, ast.Call) and isinstance(st.value.func, ast.Attribute) and \
                        st.value.func.attr in ("append", "extend", "insert") and isinstance(st.value.func.value, ast.Name):
                    tainted.add(st.value.func.value.id)
        if not reached:
            lost.append(src)
    return lost


def rule_emit(ctx):
    R = "C01.emit"
    n_src = 0
    emits = {}
    helpers = {}
    encs = encoders(ctx)
    for c, f in encs:
        helpers[f.name] = f
    for c, f in encs:
        is_helper = f.name not in ("apply", "apply_to_backend_request")
        llr = [x for x in calls(f.node, nested=True) if isinstance(x.func, ast.Name) and x.func.id == "LowLevelRequest"]
        # calls of request-building helpers count as sources too
        hcalls = [x for x in calls(f.node, nested=True) if isinstance(x.func, ast.Attribute) and x.func.attr.lstrip("_").startswith("add_weight_constraint") or
                  (isinstance(x.func, ast.Attribute) and "__add_weight_constraint" in x.func.attr)]

        def ll_sink(st):
            u = ast.unparse(st)
            return u.startswith("backend_request.ll_requests.append(") or u.startswith("backend_request.ll_requests +=") or u.startswith("backend_request.ll_requests.extend(")

        def cnf_sink(st):
            u = ast.unparse(st)
            return u.startswith("backend_request.cnfs.append(") or u.startswith("backend_request.cnfs +=") or u.startswith("backend_request.cnfs.extend(")
        for x in llr + hcalls:
            n_src += 1
            lost = _tainted_flow(f.node, [x], ll_sink, helper_returns=is_helper)
            ctx.check(not lost, R, f, "request %s" % ast.unparse(x)[:70], "the request built by %s reaches backend_request.ll_requests" % f.qual,
                      "%s builds `%s` but the value never reaches backend_request.ll_requests: that part of the constraint is silently not encoded" % (f.qual, ast.unparse(x)[:90]), x)
        cnfs = [s for s in statements(f.node) if isinstance(s, ast.Assign) and isinstance(s.value, ast.Call) and ast.unparse(s.value.func) == "block.cnf_fn"]
        for s in cnfs:
            n_src += 1
            t = s.targets[0]
            first = t.elts[0] if isinstance(t, ast.Tuple) and t.elts else None
            ctx.require(isinstance(first, ast.Name), "%s: cnf_fn result is not unpacked into (cnf, fresh)" % f.fq)
            uses = [st for st in statements(f.node) if cnf_sink(st) and any(isinstance(n, ast.Name) and n.id == first.id for n in ast.walk(st))]
            after = [st for st in uses if st.lineno >= s.lineno]
            ctx.check(bool(after), R, f, "clauses of %s" % ast.unparse(s.value)[:60], "the clause set returned by cnf_fn is appended to backend_request.cnfs",
                      "%s converts `%s` to CNF but never appends the result to backend_request.cnfs: the formula is not part of what the solver sees" % (f.qual, ast.unparse(s.value.args[0])[:60]), s)
        direct = [st for st in statements(f.node) if cnf_sink(st)]
        emits.setdefault(c.name, 0)
        emits[c.name] += len(llr) + len(hcalls) + len(direct)
    # classes that emit nothing
    base = ctx.repo.cls("base_constraint:Constraint")
    for c in sorted(base.all_subclasses(), key=lambda c: c.name):
        if c.subclasses and c.name.startswith("_"):
            continue
        total = sum(v for k, v in emits.items() if k in [x.name for x in c.mro()])
        if c.name in NO_EMISSION:
            ctx.exception(c.name, NO_EMISSION[c.name])
            ctx.ok(R, c, "%s emits nothing: %s" % (c.name, NO_EMISSION[c.name]), trivial=True)
            continue
        ctx.check(total > 0, R, c, "%s emits" % c.name, "%s contributes requests or clauses" % c.name,
                  "%s.apply adds nothing to the backend request: the constraint is accepted and silently ignored by the formula-based samplers" % c.name)
    ctx.require(n_src >= 16, "only %d request / clause sources found in the encoders" % n_src)


def rule_fresh(ctx):
    R = "C01.fresh"
    n = 0
    for c, f in encoders(ctx):
        loops = enclosing_loops(f.node)
        stmts = list(statements(f.node))
        blocks = {}
        for node in ast.walk(f.node):
            for fld in ("body", "orelse"):
                b = getattr(node, fld, None)
                if isinstance(b, list) and b and isinstance(b[0], ast.stmt):
                    for i, st in enumerate(b):
                        blocks[id(st)] = (b, i)
        # local copies of the counter
        copies = {}
        for st in stmts:
            if isinstance(st, ast.Assign) and len(st.targets) == 1 and isinstance(st.targets[0], ast.Name) and ast.unparse(st.value) == "backend_request.fresh":
                copies[st.targets[0].id] = st
        # --- cnf_fn calls
        for st in stmts:
            if not (isinstance(st, ast.Assign) and isinstance(st.value, ast.Call) and ast.unparse(st.value.func) == "block.cnf_fn"):
                continue
            n += 1
            call = st.value
            ctx.require(len(call.args) == 2, "%s: cnf_fn call with %d arguments" % (f.fq, len(call.args)))
            arg = ast.unparse(call.args[1])
            t = st.targets[0]
            ctx.require(isinstance(t, ast.Tuple) and len(t.elts) == 2, "%s: cnf_fn result is not unpacked into two targets" % f.fq)
            second = ast.unparse(t.elts[1])
            blk, i = blocks[id(st)]
            # (a) the counter argument
            if arg == "backend_request.fresh":
                ok_arg = True
                why = ""
                # stale if variables were allocated from a local copy that was never written back
                for v, cp in copies.items():
                    alloc = [s2 for s2 in stmts if cp.lineno < s2.lineno < st.lineno and any(
                        isinstance(x, ast.Call) and isinstance(x.func, ast.Name) and x.func.id == "range" and x.args and ast.unparse(x.args[0]) == v for x in ast.walk(s2))]
                    synced = [s2 for s2 in stmts if cp.lineno < s2.lineno < st.lineno and isinstance(s2, ast.Assign) and ast.unparse(s2.targets[0]) == "backend_request.fresh" and ast.unparse(s2.value) == v]
                    if alloc and not synced:
                        ok_arg = False
                        why = "variables were allocated from the local copy `%s` and never written back, so backend_request.fresh still points at them" % v
            elif arg in copies:
                cp = copies[arg]
                # the copy must be taken inside every loop that contains the call
                ok_arg = all(any(cp is x for x in ast.walk(lp)) for lp in loops.get(id(st), []))
                why = "the local copy `%s` is taken outside a loop that contains the call, so a later iteration passes a stale counter" % arg
                # allocations from the copy must be matched by advances
                allocs, advs = [], []
                for s2 in stmts:
                    for node in ast.walk(s2) if not isinstance(s2, (ast.For, ast.While, ast.If, ast.With, ast.Try)) else []:
                        if isinstance(node, ast.Call) and isinstance(node.func, ast.Name) and node.func.id == "range" and len(node.args) == 2 and ast.unparse(node.args[0]) == arg:
                            allocs.append((s2, _sym(node.args[1], Env()) - _sym(node.args[0], Env())))
                    if isinstance(s2, ast.AugAssign) and isinstance(s2.op, ast.Add) and ast.unparse(s2.target) == arg:
                        advs.append((s2, _sym(s2.value, Env())))
                env_ok = len(allocs) == len(advs) and all(str(a[1]) == str(b[1]) and a[0].lineno < b[0].lineno <= st.lineno for a, b in zip(allocs, advs))
                if ok_arg and not env_ok:
                    ok_arg = False
                    why = "variables are allocated from `%s` (%s) but it is advanced by %s before the call: the formula converter is given a counter that overlaps them" % (
                        arg, [str(a[1]) for a in allocs], [str(b[1]) for b in advs])
            else:
                ok_arg = False
                why = "`%s` is neither backend_request.fresh nor a local copy of it" % arg
            ctx.check(ok_arg, R, f, "counter passed to cnf_fn: %s" % arg, "cnf_fn receives the up-to-date counter",
                      "%s passes `%s` to block.cnf_fn: %s -- two encodings can then be given the same auxiliary variable" % (f.qual, arg, why), st)
            # (b) store-back
            if second == "backend_request.fresh":
                ok_store = True
            else:
                later = [s2 for s2 in blk[i + 1:] if isinstance(s2, ast.Assign) and ast.unparse(s2.targets[0]) == "backend_request.fresh" and ast.unparse(s2.value) == second]
                between = blk[i + 1: blk.index(later[0])] if later else []
                ok_store = bool(later) and not any(isinstance(x, ast.Call) and ast.unparse(x.func) == "block.cnf_fn" for s2 in between for x in ast.walk(s2)) and \
                    not any(isinstance(s2, (ast.Return, ast.Continue, ast.Break, ast.Raise)) for s2 in between)
            ctx.check(ok_store, R, f, "counter stored back from %s" % second, "the advanced counter is stored in backend_request.fresh right after the conversion",
                      "%s does not store the counter returned by block.cnf_fn (`%s`) back into backend_request.fresh before the next allocation / iteration / exit: "
                      "the next encoder re-uses the auxiliary variables of this one" % (f.qual, second), st)
        # --- direct allocations from backend_request.fresh
        for idx, st in enumerate(stmts):
            if isinstance(st, ast.Assign) and ast.unparse(st.value) == "backend_request.fresh" and isinstance(st.targets[0], ast.Name) and st.targets[0].id not in \
                    [ast.unparse(s2.value.args[1]) for s2 in stmts if isinstance(s2, ast.Assign) and isinstance(s2.value, ast.Call) and ast.unparse(s2.value.func) == "block.cnf_fn"]:
                # `v = backend_request.fresh` used as a variable (not as a counter copy): must be followed by `backend_request.fresh += 1`
                name = st.targets[0].id
                used_as_counter = any(isinstance(s2, ast.AugAssign) and ast.unparse(s2.target) == name for s2 in stmts)
                if used_as_counter:
                    continue
                n += 1
                blk, i = blocks[id(st)]
                nxt = blk[i + 1] if i + 1 < len(blk) else None
                ctx.check(nxt is not None and ast.unparse(nxt) == "backend_request.fresh += 1", R, f, "direct allocation %s" % name, "a variable taken from the counter advances it by one",
                          "%s takes `%s = backend_request.fresh` as a new variable without advancing the counter: the next allocation hands out the same variable" % (f.qual, name), st)
    ctx.require(n >= 10, "only %d counter events found in the encoders (10 confirmed by hand)" % n)


def rule_pipeline(ctx, R="C01.pipeline"):
    it = ctx.fn("iterate_sat:IterateSATGen.sample")
    cs = [c for c in calls(it.node) if call_attr(c) == "sample_non_uniform"]
    ctx.require(len(cs) == 1 and len(cs[0].args) == 5, "IterateSATGen.sample: sample_non_uniform call not found")
    Fit = Facts(it)
    cst_ = Fit.stmt_of(cs[0])
    args = [str(Fit.at(cst_, a)) for a in cs[0].args]
    B_ = "block.build_backend_request()"
    ctx.check(args[1] == "CNF(%s.get_cnfs_as_json())" % B_ and args[2] == "-1 + %s.fresh" % B_ and args[3] == "block.variables_per_sample()" and
              args[4] == "%s.get_requests_as_generation_requests()" % B_, R, it, "solver input %s" % args[1:],
              "the solver gets the clauses, the highest used variable, the trial-variable prefix and the cardinality requests of the request just built",
              "IterateSATGen passes %s" % args[1:], cs[0])
    F = Facts(it)
    ctx.check(F.assigns("backend_request") == ["block.build_backend_request()"], R, it, "request built here", "the request is built from this block", "backend_request is %s" % F.assigns("backend_request"))
    res = [r for r in Facts(it).returns() if "Gen.decode" in r] + [a for v in ("result", "decoded_samples", "samples") for a in Facts(it).assigns(v) if "Gen.decode" in a]
    ctx.check(bool(res) and all(r.replace("SamplingResult(", "").startswith("[Gen.decode(block, _b0.assignment) for _b0 in sample_non_uniform(") for r in res), R, it, "decode all", "every returned assignment is decoded with this block's layout",
              "IterateSATGen decodes as %s" % res)
    ug = ctx.fn("sampling_strategy.unigen:UniGen.sample")
    Fu = Facts(ug)
    dec_u = [a for v in ("result", "decoded_samples", "samples") for a in Fu.assigns(v) if "Gen.decode" in a] + [r for r in Fu.returns() if "Gen.decode" in r]
    ctx.check(Fu.assigns("backend_request") == ["block.build_backend_request()"] and bool(dec_u) and all("[Gen.decode(block, _b0.assignment) for _b0 in " in d for d in dec_u), R, ug, "UniGen builds and decodes", "UniGen / CMSGen build the request from this block and decode every assignment",
              "UniGen.sample no longer builds its request from the block / decodes with Gen.decode")
    su = [c for c in calls(ug.node) if call_attr(c) == "sample_uniform"]
    ctx.require(len(su) == 1, "UniGen.sample: sample_uniform call not found")
    ust_ = Fu.stmt_of(su[0])
    uargs = [str(Fu.at(ust_, a)) for a in su[0].args] + [str(Fu.at(ust_, k.value)) for k in su[0].keywords]
    ctx.check("CNF(%s.get_cnfs_as_json())" % B_ in uargs and "-1 + %s.fresh" % B_ in uargs and "block.variables_per_sample()" in uargs and
              "%s.get_requests_as_generation_requests()" % B_ in uargs, R, ug, "sampler input", "the sampler gets the same four quantities", "UniGen passes %s" % uargs, su[0])
    cm = ctx.fn("cmsgen:CMSGen.sample")
    ctx.check(Facts(cm).returns() in (["UniGen.sample(block, sample_count, min_search, use_cmsgen=True)"], ["UniGen.sample(block, sample_count, min_search=min_search, use_cmsgen=True)"]), R, cm, "CMSGen delegates", "CMSGen is UniGen's pipeline with the other sampler",
              "CMSGen.sample returns %s" % Facts(cm).returns())
    br = ctx.cls("backend:BackendRequest")
    gj = br.methods.get("get_cnfs_as_json")
    gr = br.methods.get("get_requests_as_generation_requests")
    ctx.require(gj is not None and gr is not None, "BackendRequest accessors not found")
    ctx.check(Facts(gj).returns() == ["cnf_to_json(self.cnfs)"] and Facts(gr).returns() == ["[_b0.to_generation_request() for _b0 in self.ll_requests]"], R, br, "accessors",
              "all clause sets and all requests of the backend request are handed over", "BackendRequest accessors changed")
    st = ctx.fn("main:synthesize_trials")
    # by role: a loop over raw_samples whose own variable is handed to block.add_implied_levels
    ok_impl = False
    for lp_ in [x for x in statements(st.node) if isinstance(x, ast.For) and dotted(x.iter) == "raw_samples" and isinstance(x.target, ast.Name)]:
        ok_impl = ok_impl or any(isinstance(c_, ast.Call) and dotted(c_.func) == "block.add_implied_levels" and len(c_.args) == 1 and dotted(c_.args[0]) == lp_.target.id
                                 for c_ in ast.walk(lp_))
    ctx.check(ok_impl, R, st, "implied levels", "every raw sample is completed with the implied factors",
              "synthesize_trials no longer completes every raw sample with add_implied_levels")
    C15.gate_rule(ctx, "C01.gate")


def check(ctx):
    rule_install(ctx)
    rule_apply_all(ctx)
    rule_emit(ctx)
    rule_fresh(ctx)
    rule_pipeline(ctx)
    C07.crossing_facts(ctx, R="C01.crossing")
    C07.latin_rotations(ctx, R="C01.latin")
    # what the individual constraint encoders emit, against what their checkers mean (the encoder is one side of every pair)
    for pair in (C07.pair_sequential, C07.pair_latin, C07.pair_sustain, C07.pair_pin, C07.pair_exclude, C07.pair_kinarow):
        pair(ctx, R="C01.encoders")
    if not ctx.is_control or getattr(ctx, "nested_ok", False):
        for name in INCLUDED:
            include(ctx, name)
    mod = sys.modules[__name__]
    C = "sweetpea/_internal/constraint.py"
    control(ctx, mod, "Sustain forgets to store the counter", lambda s: variants.in_function(s, C, "Sustain.apply", "        backend_request.fresh = new_fresh", "        pass"), "C01.fresh")
    control(ctx, mod, "Cross passes the stale counter", lambda s: variants.in_function(s, C, "Cross.apply", "block.cnf_fn(And(iffs), fresh)", "block.cnf_fn(And(iffs), backend_request.fresh)"), "C01.fresh")
    control(ctx, mod, "Cross advances by the wrong amount", lambda s: variants.in_function(s, C, "Cross.apply", "            fresh += num_state_vars\n", "            fresh += len(crossing_trials)\n"), "C01.fresh")
    control(ctx, mod, "ExactlyK builds a request without adding it",
            lambda s: variants.in_function(s, C, "ExactlyK.apply_to_backend_request", "backend_request.ll_requests.append(LowLevelRequest(\"EQ\", self.k, sublists))", "req = LowLevelRequest(\"EQ\", self.k, sublists)"), "C01.emit")
    control(ctx, mod, "Exclude is skipped by build_backend_request",
            lambda s: variants.in_function(s, "sweetpea/_internal/block.py", "Block.build_backend_request", "            if isinstance(c, MinimumTrials):\n", "            if isinstance(c, (MinimumTrials, Exclude)):\n"), "C01.apply")
    control(ctx, mod, "solver told a smaller variable count", lambda s: variants.in_function(s, "sweetpea/_internal/sampling_strategy/iterate_sat.py", "IterateSATGen.sample", "backend_request.fresh - 1", "backend_request.fresh - 2"), "C01.pipeline")
    ctx.min_instances("C01.install", 8)
    ctx.min_instances("C01.apply", 7)
    ctx.min_instances("C01.emit", 26)
    ctx.min_instances("C01.fresh", 16)
    ctx.min_instances("C01.pipeline", 8)
    ctx.min_instances("C01.gate", 5)
    ctx.min_instances("C01.crossing", 14)
    ctx.min_instances("C01.encoders", 40)
