"""Thorough tier: the rules with their wider sweeps (ctx.tier == 'thorough') plus checker self-validation on the
*current* tree: every seeded change under /verif/seeded that breaks this property must be reported (must-fire), and every
behaviour-preserving refactoring under /verif/refactors must leave the check silent (must-stay-silent).  Each variant is
the current /repo source with one patch applied, built in a scratch directory outside /repo and /verif and removed at
once; the rule modules analyse it exactly as they analyse /repo."""
from __future__ import annotations

import importlib
import json
import multiprocessing as mp
import os
import random
import shutil
import subprocess
import tempfile
import time
from typing import Dict, List, Optional, Tuple

from . import report
from .model import read_sources, REPO

VERIF = os.path.dirname(os.path.dirname(os.path.abspath(__file__)))
SEEDED = os.path.join(VERIF, "seeded")
REFACTORS = os.path.join(VERIF, "refactors")


def _catalogue(prop: str) -> List[Tuple[str, str, str]]:
    """(name, kind, patch path)"""
    out = []
    if os.path.isdir(SEEDED):
        for n in sorted(os.listdir(SEEDED)):
            p = os.path.join(SEEDED, n, "patch.diff")
            m = os.path.join(SEEDED, n, "meta.json")
            if not (os.path.isfile(p) and os.path.isfile(m)):
                continue
            try:
                meta = json.load(open(m))
            except Exception:
                continue
            if meta.get("breaks_property") == prop and not meta.get("not_detected_by_design"):
                # a change that rewrites the checked construct beyond the fragment the rule understands must at least end
                # the check as ANALYSIS-ERROR (exit 2, fail closed); such changes are marked in their meta.json
                out.append((n, "MF2" if meta.get("accept_analysis_error") else "MF", p))
    if os.path.isdir(REFACTORS):
        for n in sorted(os.listdir(REFACTORS)):
            p = os.path.join(REFACTORS, n, "patch.diff")
            if os.path.isfile(p):
                out.append((n, "MS", p))
    return out


def _patched_sources(patch: str) -> Optional[Dict[str, str]]:
    repo = os.environ.get("SWEETPEA_REPO", REPO)
    tmp = tempfile.mkdtemp(prefix="sa_variant_")
    try:
        shutil.copytree(os.path.join(repo, "sweetpea"), os.path.join(tmp, "sweetpea"),
                        ignore=shutil.ignore_patterns("__pycache__", "*.pyc", "tests"))
        r = subprocess.run(["patch", "-p1", "-s", "--no-backup-if-mismatch", "-f", "-i", patch], cwd=tmp, capture_output=True, text=True)
        if r.returncode != 0:
            return None
        return read_sources(tmp)
    finally:
        shutil.rmtree(tmp, ignore_errors=True)


def _run_variant(args) -> Tuple[str, str, str, str]:
    prop, name, kind, patch = args
    src = _patched_sources(patch)
    if src is None:
        return name, kind, "stale", "patch no longer applies to the current tree"
    code, findings, ctx = report.run(prop, "thorough", quiet=True, write=False, sources=src)
    rules = sorted({f.rule for f in findings})
    if kind in ("MF", "MF2"):
        if code == 1 or (kind == "MF2" and code == 2):
            return name, "MF", "ok", ",".join(rules) if code == 1 else "ANALYSIS-ERROR (fail closed)"
        return name, "MF", "MISSED", "exit %d rules %s %s" % (code, rules, (getattr(ctx, "analysis_error", "") or "")[:160])
    if code == 0:
        return name, kind, "ok", ""
    detail = findings[0].message[:200] if findings else (getattr(ctx, "analysis_error", "") or "")[:200]
    return name, kind, "FALSE-ALARM" if code == 1 else "UNDECIDED", "exit %d rules %s %s" % (code, rules, detail)


def run(prop: str) -> int:
    t0 = time.time()
    code, findings, ctx = report.run(prop, "thorough")
    cat = _catalogue(prop)
    seed = int(os.environ.get("VERIF_SEED", "0") or 0)
    random.Random(seed).shuffle(cat)
    results: List[Tuple[str, str, str, str]] = []
    if cat:
        jobs = [(prop, n, k, p) for n, k, p in cat]
        with mp.Pool(min(16, len(jobs))) as pool:
            results = pool.map(_run_variant, jobs)
    bad = [r for r in results if r[2] in ("MISSED", "FALSE-ALARM", "UNDECIDED")]
    stale = [r for r in results if r[2] == "stale"]
    selfval = {
        "variants": len(results),
        "must_fire": sum(1 for r in results if r[1] == "MF"),
        "must_stay_silent": sum(1 for r in results if r[1] == "MS"),
        "ok": sum(1 for r in results if r[2] == "ok"),
        "stale": [r[0] for r in stale],
        "failed": [{"name": r[0], "kind": r[1], "result": r[2], "detail": r[3]} for r in bad],
        "fired": [{"name": r[0], "rules": r[3]} for r in results if r[1] == "MF" and r[2] == "ok"],
    }
    print("self-validation on this tree: %d variants (%d seeded changes that must fire, %d refactorings that must stay silent): %d ok, %d stale, %d failed" % (
        selfval["variants"], selfval["must_fire"], selfval["must_stay_silent"], selfval["ok"], len(stale), len(bad)))
    for r in bad:
        print("  %s variant '%s': %s (%s)" % (r[1], r[0], r[2], r[3]))
    if ctx is not None:
        mod = importlib.import_module("sa.rules." + prop)
        known_seen = getattr(ctx, "known_seen", [])
        aerr = getattr(ctx, "analysis_error", None)
        if bad and code == 0:
            aerr = "checker self-validation failed on this tree: " + "; ".join("%s:%s" % (r[0], r[2]) for r in bad)
        report.write_evidence(prop, "thorough", seed, ctx, mod, time.time() - t0, len(findings), known_seen,
                              analysis_error=aerr, selfval=selfval)
    if code == 0 and bad:
        print("ANALYSIS-ERROR property=%s the checker failed its self-validation on this tree (see above)" % prop)
        return 2
    return code
