"""Thorough tier: the rules with their wider sweeps (ctx.tier == 'thorough') plus checker self-validation:
seeded variants of the *current* source, computed in memory, that must fire (MF) or must stay silent (MS)."""
from __future__ import annotations

import importlib
import multiprocessing as mp
import os
import random
import sys
import time
from typing import Dict, List, Tuple

from . import report, variants
from .model import read_sources, REPO


def _load_catalogue(prop: str):
    try:
        m = importlib.import_module("selftest." + prop)
    except ModuleNotFoundError:
        return []
    return list(getattr(m, "VARIANTS", []))


def _run_variant(args) -> Tuple[str, str, str, str]:
    prop, idx = args
    cat = _load_catalogue(prop)
    v = cat[idx]
    name, kind, make = v[0], v[1], v[2]
    expect_rule = v[3] if len(v) > 3 else None
    try:
        src = make(read_sources(os.environ.get("SWEETPEA_REPO", REPO)))
    except variants.StaleVariant as e:
        return name, kind, "stale", str(e)
    code, findings, ctx = report.run(prop, "thorough", quiet=True, write=False, sources=src)
    rules = sorted({f.rule for f in findings})
    if kind == "MF":
        if code == 1 and (expect_rule is None or any(r.startswith(expect_rule) for r in rules)):
            return name, kind, "ok", ",".join(rules)
        if code == 2 and expect_rule == "ANALYSIS-ERROR":
            return name, kind, "ok", "analysis-error as expected"
        return name, kind, "MISSED", "exit %d rules %s" % (code, rules)
    else:
        if code == 0:
            return name, kind, "ok", ""
        return name, kind, "FALSE-ALARM", "exit %d rules %s %s" % (
            code, rules, (findings[0].message[:200] if findings else ""))


def run(prop: str) -> int:
    t0 = time.time()
    code, findings, ctx = report.run(prop, "thorough")
    cat = _load_catalogue(prop)
    seed = int(os.environ.get("VERIF_SEED", "0") or 0)
    order = list(range(len(cat)))
    random.Random(seed).shuffle(order)
    results = []
    if cat:
        jobs = [(prop, i) for i in order]
        workers = min(16, len(jobs))
        with mp.Pool(workers) as pool:
            results = pool.map(_run_variant, jobs)
    bad = [r for r in results if r[2] in ("MISSED", "FALSE-ALARM")]
    stale = [r for r in results if r[2] == "stale"]
    selfval = {
        "variants": len(results),
        "must_fire": sum(1 for r in results if r[1] == "MF"),
        "must_stay_silent": sum(1 for r in results if r[1] == "MS"),
        "ok": sum(1 for r in results if r[2] == "ok"),
        "stale": [r[0] for r in stale],
        "failed": [{"name": r[0], "kind": r[1], "result": r[2], "detail": r[3]} for r in bad],
        "fired": [{"name": r[0], "rules": r[3]} for r in results if r[1] == "MF" and r[2] == "ok"],
    }
    print("self-validation: %d variants (%d must-fire, %d must-stay-silent): %d ok, %d stale, %d failed" % (
        selfval["variants"], selfval["must_fire"], selfval["must_stay_silent"], selfval["ok"], len(stale), len(bad)))
    for r in bad:
        print("  %s variant '%s': %s (%s)" % (r[1], r[0], r[2], r[3]))
    # rewrite the evidence with the self-validation record
    if ctx is not None:
        mod = importlib.import_module("sa.rules." + prop)
        known_seen = getattr(ctx, "known_seen", [])
        aerr = getattr(ctx, "analysis_error", None)
        if bad and code == 0:
            aerr = "checker self-validation failed on this tree: " + "; ".join("%s:%s" % (r[0], r[2]) for r in bad)
        report.write_evidence(prop, "thorough", seed, ctx, mod, time.time() - t0, len(findings), known_seen,
                              analysis_error=aerr, selfval=selfval)
    if code == 0 and bad:
        print("ANALYSIS-ERROR property=%s the checker failed its self-validation on this tree (see above)" % prop)
        return 2
    return code
