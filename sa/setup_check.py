"""setup_cmd: verify the engines import, /repo parses, and the positive-control fixtures fire."""
import os
import sys


def main():
    from sa.model import Repo
    r = Repo()
    n = len(r.modules)
    print("setup: parsed %d modules, %d functions, %d classes under %s" % (
        n, len(r.all_functions), sum(1 for _ in r.classes()), r.root))
    if n < 40:
        print("setup: too few modules")
        return 2
    try:
        from sa import fixtures_check
        return fixtures_check.main()
    except ImportError:
        return 0


if __name__ == "__main__":
    sys.exit(main())
