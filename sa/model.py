"""E0 -- repository model: modules, classes (MRO), functions (nested ones too), imports.

Everything is read from the *current* working tree of the repository on every run
(REPO env var, default /repo).  No repository code is imported or executed.
"""
from __future__ import annotations

import ast
import hashlib
import os
from typing import Dict, Iterator, List, Optional, Tuple


class AnalysisError(Exception):
    """An anchor vanished, or a construct is outside what a rule understands."""


REPO = os.environ.get("SWEETPEA_REPO", "/repo")
PKG = "sweetpea"


def norm(node: ast.AST) -> str:
    """Normalised source text of a node (whitespace/paren independent)."""
    return ast.unparse(node)


class FunctionInfo:
    def __init__(self, module: "ModuleInfo", node, cls: Optional["ClassInfo"], parent: Optional["FunctionInfo"]):
        self.module = module
        self.node = node
        self.cls = cls                # innermost enclosing class (also for nested functions)
        self.parent = parent          # enclosing function, for nested defs / lambdas
        self.name = node.name if not isinstance(node, ast.Lambda) else "<lambda@%d>" % node.lineno
        if parent is not None:
            self.qual = parent.qual + "." + self.name
        elif cls is not None:
            self.qual = cls.name + "." + self.name
        else:
            self.qual = self.name
        self.decorators = [norm(d) for d in getattr(node, "decorator_list", [])]
        self.nested: Dict[str, FunctionInfo] = {}

    @property
    def fq(self) -> str:
        return self.module.short + ":" + self.qual

    @property
    def is_static(self) -> bool:
        return "staticmethod" in self.decorators

    @property
    def is_classmethod(self) -> bool:
        return "classmethod" in self.decorators

    @property
    def is_property(self) -> bool:
        return "property" in self.decorators

    @property
    def params(self) -> List[str]:
        a = self.node.args
        return [x.arg for x in list(a.posonlyargs) + list(a.args)] + \
               ([a.vararg.arg] if a.vararg else []) + [x.arg for x in a.kwonlyargs] + \
               ([a.kwarg.arg] if a.kwarg else [])

    def param_annotation(self, name: str) -> Optional[ast.AST]:
        a = self.node.args
        for x in list(a.posonlyargs) + list(a.args) + list(a.kwonlyargs):
            if x.arg == name:
                return x.annotation
        return None

    @property
    def body(self) -> List[ast.stmt]:
        if isinstance(self.node, ast.Lambda):
            return [ast.Return(value=self.node.body)]
        return self.node.body

    @property
    def file(self) -> str:
        return self.module.relpath

    def loc(self, node: Optional[ast.AST] = None) -> str:
        n = node if node is not None else self.node
        return "%s:%d" % (self.module.relpath, getattr(n, "lineno", 0))

    def __repr__(self):
        return "<fn %s>" % self.fq


class ClassInfo:
    def __init__(self, module: "ModuleInfo", node: ast.ClassDef):
        self.module = module
        self.node = node
        self.name = node.name
        self.base_exprs = [norm(b) for b in node.bases]
        self.bases: List[ClassInfo] = []          # resolved repository bases
        self.methods: Dict[str, FunctionInfo] = {}
        self.subclasses: List[ClassInfo] = []
        self.class_attrs: Dict[str, ast.AST] = {}

    @property
    def fq(self) -> str:
        return self.module.short + ":" + self.name

    def mro(self) -> List["ClassInfo"]:
        # C3 is overkill: the repository uses single inheritance among its own classes
        # (checked: a class with two repository bases raises AnalysisError below).
        out = [self]
        reps = [b for b in self.bases]
        if len(reps) > 1:
            raise AnalysisError("class %s has several repository bases; MRO model too simple" % self.fq)
        if reps:
            out += reps[0].mro()
        return out

    def lookup(self, name: str) -> Optional[FunctionInfo]:
        for c in self.mro():
            if name in c.methods:
                return c.methods[name]
        return None

    def defining_class(self, name: str) -> Optional["ClassInfo"]:
        for c in self.mro():
            if name in c.methods:
                return c
        return None

    def all_subclasses(self) -> List["ClassInfo"]:
        out, todo = [], list(self.subclasses)
        while todo:
            c = todo.pop()
            if c not in out:
                out.append(c)
                todo.extend(c.subclasses)
        return out

    def is_subclass_of(self, other: "ClassInfo") -> bool:
        return other in self.mro()

    def loc(self, node: Optional[ast.AST] = None) -> str:
        n = node if node is not None else self.node
        return "%s:%d" % (self.module.relpath, getattr(n, "lineno", 0))

    def __repr__(self):
        return "<class %s>" % self.fq


class ModuleInfo:
    def __init__(self, path: str, relpath: str, modname: str, src: str):
        self.path = path
        self.relpath = relpath
        self.modname = modname
        self.short = modname.split(".")[-1] if not modname.endswith("__init__") else modname
        self.src = src
        self.sha256 = hashlib.sha256(src.encode()).hexdigest()
        self.tree = ast.parse(src, filename=path)
        self.imports: Dict[str, str] = {}     # local alias -> qualified name
        self.star_imports: List[str] = []
        self.functions: Dict[str, FunctionInfo] = {}
        self.classes: Dict[str, ClassInfo] = {}
        self.assigns: Dict[str, ast.AST] = {}  # top-level NAME = expr

    def __repr__(self):
        return "<module %s>" % self.modname


def read_sources(root: str) -> Dict[str, str]:
    """All library sources of the repository: sweetpea/**/*.py except tests."""
    base = os.path.join(root, PKG)
    if not os.path.isdir(base):
        raise AnalysisError("repository package %s not found" % base)
    out: Dict[str, str] = {}
    for dirpath, dirnames, filenames in os.walk(base):
        dirnames[:] = sorted(d for d in dirnames if d not in ("tests", "__pycache__"))
        for fn in sorted(filenames):
            if not fn.endswith(".py"):
                continue
            path = os.path.join(dirpath, fn)
            rel = os.path.relpath(path, root)
            # sweetpea/_internal/core/tests.py is a test module, not library code
            if rel.endswith(os.path.join("core", "tests.py")):
                continue
            out[rel] = open(path, encoding="utf-8").read()
    return out


class Repo:
    def __init__(self, root: str = REPO, sources: Optional[Dict[str, str]] = None):
        """sources: optional {relative path: text} overriding / replacing what is on disk (used by the
        checker self-validation to analyse edited variants without touching any file)."""
        self.root = root
        self.modules: Dict[str, ModuleInfo] = {}       # by dotted module name
        self.by_short: Dict[str, List[ModuleInfo]] = {}
        self.all_functions: List[FunctionInfo] = []
        self.consulted: Dict[str, str] = {}
        self.sources: Dict[str, str] = {}
        self._load(sources)
        self._link()

    # ---------------------------------------------------------------- loading
    def _load(self, sources: Optional[Dict[str, str]] = None):
        if sources is None:
            sources = read_sources(self.root)
        self.sources = sources
        for rel in sorted(sources):
            src = sources[rel]
            modname = rel[:-3].replace(os.sep, ".")
            is_init = modname.endswith(".__init__")
            if is_init:
                modname = modname[: -len(".__init__")]
            path = os.path.join(self.root, rel)
            try:
                m = ModuleInfo(path, rel, modname, src)
            except SyntaxError as e:
                raise AnalysisError("cannot parse %s: %s" % (rel, e))
            if is_init:
                m.short = modname
            self.modules[modname] = m
            self.by_short.setdefault(m.short, []).append(m)
        for m in self.modules.values():
            self._index_module(m)

    def _index_module(self, m: ModuleInfo):
        for st in m.tree.body:
            self._index_stmt(m, st)

    def _index_stmt(self, m: ModuleInfo, st: ast.stmt):
        if isinstance(st, ast.Import):
            for a in st.names:
                m.imports[a.asname or a.name.split(".")[0]] = a.name
        elif isinstance(st, ast.ImportFrom):
            mod = st.module or ""
            if st.level:
                parts = m.modname.split(".")
                is_pkg = m.path.endswith("__init__.py")
                up = st.level - (1 if is_pkg else 0)
                basep = parts[: len(parts) - up] if up else parts
                if not is_pkg:
                    basep = parts[: len(parts) - st.level]
                mod = ".".join(basep + ([mod] if mod else []))
            for a in st.names:
                if a.name == "*":
                    m.star_imports.append(mod)
                else:
                    m.imports[a.asname or a.name] = mod + "." + a.name
        elif isinstance(st, (ast.FunctionDef, ast.AsyncFunctionDef)):
            f = FunctionInfo(m, st, None, None)
            m.functions[st.name] = f
            self._index_function(f)
        elif isinstance(st, ast.ClassDef):
            c = ClassInfo(m, st)
            m.classes[st.name] = c
            for s in st.body:
                if isinstance(s, (ast.FunctionDef, ast.AsyncFunctionDef)):
                    f = FunctionInfo(m, s, c, None)
                    c.methods[s.name] = f
                    self._index_function(f)
                elif isinstance(s, ast.Assign) and len(s.targets) == 1 and isinstance(s.targets[0], ast.Name):
                    c.class_attrs[s.targets[0].id] = s.value
                elif isinstance(s, ast.AnnAssign) and isinstance(s.target, ast.Name) and s.value is not None:
                    c.class_attrs[s.target.id] = s.value
        elif isinstance(st, ast.Assign) and len(st.targets) == 1 and isinstance(st.targets[0], ast.Name):
            m.assigns[st.targets[0].id] = st.value
        elif isinstance(st, ast.AnnAssign) and isinstance(st.target, ast.Name) and st.value is not None:
            m.assigns[st.target.id] = st.value
        elif isinstance(st, (ast.Try, ast.If)):
            for s in ast.iter_child_nodes(st):
                if isinstance(s, ast.stmt):
                    self._index_stmt(m, s)
                elif isinstance(s, ast.ExceptHandler):
                    for s2 in s.body:
                        self._index_stmt(m, s2)

    def _index_function(self, f: FunctionInfo):
        self.all_functions.append(f)

        def scan(node):
            for ch in ast.iter_child_nodes(node):
                if isinstance(ch, (ast.FunctionDef, ast.AsyncFunctionDef)):
                    g = FunctionInfo(f.module, ch, f.cls, f)
                    f.nested[ch.name] = g
                    self._index_function(g)
                elif isinstance(ch, ast.Lambda):
                    g = FunctionInfo(f.module, ch, f.cls, f)
                    f.nested[g.name + ":%d" % ch.col_offset] = g
                    self._index_function(g)
                elif isinstance(ch, ast.ClassDef):
                    continue
                else:
                    scan(ch)
        if isinstance(f.node, ast.Lambda):
            scan(f.node)
        else:
            for st in f.node.body:
                if isinstance(st, (ast.FunctionDef, ast.AsyncFunctionDef)):
                    g = FunctionInfo(f.module, st, f.cls, f)
                    f.nested[st.name] = g
                    self._index_function(g)
                else:
                    scan(st)

    def _link(self):
        for m in self.modules.values():
            for c in m.classes.values():
                for b in c.node.bases:
                    bc = self.resolve_class_expr(m, b)
                    if bc is not None:
                        c.bases.append(bc)
                        bc.subclasses.append(c)
        # signatures by bare name, kept only where every definition of the name agrees (used by sym to normalise keyword arguments)
        sigs = {}
        for f in self.all_functions:
            node = getattr(f, "node", None)
            if not isinstance(node, (ast.FunctionDef, ast.AsyncFunctionDef)):
                continue
            ps = [a.arg for a in node.args.posonlyargs + node.args.args if a.arg not in ("self", "cls")]
            sigs.setdefault(node.name, set()).add(tuple(ps))
        from . import sym as _sym_mod
        _sym_mod.SIGNATURES.clear()
        _sym_mod.SIGNATURES.update({k: list(next(iter(v))) for k, v in sigs.items() if len(v) == 1 and not k.startswith("__init__")})

    # ---------------------------------------------------------------- lookup
    def module(self, short: str) -> ModuleInfo:
        ms = self.by_short.get(short) or ([self.modules[short]] if short in self.modules else [])
        if len(ms) != 1:
            # allow dotted suffix
            ms = [m for n, m in self.modules.items() if n == short or n.endswith("." + short)]
        if len(ms) != 1:
            raise AnalysisError("module anchor '%s' not found (or ambiguous)" % short)
        self.consulted[ms[0].relpath] = ms[0].sha256
        return ms[0]

    def cls(self, ref: str) -> ClassInfo:
        """ref = 'module:Class'"""
        mod, name = ref.split(":")
        m = self.module(mod)
        if name not in m.classes:
            raise AnalysisError("class anchor '%s' not found" % ref)
        return m.classes[name]

    def fn(self, ref: str) -> FunctionInfo:
        """ref = 'module:func' | 'module:Class.method' | '...:outer.inner' """
        mod, qual = ref.split(":")
        m = self.module(mod)
        parts = qual.split(".")
        cur: Optional[FunctionInfo] = None
        if parts[0] in m.classes and len(parts) > 1:
            c = m.classes[parts[0]]
            cur = c.methods.get(parts[1])
            rest = parts[2:]
        else:
            cur = m.functions.get(parts[0])
            rest = parts[1:]
        for p in rest:
            if cur is None:
                break
            cur = cur.nested.get(p)
        if cur is None:
            raise AnalysisError("function anchor '%s' not found" % ref)
        return cur

    def has_fn(self, ref: str) -> bool:
        try:
            self.fn(ref)
            return True
        except AnalysisError:
            return False

    def resolve_name(self, m: ModuleInfo, name: str, _depth: int = 0):
        """Resolve a bare name used in module m to a ClassInfo / FunctionInfo / None."""
        if name in m.classes:
            return m.classes[name]
        if name in m.functions:
            return m.functions[name]
        if _depth > 6:
            return None
        if name in m.imports:
            q = m.imports[name]
            if q in self.modules:
                return self.modules[q]
            mod, _, attr = q.rpartition(".")
            if mod in self.modules:
                return self.resolve_name(self.modules[mod], attr, _depth + 1)
            return None
        for sm in m.star_imports:
            if sm in self.modules:
                tgt = self.modules[sm]
                exported = None
                if "__all__" in tgt.assigns:
                    try:
                        exported = set(ast.literal_eval(tgt.assigns["__all__"]))
                    except Exception:
                        exported = None
                if exported is not None and name not in exported:
                    continue
                if exported is None and name.startswith("_"):
                    continue
                r = self.resolve_name(tgt, name, _depth + 1)
                if r is not None:
                    return r
        return None

    def resolve_class_expr(self, m: ModuleInfo, e: ast.AST) -> Optional[ClassInfo]:
        if isinstance(e, ast.Subscript):
            e = e.value
        if isinstance(e, ast.Constant) and isinstance(e.value, str):
            try:
                e = ast.parse(e.value, mode="eval").body
            except SyntaxError:
                return None
        if isinstance(e, ast.Name):
            r = self.resolve_name(m, e.id)
            return r if isinstance(r, ClassInfo) else None
        if isinstance(e, ast.Attribute) and isinstance(e.value, ast.Name):
            r = self.resolve_name(m, e.value.id)
            if isinstance(r, ModuleInfo):
                return r.classes.get(e.attr)
        return None

    def classes(self) -> Iterator[ClassInfo]:
        for m in self.modules.values():
            yield from m.classes.values()

    def note_consulted(self, f):
        mod = f.module if hasattr(f, "module") else f
        self.consulted[mod.relpath] = mod.sha256
