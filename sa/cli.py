"""CLI: ./check <Cxx> [quick|thorough] [--explain <report>] | ./check --setup | ./check --all [tier]"""
import json
import os
import sys

HERE = os.path.dirname(os.path.dirname(os.path.abspath(__file__)))
sys.path.insert(0, HERE)

from sa import report  # noqa: E402


def explain(path):
    try:
        d = json.load(open(path))
    except Exception as e:
        print("cannot read %s: %s" % (path, e))
        return 2
    print("violation report for %s (tier %s)" % (d.get("property"), d.get("tier")))
    for f in d.get("findings", []):
        print("  %s\n    rule      : %s\n    where     : %s\n    construct : %s\n    message   : %s" % (
            f["loc"], f["rule"], f["where"], f["construct"], f["message"]))
    print("re-running the check against the current source:")
    code, _, _ = report.run(d.get("property"), d.get("tier", "quick"), write=False)
    return code


def main(argv):
    if not argv:
        print(__doc__)
        return 2
    if argv[0] == "--setup":
        from sa import setup_check
        return setup_check.main()
    if argv[0] == "--all":
        tier = argv[1] if len(argv) > 1 else "quick"
        man = json.load(open(os.path.join(HERE, "MANIFEST.json")))
        worst = 0
        for c in man["checks"]:
            code, _, _ = report.run(c["property_id"], tier)
            worst = max(worst, code)
        return worst
    prop = argv[0]
    rest = argv[1:]
    if "--explain" in rest:
        return explain(rest[rest.index("--explain") + 1])
    tier = os.environ.get("VERIF_TIER") or "quick"
    if rest and rest[0] in ("quick", "thorough"):
        tier = rest[0]
    if tier == "thorough":
        from sa import thorough
        return thorough.run(prop)
    code, _, _ = report.run(prop, tier)
    return code


if __name__ == "__main__":
    try:
        rc = main(sys.argv[1:])
    except SystemExit:
        raise
    except BaseException as e:  # never let a traceback look like a violation (exit 1)
        import traceback
        traceback.print_exc()
        print("ANALYSIS-ERROR internal error in the checker: %r" % (e,))
        rc = 2
    sys.exit(rc)
