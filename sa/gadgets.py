"""Clause-table extraction for the one-bit gadget builders of core/cnf.py (straight-line code)."""
from __future__ import annotations

import ast
from typing import Any, Dict, List, Optional, Tuple

from .astutil import call_attr, dotted
from .model import AnalysisError, FunctionInfo, Repo
from .terms import CNFV, ClauseV, Lit, NONE, TermEval


class Gadget:
    def __init__(self, name, inputs, fresh, clauses, outputs):
        self.name = name
        self.inputs: List[str] = inputs
        self.fresh: List[str] = fresh            # fresh variables in allocation order
        self.clauses: List[ClauseV] = clauses
        self.outputs: List[Lit] = outputs        # returned values, in order

    def __repr__(self):
        return "<gadget %s in=%s fresh=%s out=%s clauses=%d>" % (self.name, self.inputs, self.fresh, self.outputs, len(self.clauses))


def as_clauses(v) -> List[ClauseV]:
    """CNF.prepend semantics: Var -> unit clause, Clause -> itself, CNF -> its clauses."""
    if isinstance(v, Lit):
        return [ClauseV([v])]
    if isinstance(v, ClauseV):
        return [v]
    if isinstance(v, CNFV):
        return list(v.clauses)
    raise AnalysisError("prepend of a %s" % type(v).__name__)


def extract(repo: Repo, te: TermEval, f: FunctionInfo, args: Dict[str, Any], prefix: str = "") -> Gadget:
    """args: parameter name -> Lit | NONE"""
    params = f.params[1:]          # drop self
    if set(params) != set(args):
        raise AnalysisError("%s: expected arguments %s" % (f.fq, params))
    env: Dict[str, Any] = dict(args)
    fresh: List[str] = []
    clauses: List[ClauseV] = []
    outputs: List[Lit] = []
    done = [False]

    def ev(e):
        # self.get_fresh() allocates a fresh variable named after its target (handled in Assign)
        return te.eval(e, env, f)

    def run(stmts):
        for st in stmts:
            if done[0]:
                return
            if isinstance(st, ast.Expr) and isinstance(st.value, ast.Constant):
                continue
            if isinstance(st, ast.Assign) and len(st.targets) == 1:
                t, v = st.targets[0], st.value
                if isinstance(v, ast.Call) and dotted(v.func) == "self.get_fresh" and isinstance(t, ast.Name):
                    name = prefix + t.id
                    fresh.append(name)
                    env[t.id] = Lit(name)
                    continue
                if isinstance(t, ast.Name):
                    env[t.id] = ev(v)
                    continue
                raise AnalysisError("%s: assignment outside the gadget fragment: %s" % (f.fq, ast.unparse(st)))
            if isinstance(st, ast.Expr) and isinstance(st.value, ast.Call):
                c = st.value
                if dotted(c.func) in ("self.prepend", "self.append") and len(c.args) == 1:
                    clauses.extend(as_clauses(ev(c.args[0])))
                    continue
                raise AnalysisError("%s: call outside the gadget fragment: %s" % (f.fq, ast.unparse(st)))
            if isinstance(st, ast.If):
                c = te.cond(st.test, env, f)
                run(st.body if c else st.orelse)
                continue
            if isinstance(st, ast.Return):
                v = st.value
                if isinstance(v, ast.Call) and isinstance(v.func, ast.Attribute) and dotted(v.func.value) == "self":
                    callee = f.cls.lookup(v.func.attr) if f.cls else None
                    if callee is None:
                        raise AnalysisError("%s: delegation to unknown %s" % (f.fq, ast.unparse(v.func)))
                    cargs = {}
                    cps = callee.params[1:]
                    if len(cps) != len(v.args):
                        raise AnalysisError("%s: delegation arity" % f.fq)
                    for p, a in zip(cps, v.args):
                        cargs[p] = ev(a)
                    g = extract(repo, te, callee, cargs, prefix)
                    fresh.extend(g.fresh)
                    clauses.extend(g.clauses)
                    outputs.extend(g.outputs)
                else:
                    r = ev(v)
                    outputs.extend(list(r) if isinstance(r, (tuple, list)) else [r])
                done[0] = True
                return
            raise AnalysisError("%s: statement outside the gadget fragment: %s" % (f.fq, ast.unparse(st).split("\n")[0]))

    run(f.node.body)
    if not done[0]:
        raise AnalysisError("%s: no return reached" % f.fq)
    inputs = [a.name for a in args.values() if isinstance(a, Lit)]
    return Gadget(f.qual, inputs, fresh, clauses, outputs)
