"""E4 -- attribute write sites with receiver provenance (self / parameter / alias / element / fresh)."""
from __future__ import annotations

import ast
from typing import Dict, List, Optional, Set, Tuple

from .astutil import dotted, walk_body, statements
from .model import ClassInfo, FunctionInfo, Repo

MUTATORS = {"append", "extend", "insert", "add", "update", "pop", "remove", "clear", "sort", "reverse",
            "setdefault", "discard", "popitem", "__setitem__", "__delitem__"}
FRESH_CALLS = {"copy", "deepcopy", "list", "dict", "set", "tuple", "sorted", "copy.copy", "copy.deepcopy"}


class Write:
    __slots__ = ("fn", "node", "root", "root_kind", "attr", "kind", "via", "cls")

    def __init__(self, fn, node, root, root_kind, attr, kind, via=None, cls=None):
        self.fn = fn
        self.node = node
        self.root = root            # text of the receiver object ('self', 'block', 'ct', 'self._block')
        self.root_kind = root_kind  # self | param | fresh | elem | global | local | attr
        self.attr = attr
        self.kind = kind            # assign | aug | del | subscript | mutcall:<m> | setattr
        self.via = via              # alias name through which the write happened
        self.cls = cls              # ClassInfo of the receiver when known

    def text(self) -> str:
        return "%s.%s [%s%s]" % (self.root, self.attr, self.kind, (" via " + self.via) if self.via else "")

    def __repr__(self):
        return "<write %s in %s>" % (self.text(), self.fn.fq)


def _is_fresh_value(v: ast.AST, repo: Repo, m) -> bool:
    if isinstance(v, (ast.List, ast.Dict, ast.Set, ast.ListComp, ast.DictComp, ast.SetComp, ast.Tuple, ast.Constant)):
        return True
    if isinstance(v, ast.BinOp) and isinstance(v.op, ast.Add):
        return True      # a + b builds a new list
    if isinstance(v, ast.Call):
        d = dotted(v.func)
        if d in FRESH_CALLS or (d and d.split(".")[-1] in ("copy", "deepcopy")):
            return True
        if isinstance(v.func, ast.Name) and v.func.id == "cast" and len(v.args) == 2:
            return _is_fresh_value(v.args[1], repo, m)
        if repo.resolve_class_expr(m, v.func) is not None:
            return True
    return False


class Effects:
    def __init__(self, repo: Repo, cg):
        self.repo = repo
        self.cg = cg
        self._cache: Dict[str, List[Write]] = {}

    def attr_aliases(self, cls) -> Dict[str, Tuple]:
        """self.<A> of a class that is bound, in one of its methods, to the value of another object's attribute
        (self._factors = block.act_design): A -> (root text, attribute, class of the root or None).  A mutation of self.A is
        then a mutation of that attribute's value."""
        key = "alias:" + cls.fq
        if key in self._cache:
            return self._cache[key]          # type: ignore
        out: Dict[str, Tuple] = {}
        held: Dict[str, object] = {}         # self.B = <typed name>  ->  class
        for m in cls.methods.values():
            if isinstance(m.node, ast.Lambda) or not m.node.args.args:
                continue
            sn = m.node.args.args[0].arg
            types = self.cg._local_types(m)
            for n in walk_body(m.node, include_lambdas=False):
                if isinstance(n, ast.Assign) and len(n.targets) == 1 and isinstance(n.targets[0], ast.Attribute) and dotted(n.targets[0].value) == sn:
                    v = n.value
                    if isinstance(v, ast.Call) and isinstance(v.func, ast.Name) and v.func.id == "cast" and len(v.args) == 2:
                        v = v.args[1]
                    if isinstance(v, ast.Name) and v.id in types:
                        held[n.targets[0].attr] = types[v.id]
        for m in cls.methods.values():
            if isinstance(m.node, ast.Lambda) or not m.node.args.args:
                continue
            sn = m.node.args.args[0].arg
            types = self.cg._local_types(m)
            for n in walk_body(m.node, include_lambdas=False):
                if isinstance(n, ast.Assign) and len(n.targets) == 1 and isinstance(n.targets[0], ast.Attribute) and dotted(n.targets[0].value) == sn:
                    v = n.value
                    if isinstance(v, ast.Call) and isinstance(v.func, ast.Name) and v.func.id == "cast" and len(v.args) == 2:
                        v = v.args[1]
                    d = dotted(v)
                    if not d or "." not in d or _is_fresh_value(v, self.repo, m.module):
                        continue
                    root, attr = d.rsplit(".", 1)
                    rc = None
                    if root in types:
                        rc = types[root]
                    elif root.startswith(sn + ".") and root.count(".") == 1 and root.split(".")[1] in held:
                        rc = held[root.split(".")[1]]
                    if rc is not None:
                        out[n.targets[0].attr] = (root, attr, rc)
        self._cache[key] = out               # type: ignore
        return out

    def writes(self, f: FunctionInfo) -> List[Write]:
        if f.fq in self._cache:
            return self._cache[f.fq]
        out = self._compute(f)
        self._cache[f.fq] = out
        return out

    def _compute(self, f: FunctionInfo) -> List[Write]:
        repo, m = self.repo, f.module
        out: List[Write] = []
        if isinstance(f.node, ast.Lambda):
            body_nodes = list(ast.walk(f.node.body))
        else:
            body_nodes = list(walk_body(f.node, include_lambdas=False))
        top = f
        while top.parent is not None:
            top = top.parent
        selfname = None
        selfcls = None
        if top.cls is not None and not top.is_static and not isinstance(top.node, ast.Lambda) and top.node.args.args:
            selfname = top.node.args.args[0].arg
            selfcls = top.cls
        params: Set[str] = set()
        g: Optional[FunctionInfo] = f
        while g is not None:
            params |= set(g.params) if not isinstance(g.node, ast.Lambda) else {a.arg for a in g.node.args.args}
            g = g.parent
        types = self.cg._local_types(f)

        # ---- local aliases:  name -> ('attr', root, attr) | ('obj', root) | ('fresh',) | ('elem', container text)
        alias: Dict[str, Tuple] = {}
        changed = True
        assigns = []
        for n in body_nodes:
            if isinstance(n, ast.Assign) and len(n.targets) == 1 and isinstance(n.targets[0], ast.Name):
                assigns.append((n.targets[0].id, n.value))
            elif isinstance(n, ast.AnnAssign) and isinstance(n.target, ast.Name) and n.value is not None:
                assigns.append((n.target.id, n.value))
            elif isinstance(n, (ast.For, ast.AsyncFor)) and isinstance(n.target, ast.Name):
                assigns.append((n.target.id, ("elem", n.iter)))
            elif isinstance(n, (ast.ListComp, ast.GeneratorExp, ast.SetComp, ast.DictComp)):
                for gen in n.generators:
                    if isinstance(gen.target, ast.Name):
                        assigns.append((gen.target.id, ("elem", gen.iter)))
        counts: Dict[str, int] = {}
        for name, _ in assigns:
            counts[name] = counts.get(name, 0) + 1

        def classify(v) -> Optional[Tuple]:
            if isinstance(v, tuple) and v[0] == "elem":
                it = v[1]
                d = dotted(it)
                if d is None and isinstance(it, ast.Call) and it.args:
                    # filter(f, xs) / enumerate(xs) / reversed(xs) / zip(xs, ...)
                    d = dotted(it.args[-1]) if dotted(it.func) in ("filter", "map") else dotted(it.args[0])
                if d:
                    r = resolve_root(d)
                    if r[0] == "fresh":
                        return ("fresh",)
                    return ("elem", d)
                return None
            if isinstance(v, ast.Call) and isinstance(v.func, ast.Name) and v.func.id == "cast" and len(v.args) == 2:
                v = v.args[1]
            # x = self.m()  where m hands out one of the object's own attributes (return self.A): x aliases self.A
            if isinstance(v, ast.Call) and isinstance(v.func, ast.Attribute) and isinstance(v.func.value, ast.Name) and v.func.value.id == selfname and selfcls is not None:
                mm = selfcls.lookup(v.func.attr)
                if mm is not None and not isinstance(mm.node, ast.Lambda) and mm.node.args.args:
                    sn2 = mm.node.args.args[0].arg
                    rets = [x for x in walk_body(mm.node, include_lambdas=False) if isinstance(x, ast.Return) and x.value is not None]
                    if len(rets) == 1 and dotted(rets[0].value) and dotted(rets[0].value).startswith(sn2 + ".") and dotted(rets[0].value).count(".") == 1:
                        return ("attr", selfname, dotted(rets[0].value).split(".")[1])
            if _is_fresh_value(v, repo, m):
                return ("fresh",)
            d = dotted(v)
            if d:
                if "." in d:
                    root, attr = d.rsplit(".", 1)
                    return ("attr", root, attr)
                return ("obj", d)
            return None

        def resolve_root(text: str, depth=0) -> Tuple:
            """Classify an object expression text 'a.b' -> (kind, canonical text)"""
            head = text.split(".")[0]
            rest = text.split(".")[1:]
            if head == selfname:
                return ("self" if not rest else "attr", text)
            if head in alias and depth < 5:
                a = alias[head]
                if a[0] == "fresh":
                    return ("fresh", text)
                if a[0] == "obj":
                    return resolve_root(".".join([a[1]] + rest), depth + 1)
                if a[0] == "attr":
                    return resolve_root(".".join([a[1], a[2]] + rest), depth + 1)
                if a[0] == "elem":
                    return ("elem", "elem(%s)" % a[1] + ("." + ".".join(rest) if rest else ""))
            if head in params:
                return ("param" if not rest else "attr", text)
            return ("local" if not rest else "attr", text)

        for name, v in assigns:
            if counts[name] != 1 or name in params:
                continue
            c = classify(v)
            if c is not None:
                alias[name] = c
        # a name all of whose definitions are fresh values is fresh (also a parameter that is re-bound to a fresh
        # value, e.g. `constraints = constraints + []`; flow-insensitive: a mutation *before* the rebinding would be
        # missed, the repository has none -- rebinding is the first statement using the name wherever it occurs)
        by_name: Dict[str, List] = {}
        for name, v in assigns:
            by_name.setdefault(name, []).append(v)
        for name, vs in by_name.items():
            if name in alias:
                continue
            if name not in params and all(isinstance(v, tuple) and v[0] == "elem" for v in vs):
                cs = {classify(v) for v in vs}
                if len(cs) == 1 and None not in cs:
                    alias[name] = cs.pop()      # the same container iterated by several loops
                    continue
            if all(not isinstance(v, tuple) and _is_fresh_value(v, repo, m) for v in vs):
                alias[name] = ("fresh",)
                params.discard(name)

        def emit(node, recv: ast.AST, attr: str, kind: str):
            d = dotted(recv)
            if d is None:
                if isinstance(recv, ast.Call) and isinstance(recv.func, ast.Name) and recv.func.id == "cast" and len(recv.args) == 2:
                    d = dotted(recv.args[1])
                if d is None:
                    d = ast.unparse(recv)
            head = d.split(".")[0]
            via = None
            rk, canon = resolve_root(d)
            if head in alias:
                via = head
            cls = None
            if canon == selfname:
                cls = selfcls
            elif canon in types:
                cls = types[canon]
            elif head in types and "." not in d:
                cls = types[head]
            # the object written is `canon`; its kind is that of the whole expression
            if rk == "attr":
                # writing an attribute of an attribute value: x.a.b = ...  -> receiver object is x.a
                base_kind = resolve_root(canon.split(".")[0])[0]
                out.append(Write(f, node, canon, "attr:" + base_kind, attr, kind, via, cls))
            else:
                out.append(Write(f, node, canon, rk, attr, kind, via, cls))
            # the written attribute of self holds another object's attribute value: mutating it in place mutates that object
            if canon == selfname and selfcls is not None and kind != "assign":
                al = self.attr_aliases(selfcls).get(attr)
                if al is not None:
                    out.append(Write(f, node, al[0], "attr-alias", al[1], kind, "%s.%s" % (selfname, attr), al[2]))

        def target(t: ast.AST, node, kind: str):
            if isinstance(t, ast.Attribute):
                emit(node, t.value, t.attr, kind)
            elif isinstance(t, ast.Subscript):
                base = t.value
                while isinstance(base, ast.Subscript):
                    base = base.value
                if isinstance(base, ast.Attribute):
                    emit(node, base.value, base.attr, "subscript")
                elif isinstance(base, ast.Name) and base.id in params and base.id != selfname:
                    out.append(Write(f, node, base.id, "param", "<itself>", "subscript", None, None))
                elif isinstance(base, ast.Name) and base.id in alias and alias[base.id][0] == "attr":
                    a = alias[base.id]
                    emit(node, ast.parse(a[1], mode="eval").body, a[2], "subscript")
                    out[-1].via = base.id
            elif isinstance(t, (ast.Tuple, ast.List)):
                for e in t.elts:
                    target(e, node, kind)
            elif isinstance(t, ast.Starred):
                target(t.value, node, kind)

        for n in body_nodes:
            if isinstance(n, ast.Assign):
                for t in n.targets:
                    target(t, n, "assign")
            elif isinstance(n, ast.AnnAssign) and n.value is not None:
                target(n.target, n, "assign")
            elif isinstance(n, ast.AugAssign):
                if isinstance(n.target, ast.Name) and n.target.id in alias and alias[n.target.id][0] == "attr":
                    a = alias[n.target.id]      # d = self.design; d += [...]  mutates in place for lists
                    emit(n, ast.parse(a[1], mode="eval").body, a[2], "aug")
                    out[-1].via = n.target.id
                else:
                    target(n.target, n, "aug")
            elif isinstance(n, ast.Delete):
                for t in n.targets:
                    target(t, n, "del")
            elif isinstance(n, ast.Call):
                fn = n.func
                if isinstance(fn, ast.Attribute) and fn.attr in MUTATORS:
                    recv = fn.value
                    deep = ""
                    while isinstance(recv, ast.Subscript):      # self.crossings[0].append(x)
                        recv = recv.value
                        deep = "-deep"
                    if isinstance(recv, ast.Attribute):
                        emit(n, recv.value, recv.attr, "mutcall%s:%s" % (deep, fn.attr))
                    elif isinstance(recv, ast.Name) and recv.id in alias and alias[recv.id][0] == "attr":
                        a = alias[recv.id]
                        emit(n, ast.parse(a[1], mode="eval").body, a[2], "mutcall%s:%s" % (deep, fn.attr))
                        out[-1].via = recv.id
                    elif isinstance(recv, ast.Name) and recv.id in alias and alias[recv.id][0] == "elem" \
                            and "." in alias[recv.id][1]:
                        # for c in self.crossings: c.append(x)  -- mutates an element of the attribute value
                        cont = alias[recv.id][1]
                        root, attr = cont.rsplit(".", 1)
                        emit(n, ast.parse(root, mode="eval").body, attr, "mutcall-elem:" + fn.attr)
                        out[-1].via = recv.id
                    elif isinstance(recv, ast.Name) and recv.id in params and recv.id != selfname:
                        # mutation of a parameter object itself (summary used at call sites)
                        out.append(Write(f, n, recv.id, "param", "<itself>", "mutcall:" + fn.attr, None, None))
                elif isinstance(fn, ast.Name) and fn.id == "setattr" and len(n.args) >= 2:
                    nm = n.args[1].value if isinstance(n.args[1], ast.Constant) else "<dynamic>"
                    emit(n, n.args[0], str(nm), "setattr")
        return out
