"""Rule context, evidence files, violation reports, known-findings matching, runner."""
from __future__ import annotations

import ast
import importlib
import json
import os
import sys
import time
import traceback
from typing import Any, Dict, List, Optional

from .model import AnalysisError, Repo, FunctionInfo

VERIF = os.path.dirname(os.path.dirname(os.path.abspath(__file__)))
EVIDENCE_DIR = os.environ.get("VERIF_EVIDENCE_DIR", os.path.join(VERIF, "evidence"))
KNOWN = os.path.join(VERIF, "known_findings.json")


class Finding:
    def __init__(self, prop, rule, where, construct, message, loc):
        self.prop = prop
        self.rule = rule
        self.where = where            # qualified function / class
        self.construct = construct    # normalised construct text (no line numbers)
        self.message = message
        self.loc = loc                # file:line, for the reader only
        self.key = "%s|%s" % (where, construct)

    def as_dict(self):
        return {"property": self.prop, "rule": self.rule, "where": self.where, "construct": self.construct,
                "message": self.message, "loc": self.loc, "key": self.key}


class Ctx:
    def __init__(self, prop: str, tier: str, repo: Repo):
        self.prop = prop
        self.tier = tier
        self.repo = repo
        self.instances: List[Dict[str, Any]] = []
        self.findings: List[Finding] = []
        self.notes: List[str] = []
        self.exceptions: List[str] = []
        self.functions = set()
        self.rule_counts: Dict[str, int] = {}
        self.extra: Dict[str, Any] = {}
        self.control_errors: List[str] = []
        self.is_control = False

    # ---- anchors ------------------------------------------------------------
    def fn(self, ref: str) -> FunctionInfo:
        f = self.repo.fn(ref)
        self.functions.add(f.fq)
        return f

    def cls(self, ref: str):
        return self.repo.cls(ref)

    def require(self, cond, msg: str):
        if not cond:
            raise AnalysisError(msg)

    # ---- results ------------------------------------------------------------
    def ok(self, rule: str, where, what: str, node: Optional[ast.AST] = None, trivial: bool = False, **kw):
        """Record an examined rule instance that is satisfied."""
        w = where.fq if hasattr(where, "fq") else str(where)
        loc = where.loc(node) if hasattr(where, "loc") and node is not None else (
            where.loc() if hasattr(where, "loc") else "")
        d = {"rule": rule, "where": w, "loc": loc, "what": what, "ok": True, "trivial": trivial}
        d.update(kw)
        self.instances.append(d)
        self.rule_counts[rule] = self.rule_counts.get(rule, 0) + 1

    def bad(self, rule: str, where, construct: str, message: str, node: Optional[ast.AST] = None):
        """Record a violated rule instance."""
        w = where.fq if hasattr(where, "fq") else str(where)
        loc = where.loc(node) if hasattr(where, "loc") and node is not None else (
            where.loc() if hasattr(where, "loc") else "")
        f = Finding(self.prop, rule, w, construct, message, loc)
        if any(g.key == f.key and g.rule == f.rule for g in self.findings):
            return
        self.findings.append(f)
        self.instances.append({"rule": rule, "where": w, "loc": loc, "what": message, "ok": False,
                               "trivial": False, "construct": construct})
        self.rule_counts[rule] = self.rule_counts.get(rule, 0) + 1

    def check(self, cond: bool, rule: str, where, construct: str, ok_what: str, bad_message: str,
              node: Optional[ast.AST] = None, **kw):
        if cond:
            self.ok(rule, where, ok_what, node, **kw)
        else:
            self.bad(rule, where, construct, bad_message, node)
        return cond

    def note(self, msg: str):
        if msg not in self.notes:
            self.notes.append(msg)

    def exception(self, symbol: str, reason: str):
        self.exceptions.append("%s: %s" % (symbol, reason))

    def min_instances(self, rule: str, n: int):
        got = self.rule_counts.get(rule, 0)
        if got < n:
            raise AnalysisError("rule %s matched %d instance(s), fewer than the %d confirmed by hand "
                                "(the rule would pass vacuously)" % (rule, got, n))


def control(ctx: "Ctx", mod, name: str, make_variant, expect_rule: str, expect_where: Optional[str] = None):
    """Positive control, evaluated on every run: apply an in-memory edit that breaks one rule instance and require
    the same rule module to report it.  A stale anchor or a silent rule is an ANALYSIS-ERROR (the rule could be
    passing vacuously)."""
    if getattr(ctx, "is_control", False):
        return
    from . import variants
    try:
        src = make_variant(dict(ctx.repo.sources))
    except variants.StaleVariant as e:
        # the text the control edits is not present in this tree (the construct was rewritten): the control says
        # nothing about the rule's health here; the rule's own minimum instance counts still guard against a
        # vacuous pass.  Recorded, not fatal.
        ctx.note("positive control '%s' not applicable to this tree (%s)" % (name, e))
        ctx.extra.setdefault("controls_stale", []).append(name)
        return
    sub = Ctx(ctx.prop, ctx.tier, Repo(ctx.repo.root, sources=src))
    sub.is_control = True
    sub.nested_ok = True
    try:
        mod.check(sub)
    except AnalysisError as e:
        # the broken variant left the understood fragment: acceptable only if that is what the control expects
        if expect_rule == "ANALYSIS-ERROR":
            ctx.ok(ctx.prop + ".control", "control:" + name, "seeded defect rejected as analysis error: %s" % e, trivial=True)
            return
        # as in run(): a finding recorded before the analysis gave up still counts
        if not any(f.rule.startswith(expect_rule) for f in sub.findings):
            ctx.control_errors.append("positive control '%s' made the analysis fail instead of reporting: %s" % (name, e))
            return
    hits = [f for f in sub.findings if f.rule.startswith(expect_rule) and (expect_where is None or expect_where in f.where)]
    if not hits:
        ctx.control_errors.append("positive control '%s' was not reported by rule %s (reported: %s)" % (
            name, expect_rule, [(f.rule, f.where) for f in sub.findings][:5]))
        return
    ctx.ok(ctx.prop + ".control", "control:" + name, "seeded defect reported by %s: %s" % (hits[0].rule, hits[0].message[:160]),
           trivial=True)


def include(ctx: "Ctx", name: str, skip=()):
    """Evaluate another property's clauses inside this check, under their own rule names (their positive controls are
    skipped; findings are recorded for ctx.prop)."""
    mod = importlib.import_module("sa.rules." + name)
    sub = Ctx(ctx.prop, ctx.tier, ctx.repo)
    sub.is_control = True
    sub.nested_ok = True
    try:
        mod.check(sub)
    finally:
        for f in sub.findings:
            if any(f.rule.startswith(p) for p in skip):
                continue
            if not any(g.key == f.key and g.rule == f.rule for g in ctx.findings):
                ctx.findings.append(f)
        ctx.instances.extend(i for i in sub.instances if not any(i["rule"].startswith(p) for p in skip))
        for k, v in sub.rule_counts.items():
            ctx.rule_counts[k] = ctx.rule_counts.get(k, 0) + v
        ctx.functions |= sub.functions
        for nn in sub.notes:
            ctx.note(nn)
        ctx.exceptions.extend(x for x in sub.exceptions if x not in ctx.exceptions)
        ctx.extra.setdefault("included_clauses", []).append(name)


def load_known() -> Dict[str, Any]:
    if not os.path.exists(KNOWN):
        return {"findings": [], "fixed": []}
    with open(KNOWN) as f:
        return json.load(f)


def write_evidence(prop: str, tier: str, seed: int, ctx: Optional[Ctx], mod, wall: float, violations: int,
                   known_seen: List[str], analysis_error: Optional[str] = None, selfval: Optional[dict] = None):
    os.makedirs(EVIDENCE_DIR, exist_ok=True)
    inst = ctx.instances if ctx else []
    nontrivial = {(i["rule"], i["where"], i.get("construct") or i["what"]) for i in inst if not i.get("trivial")}
    samples = []
    seen_rules = set()
    for i in inst:          # a few instances of every rule, written out
        k = i["rule"]
        if sum(1 for s in samples if s["rule"] == k) < 3:
            samples.append({k2: v for k2, v in i.items() if k2 != "trivial"})
        seen_rules.add(k)
    cov = {
        "explanation": (getattr(mod, "EXPLANATION", "") or "").strip() or "static rule check",
        "not_decided": (getattr(mod, "NOT_DECIDED", "") or "").strip(),
        "evaluations": len(inst),
        "distinct_nontrivial": len(nontrivial),
        "rule": "one evaluation = one rule instance (an anchored construct of /repo's current source with the "
                "obligation the rule places on it); non-trivial = the instance carries an obligation that a "
                "source edit could break (constant/table echoes are marked trivial); distinct = distinct "
                "(rule, function, construct) triples",
        "samples": samples[:60],
        "obligations": len(inst),
        "discharged": sum(1 for i in inst if i.get("ok")),
        "rules": dict(sorted((ctx.rule_counts if ctx else {}).items())),
        "analysed": {
            "functions": sorted(ctx.functions) if ctx else [],
            "modules_sha256": dict(sorted(ctx.repo.consulted.items())) if ctx else {},
        },
        "exceptions_applied": ctx.exceptions if ctx else [],
        "notes": ctx.notes if ctx else [],
        "known_findings_seen": known_seen,
        "exhaustive": False,
    }
    if ctx and ctx.extra:
        cov.update(ctx.extra)
    if selfval is not None:
        cov["self_validation"] = selfval
    if analysis_error:
        cov["analysis_error"] = analysis_error
    ev = {
        "property_id": prop,
        "tier": tier,
        "seed": seed,
        "level": "other",
        "coverage": cov,
        "assumptions": [
            "CPython's ast module parses /repo's sources as the interpreter would",
            "the frozen tables of the rule module (echoed in coverage.exceptions_applied / samples) were "
            "confirmed by reading the code; the rule decides the structural clause stated in "
            "coverage.explanation, not the whole behavioural property",
        ],
        "wall_s": round(wall, 3),
        "violations": violations,
    }
    path = os.path.join(EVIDENCE_DIR, prop + ".json")
    tmp = path + ".tmp"
    with open(tmp, "w") as f:
        json.dump(ev, f, indent=1, sort_keys=False)
    os.replace(tmp, path)
    return path


def run(prop: str, tier: str, quiet: bool = False, repo_root: Optional[str] = None, write: bool = True,
        sources: Optional[Dict[str, str]] = None):
    """Returns (exit_code, findings, ctx)."""
    t0 = time.time()
    seed = int(os.environ.get("VERIF_SEED", "0") or 0)
    out = (lambda *a: None) if quiet else print
    try:
        mod = importlib.import_module("sa.rules." + prop)
    except ModuleNotFoundError:
        out("ANALYSIS-ERROR property=%s no rule module (property not claimed)" % prop)
        return 2, [], None
    ctx = None
    aerr = None
    try:
        repo = Repo(repo_root or os.environ.get('SWEETPEA_REPO', '/repo'), sources=sources)
        ctx = Ctx(prop, tier, repo)
        mod.check(ctx)
    except AnalysisError as e:
        aerr = str(e)
    except Exception as e:  # a crash of the analysis is not a verdict
        aerr = "internal error: %r" % (e,)
        if not quiet:
            sys.stderr.write(traceback.format_exc())
    if ctx is not None and ctx.control_errors and aerr is None:
        aerr = "; ".join(ctx.control_errors)

    known = load_known()
    listed = {(k["property"], k["rule"], k["key"]): k for k in known.get("findings", [])}
    new, seen = [], []
    for f in (ctx.findings if ctx else []):
        k = listed.get((f.prop, f.rule, f.key))
        if k is not None:
            seen.append("%s %s" % (f.rule, f.key))
            out("KNOWN-FINDING: property=%s %s [%s] %s (%s)" % (prop, k.get("what", f.message), f.rule, f.key, f.loc))
        else:
            new.append(f)
    code = 0
    if new:
        # a violated rule instance is reported even if a later anchor could not be analysed
        code = 1
        rp = os.path.join(EVIDENCE_DIR, prop + ".violation.json")
        if write:
            os.makedirs(EVIDENCE_DIR, exist_ok=True)
            with open(rp, "w") as fh:
                json.dump({"property": prop, "tier": tier, "findings": [f.as_dict() for f in new]}, fh, indent=1)
        out("VIOLATION property=%s replay=%s" % (prop, rp))
        for f in new:
            out("  %s: rule %s: %s -- %s [construct: %s]" % (f.loc, f.rule, f.where, f.message, f.construct))
        if aerr:
            out("  (analysis incomplete: %s)" % aerr)
    elif aerr:
        code = 2
        out("ANALYSIS-ERROR property=%s %s" % (prop, aerr))
    if ctx is not None:
        ctx.known_seen = seen
        ctx.analysis_error = aerr
    if write:
        write_evidence(prop, tier, seed, ctx, mod, time.time() - t0, len(new), seen, analysis_error=aerr)
    if not quiet and ctx is not None:
        for n in ctx.notes:
            print("note: " + n)
        print("%s property=%s tier=%s instances=%d rules=%d findings=%d known=%d wall=%.2fs" % (
            {0: "HOLDS", 1: "FAILS", 2: "UNDECIDED"}[code], prop, tier, len(ctx.instances), len(ctx.rule_counts), len(new),
            len(seen), time.time() - t0))
    return code, new, ctx
