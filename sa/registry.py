"""E7 -- registries: enum members, enum dispatch chains, class families, isinstance chains."""
from __future__ import annotations

import ast
from typing import Dict, List, Optional, Tuple

from .astutil import dotted, isinstance_disjuncts, statements
from .model import AnalysisError, ClassInfo, FunctionInfo, Repo


def enum_members(cls: ClassInfo) -> List[str]:
    out = []
    for st in cls.node.body:
        if isinstance(st, ast.Assign) and len(st.targets) == 1 and isinstance(st.targets[0], ast.Name):
            n = st.targets[0].id
            if not n.startswith("_"):
                out.append(n)
    return out


def enum_dispatch(fn_node: ast.AST, enum_name: str) -> List[Tuple[ast.If, Dict[str, List[ast.stmt]], List[ast.stmt]]]:
    """Find if/elif chains whose tests are `<x> is|== Enum.MEMBER`.
    Returns [(first If, {member: body}, else body)]."""
    out = []
    seen = set()
    for st in statements(fn_node):
        if not isinstance(st, ast.If) or id(st) in seen:
            continue
        branches: Dict[str, List[ast.stmt]] = {}
        cur = st
        else_body: List[ast.stmt] = []
        ok = False
        while True:
            mems = _enum_tests(cur.test, enum_name)
            if not mems:
                break
            ok = True
            seen.add(id(cur))
            for mname in mems:
                branches[mname] = cur.body
            if len(cur.orelse) == 1 and isinstance(cur.orelse[0], ast.If):
                cur = cur.orelse[0]
                continue
            else_body = cur.orelse
            break
        if ok:
            out.append((st, branches, else_body))
    return out


def _enum_tests(test: ast.AST, enum_name: str) -> List[str]:
    if isinstance(test, ast.BoolOp) and isinstance(test.op, ast.Or):
        out = []
        for v in test.values:
            r = _enum_tests(v, enum_name)
            if not r:
                return []
            out += r
        return out
    if isinstance(test, ast.Compare) and len(test.ops) == 1 and isinstance(test.ops[0], (ast.Is, ast.Eq)):
        for side in (test.comparators[0], test.left):
            d = dotted(side)
            if d and d.startswith(enum_name + "."):
                return [d.split(".", 1)[1]]
        if isinstance(test.ops[0], ast.Eq):
            pass
    if isinstance(test, ast.Compare) and len(test.ops) == 1 and isinstance(test.ops[0], ast.In):
        c = test.comparators[0]
        if isinstance(c, (ast.Tuple, ast.List, ast.Set)):
            out = []
            for el in c.elts:
                d = dotted(el)
                if not (d and d.startswith(enum_name + ".")):
                    return []
                out.append(d.split(".", 1)[1])
            return out
    return []


def family(repo: Repo, base: ClassInfo) -> List[ClassInfo]:
    return [base] + base.all_subclasses()


def concrete(c: ClassInfo) -> bool:
    """No abstract method left un-overridden (ABC-style)."""
    abstract = set()
    for k in reversed(c.mro()):
        for n, f in k.methods.items():
            if any(d.endswith("abstractmethod") for d in f.decorators):
                abstract.add(n)
            else:
                abstract.discard(n)
    return not abstract


def isinstance_refusals(fn: FunctionInfo, var: str) -> List[Tuple[ast.If, List[str]]]:
    """`if isinstance(var, A) or isinstance(var, B) ...:` tests whose body ends in raise/return/a call of a
    function that always raises.  Returns [(if stmt, class names)]."""
    out = []
    for st in statements(fn.node):
        if isinstance(st, ast.If):
            ds = isinstance_disjuncts(st.test)
            names = []
            for x, cs in ds:
                if x == var:
                    names += cs
            if names:
                out.append((st, names))
    return out


def always_raises(repo: Repo, fn: FunctionInfo) -> bool:
    """Every path through fn ends in `raise` (syntactic: last statement is a raise, no return)."""
    from .cfg import CFG
    g = CFG(fn.node)
    return not any(True for p, _ in g.exit.pred)
