"""Small syntax-tree helpers shared by the rules."""
from __future__ import annotations

import ast
from typing import Callable, Dict, Iterator, List, Optional, Tuple


def dotted(e: ast.AST) -> Optional[str]:
    """'a.b.c' for Name/Attribute chains, else None."""
    parts = []
    while isinstance(e, ast.Attribute):
        parts.append(e.attr)
        e = e.value
    if isinstance(e, ast.Name):
        parts.append(e.id)
        return ".".join(reversed(parts))
    return None


def call_name(c: ast.Call) -> Optional[str]:
    return dotted(c.func)


def call_attr(c: ast.Call) -> Optional[str]:
    """method/function simple name of a call."""
    if isinstance(c.func, ast.Attribute):
        return c.func.attr
    if isinstance(c.func, ast.Name):
        return c.func.id
    return None


def walk_no_nested(node: ast.AST, include_lambdas: bool = True) -> Iterator[ast.AST]:
    """ast.walk that does not enter nested function/class definitions (lambdas optional)."""
    todo = [node]
    first = True
    while todo:
        n = todo.pop()
        if not first and isinstance(n, (ast.FunctionDef, ast.AsyncFunctionDef, ast.ClassDef)):
            continue
        if not first and isinstance(n, ast.Lambda) and not include_lambdas:
            continue
        first = False
        yield n
        todo.extend(reversed(list(ast.iter_child_nodes(n))))


def walk_body(fn_node: ast.AST, include_lambdas: bool = True) -> Iterator[ast.AST]:
    body = fn_node.body if not isinstance(fn_node, ast.Lambda) else [fn_node.body]
    for st in body:
        if isinstance(st, (ast.FunctionDef, ast.AsyncFunctionDef, ast.ClassDef)):
            continue
        yield from walk_no_nested(st, include_lambdas)


def walk_all(fn_node: ast.AST) -> Iterator[ast.AST]:
    """Walk the function body including nested functions and lambdas."""
    body = fn_node.body if not isinstance(fn_node, ast.Lambda) else [fn_node.body]
    for st in body:
        yield from ast.walk(st)


def calls(fn_node: ast.AST, nested: bool = False) -> Iterator[ast.Call]:
    it = walk_all(fn_node) if nested else walk_body(fn_node)
    for n in it:
        if isinstance(n, ast.Call):
            yield n


def statements(fn_node: ast.AST) -> Iterator[ast.stmt]:
    """All statements of the function (not of nested defs), outer first."""
    def rec(stmts):
        for st in stmts:
            yield st
            if isinstance(st, (ast.FunctionDef, ast.AsyncFunctionDef, ast.ClassDef)):
                continue
            for fld in ("body", "orelse", "finalbody"):
                sub = getattr(st, fld, None)
                if isinstance(sub, list) and sub and isinstance(sub[0], ast.stmt):
                    yield from rec(sub)
            for h in getattr(st, "handlers", []) or []:
                yield from rec(h.body)
    body = fn_node.body if not isinstance(fn_node, ast.Lambda) else []
    yield from rec(body)


def parents(root: ast.AST) -> Dict[int, ast.AST]:
    out: Dict[int, ast.AST] = {}
    for n in ast.walk(root):
        for ch in ast.iter_child_nodes(n):
            out[id(ch)] = n
    return out


def stmt_of(node: ast.AST, par: Dict[int, ast.AST]) -> Optional[ast.stmt]:
    n = node
    while n is not None and not isinstance(n, ast.stmt):
        n = par.get(id(n))
    return n


def const_int(e: ast.AST) -> Optional[int]:
    if isinstance(e, ast.Constant) and isinstance(e.value, int) and not isinstance(e.value, bool):
        return e.value
    if isinstance(e, ast.UnaryOp) and isinstance(e.op, ast.USub):
        v = const_int(e.operand)
        return -v if v is not None else None
    return None


def is_negation_of(e: ast.AST, name_pred: Callable[[ast.AST], bool]) -> bool:
    """-x, -1*x, x*-1 with x satisfying name_pred."""
    if isinstance(e, ast.UnaryOp) and isinstance(e.op, ast.USub):
        return name_pred(e.operand)
    if isinstance(e, ast.BinOp) and isinstance(e.op, ast.Mult):
        if const_int(e.left) == -1:
            return name_pred(e.right)
        if const_int(e.right) == -1:
            return name_pred(e.left)
    return False


def names_in(e: ast.AST) -> List[str]:
    return [n.id for n in ast.walk(e) if isinstance(n, ast.Name)]


def attr_reads(e: ast.AST) -> List[str]:
    out = []
    for n in ast.walk(e):
        if isinstance(n, ast.Attribute):
            d = dotted(n)
            if d:
                out.append(d)
    return out


def isinstance_classes(test: ast.AST) -> Optional[Tuple[str, List[str]]]:
    """For `isinstance(x, T)` / `isinstance(x, (A,B))` return (dotted x, [class names])."""
    if isinstance(test, ast.Call) and isinstance(test.func, ast.Name) and test.func.id == "isinstance" \
            and len(test.args) == 2:
        x = dotted(test.args[0]) or ast.unparse(test.args[0])
        t = test.args[1]
        names = []
        elts = t.elts if isinstance(t, ast.Tuple) else [t]
        for el in elts:
            d = dotted(el)
            names.append(d if d else ast.unparse(el))
        return x, names
    return None


def isinstance_disjuncts(test: ast.AST) -> List[Tuple[str, List[str]]]:
    """All isinstance tests joined by `or` in a condition."""
    out = []
    if isinstance(test, ast.BoolOp) and isinstance(test.op, ast.Or):
        for v in test.values:
            out.extend(isinstance_disjuncts(v))
        return out
    r = isinstance_classes(test)
    if r:
        out.append(r)
    return out


def ends_abruptly(stmts: List[ast.stmt]) -> Optional[str]:
    """'return' | 'raise' | 'continue' | 'break' if the block always ends that way."""
    if not stmts:
        return None
    last = stmts[-1]
    if isinstance(last, ast.Return):
        return "return"
    if isinstance(last, ast.Raise):
        return "raise"
    if isinstance(last, ast.Continue):
        return "continue"
    if isinstance(last, ast.Break):
        return "break"
    if isinstance(last, ast.If) and last.orelse:
        a, b = ends_abruptly(last.body), ends_abruptly(last.orelse)
        if a and b:
            return a if a == b else "mixed"
    return None


# ---------------------------------------------------------------------------------------------
# AST-level expansion: replace single-assignment locals and calls of small local helpers by the expressions they stand for,
# so that a rule written for one expression still sees it after "introduce a local" / "extract a helper"

import copy as _copy


def helper_expression(fn_node) -> Optional[ast.AST]:
    """the value of a helper as one expression: (docstring)? (if C: return A)* return B  ->  A if C else .. B; None otherwise"""
    body = [st for st in fn_node.body if not (isinstance(st, ast.Expr) and isinstance(st.value, ast.Constant) and isinstance(st.value.value, str))]

    def rec(stmts):
        if not stmts:
            return None
        st = stmts[0]
        if isinstance(st, ast.Return) and st.value is not None:
            return st.value
        if isinstance(st, ast.If):
            a = rec(st.body)
            b = rec(list(st.orelse) + list(stmts[1:])) if (st.orelse or stmts[1:]) else None
            if a is not None and b is not None:
                return ast.IfExp(test=st.test, body=a, orelse=b)
        return None
    return rec(body)


class _Subst(ast.NodeTransformer):
    def __init__(self, mapping):
        self.mapping = mapping

    def visit_Name(self, node):
        if isinstance(node.ctx, ast.Load) and node.id in self.mapping:
            return _copy.deepcopy(self.mapping[node.id])
        return node


def expand_ast(fn_node, expr: ast.AST, skip: Tuple[str, ...] = ()) -> ast.AST:
    """copy of expr with (1) names that have exactly one plain assignment in fn_node (and are not parameters) replaced by the
    assigned expression, (2) calls of functions defined inside fn_node whose value is a single (conditional) expression
    replaced by that expression with the parameters substituted.  Applied repeatedly (bounded)."""
    counts, defs = {}, {}
    for st in statements(fn_node):
        if isinstance(st, ast.Assign) and len(st.targets) == 1 and isinstance(st.targets[0], ast.Name):
            counts[st.targets[0].id] = counts.get(st.targets[0].id, 0) + 1
            defs[st.targets[0].id] = st.value
        elif isinstance(st, (ast.AugAssign, ast.For)):
            for n in ast.walk(st.target):
                if isinstance(n, ast.Name):
                    counts[n.id] = counts.get(n.id, 0) + 2
    single = {k: v for k, v in defs.items() if counts.get(k) == 1 and k not in skip}
    helpers = {}
    for st in ast.walk(fn_node):
        if isinstance(st, ast.FunctionDef) and st is not fn_node:
            he = helper_expression(st)
            if he is not None and not st.args.defaults and st.name not in skip:
                helpers[st.name] = ([a.arg for a in st.args.args], he)

    class _Calls(ast.NodeTransformer):
        def visit_Call(self, node):
            self.generic_visit(node)
            if isinstance(node.func, ast.Name) and node.func.id in helpers and not node.keywords:
                params, he = helpers[node.func.id]
                if len(params) == len(node.args):
                    return _Subst(dict(zip(params, node.args))).visit(_copy.deepcopy(he))
            return node
    out = _copy.deepcopy(expr)
    for _ in range(4):
        before = ast.dump(out)
        out = _Subst(single).visit(out)
        out = _Calls().visit(out)
        ast.fix_missing_locations(out)
        if ast.dump(out) == before:
            break
    return out
