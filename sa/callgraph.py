"""E1 -- resolved call graph (class-hierarchy analysis + annotations + isinstance narrowing + callbacks).

"may call" over-approximation: the right direction for reachability and effect rules.  Must-call
rules never use the name fallback (edges carry `precise`).
"""
from __future__ import annotations

import ast
from typing import Dict, Iterable, List, Optional, Set, Tuple

from .astutil import dotted, isinstance_disjuncts, ends_abruptly, walk_body
from .cfg import guard_stack
from .model import AnalysisError, ClassInfo, FunctionInfo, ModuleInfo, Repo

# method names shared with builtin containers / stdlib objects: resolved to a repository method only when
# the receiver is typed
CONTAINER_NAMES = {"append", "get", "insert", "index", "pop", "sort", "copy", "extend", "remove",
                   "add", "update", "clear", "items", "keys", "values", "count", "reverse", "join", "split",
                   "strip", "format", "replace", "startswith", "endswith", "write", "read", "exists", "run",
                   "decode", "encode", "setdefault", "discard", "popitem"}


class Edge:
    __slots__ = ("caller", "callee", "node", "precise", "how")

    def __init__(self, caller, callee, node, precise, how):
        self.caller, self.callee, self.node, self.precise, self.how = caller, callee, node, precise, how

    def __repr__(self):
        return "%s -> %s (%s%s)" % (self.caller.fq, self.callee.fq, self.how, "" if self.precise else ", name-based")


class CallGraph:
    def __init__(self, repo: Repo):
        self.repo = repo
        self.methods_by_name: Dict[str, List[FunctionInfo]] = {}
        self.properties_by_name: Dict[str, List[FunctionInfo]] = {}
        for c in repo.classes():
            for n, f in c.methods.items():
                self.methods_by_name.setdefault(n, []).append(f)
                if f.is_property:
                    self.properties_by_name.setdefault(n, []).append(f)
        self._edges: Dict[str, List[Edge]] = {}
        self.unresolved: List[Tuple[FunctionInfo, ast.Call]] = []

    # --------------------------------------------------------------- public
    def edges(self, f: FunctionInfo) -> List[Edge]:
        if f.fq not in self._edges:
            self._edges[f.fq] = self._compute(f)
        return self._edges[f.fq]

    def callees(self, f: FunctionInfo) -> List[FunctionInfo]:
        out = []
        for e in self.edges(f):
            if e.callee not in out:
                out.append(e.callee)
        return out

    def reachable(self, roots: Iterable[FunctionInfo], stop=None) -> Dict[str, Tuple[FunctionInfo, Optional[Edge]]]:
        """fq -> (function, edge through which it was first reached)"""
        seen: Dict[str, Tuple[FunctionInfo, Optional[Edge]]] = {}
        todo = []
        for r in roots:
            seen[r.fq] = (r, None)
            todo.append(r)
        while todo:
            f = todo.pop(0)
            for e in self.edges(f):
                if stop is not None and stop(e):
                    continue
                if e.callee.fq not in seen:
                    seen[e.callee.fq] = (e.callee, e)
                    todo.append(e.callee)
        return seen

    def path_to(self, reach, fq: str) -> List[str]:
        out = []
        cur = fq
        while cur in reach:
            f, e = reach[cur]
            out.append(f.fq)
            if e is None:
                break
            cur = e.caller.fq
        return list(reversed(out))

    def calls_to(self, f: FunctionInfo, name: str) -> List[ast.Call]:
        """call sites in f whose callee set contains a function with that simple name."""
        out = []
        for e in self.edges(f):
            if e.callee.name == name and isinstance(e.node, ast.Call) and e.node not in out:
                out.append(e.node)
        return out

    # --------------------------------------------------------------- internals
    def _overrides(self, c: ClassInfo, name: str) -> List[FunctionInfo]:
        out = []
        base = c.lookup(name)
        if base is not None:
            out.append(base)
        for s in c.all_subclasses():
            if name in s.methods and s.methods[name] not in out:
                out.append(s.methods[name])
        return out

    def _ctor(self, c: ClassInfo) -> List[FunctionInfo]:
        out = []
        for n in ("__new__", "__init__", "__post_init__"):
            f = c.lookup(n)
            if f is not None:
                out.append(f)
        return out

    def _local_types(self, f: FunctionInfo) -> Dict[str, ClassInfo]:
        """Names whose class is known: annotated parameters, x = ClassName(...), x = cast(T, y)."""
        m = f.module
        types: Dict[str, ClassInfo] = {}
        chain = []
        g: Optional[FunctionInfo] = f
        while g is not None:
            chain.append(g)
            g = g.parent
        for g in reversed(chain):
            if isinstance(g.node, ast.Lambda):
                continue
            a = g.node.args
            for x in list(a.posonlyargs) + list(a.args) + list(a.kwonlyargs):
                if x.annotation is not None:
                    c = self.repo.resolve_class_expr(m, _strip_optional(x.annotation))
                    if c is not None:
                        types[x.arg] = c
            for n in walk_body(g.node):
                if isinstance(n, ast.Assign) and len(n.targets) == 1 and isinstance(n.targets[0], ast.Name):
                    v = n.value
                    if isinstance(v, ast.Call):
                        if isinstance(v.func, ast.Name) and v.func.id == "cast" and len(v.args) == 2:
                            c = self.repo.resolve_class_expr(m, _strip_optional(v.args[0]))
                            if c is not None:
                                types[n.targets[0].id] = c
                        else:
                            c = self.repo.resolve_class_expr(m, v.func)
                            if c is not None:
                                types[n.targets[0].id] = c
                elif isinstance(n, ast.AnnAssign) and isinstance(n.target, ast.Name):
                    c = self.repo.resolve_class_expr(m, _strip_optional(n.annotation))
                    if c is not None:
                        types[n.target.id] = c
        return types

    def _self_class(self, f: FunctionInfo) -> Optional[ClassInfo]:
        g: Optional[FunctionInfo] = f
        while g is not None and g.parent is not None:
            g = g.parent
        if g is not None and g.cls is not None and not g.is_static:
            return g.cls
        return None

    def _narrowing(self, f: FunctionInfo):
        """id(stmt) -> {var: (included class names | None, excluded class names)} from isinstance guards."""
        gs = guard_stack(f.node)
        excl: Dict[int, Dict[str, Set[str]]] = {}

        def visit(stmts, inherited: Dict[str, Set[str]]):
            cur = {k: set(v) for k, v in inherited.items()}
            for st in stmts:
                excl[id(st)] = {k: set(v) for k, v in cur.items()}
                if isinstance(st, ast.If):
                    # `if not isinstance(x, T): <body>`: inside the body x is not a T; after an `else` that leaves, neither
                    if isinstance(st.test, ast.UnaryOp) and isinstance(st.test.op, ast.Not) and isinstance_disjuncts(st.test.operand) and _only_isinstance(st.test.operand):
                        c2 = {k: set(v) for k, v in cur.items()}
                        for var, names in isinstance_disjuncts(st.test.operand):
                            c2.setdefault(var, set()).update(names)
                        visit(st.body, c2)
                        visit(st.orelse, cur)
                        if st.orelse and ends_abruptly(st.orelse):
                            cur = c2
                        continue
                    ds = isinstance_disjuncts(st.test)
                    pure = ds and _only_isinstance(st.test)
                    visit(st.body, cur)
                    if pure and not st.orelse and ends_abruptly(st.body):
                        for var, names in ds:
                            cur.setdefault(var, set()).update(names)
                    elif pure and st.orelse:
                        c2 = {k: set(v) for k, v in cur.items()}
                        for var, names in ds:
                            c2.setdefault(var, set()).update(names)
                        visit(st.orelse, c2)
                        continue
                    visit(st.orelse, cur)
                elif isinstance(st, (ast.For, ast.While, ast.AsyncFor)):
                    visit(st.body, cur)
                    visit(st.orelse, cur)
                elif isinstance(st, (ast.With, ast.AsyncWith)):
                    visit(st.body, cur)
                elif isinstance(st, ast.Try):
                    visit(st.body, cur)
                    for h in st.handlers:
                        visit(h.body, cur)
                    visit(st.orelse, cur)
                    visit(st.finalbody, cur)
        if not isinstance(f.node, ast.Lambda):
            visit(f.node.body, {})
        return gs, excl

    def _compute(self, f: FunctionInfo) -> List[Edge]:
        repo, m = self.repo, f.module
        edges: List[Edge] = []
        types = self._local_types(f)
        selfcls = self._self_class(f)
        selfname = None
        top = f
        while top.parent is not None:
            top = top.parent
        if top.cls is not None and not top.is_static and not isinstance(top.node, ast.Lambda) and top.node.args.args:
            selfname = top.node.args.args[0].arg
        gs, excl = self._narrowing(f)

        def add(callee, node, precise, how):
            if callee is None:
                return
            edges.append(Edge(f, callee, node, precise, how))

        # nested functions and lambdas are assumed to be called within the dynamic extent of f
        for g in f.nested.values():
            add(g, g.node, True, "nested")

        local_imports = _local_imports(repo, f)

        def lexical(name: str):
            g: Optional[FunctionInfo] = f
            while g is not None:
                if name in g.nested:
                    return g.nested[name]
                g = g.parent
            if name in local_imports:
                return local_imports[name]
            return repo.resolve_name(m, name)

        def resolve_cls_name(text: str):
            try:
                e = ast.parse(text, mode="eval").body
            except SyntaxError:
                return None
            if isinstance(e, ast.Name) and isinstance(local_imports.get(e.id), ClassInfo):
                return local_imports[e.id]
            return repo.resolve_class_expr(m, e)

        # statement context for narrowing
        stmt_ctx: Dict[int, ast.stmt] = {}

        def index(stmts):
            for st in stmts:
                for n in _walk_stmt_exprs(st):
                    stmt_ctx[id(n)] = st
                for fld in ("body", "orelse", "finalbody"):
                    sub = getattr(st, fld, None)
                    if isinstance(sub, list) and sub and isinstance(sub[0], ast.stmt) and \
                            not isinstance(st, (ast.FunctionDef, ast.AsyncFunctionDef, ast.ClassDef)):
                        index(sub)
                for h in getattr(st, "handlers", []) or []:
                    index(h.body)
        if not isinstance(f.node, ast.Lambda):
            index(f.node.body)

        def recv_classes(recv: ast.AST, at: ast.AST) -> Tuple[Optional[List[ClassInfo]], Set[str]]:
            """(candidate classes or None if unknown, excluded class names)"""
            d = dotted(recv)
            st = stmt_ctx.get(id(at))
            excluded: Set[str] = set()
            included: Optional[List[str]] = None
            if d and st is not None:
                excluded = set(excl.get(id(st), {}).get(d, set()))
                for test, pol in gs.get(id(st), []):
                    ds = isinstance_disjuncts(test)
                    if ds and _only_isinstance(test):
                        for var, names in ds:
                            if var == d:
                                if pol:
                                    included = (included or []) + names
                                else:
                                    excluded.update(names)
            if included:
                cs = [resolve_cls_name(n) for n in included]
                cs = [c for c in cs if c is not None]
                if cs:
                    return cs, excluded
            if isinstance(recv, ast.Name):
                if recv.id == selfname and selfcls is not None:
                    return [selfcls], excluded
                if recv.id in types:
                    return [types[recv.id]], excluded
            if isinstance(recv, ast.Call) and isinstance(recv.func, ast.Name) and recv.func.id == "cast" and len(recv.args) == 2:
                c = repo.resolve_class_expr(m, _strip_optional(recv.args[0]))
                if c is not None:
                    return [c], excluded
            return None, excluded

        def excluded_classes(names: Set[str]) -> Set[str]:
            out = set()
            for n in names:
                c = resolve_cls_name(n)
                if c is not None:
                    out.add(c.fq)
                    for s in c.all_subclasses():
                        out.add(s.fq)
            return out

        for n in walk_body(f.node):
            if isinstance(n, ast.Call):
                fn = n.func
                # function values passed as arguments: assume the callee calls them
                for a in list(n.args) + [k.value for k in n.keywords]:
                    if isinstance(a, ast.Name):
                        r = lexical(a.id)
                        if isinstance(r, FunctionInfo):
                            add(r, n, True, "callback")
                    elif isinstance(a, ast.Attribute):
                        d = dotted(a)
                        if d and isinstance(a.value, ast.Name):
                            r = repo.resolve_name(m, a.value.id)
                            if isinstance(r, ClassInfo):
                                add(r.lookup(a.attr), n, True, "callback")
                if isinstance(fn, ast.Name):
                    if fn.id == "super":
                        continue
                    r = lexical(fn.id)
                    if isinstance(r, FunctionInfo):
                        add(r, n, True, "name")
                    elif isinstance(r, ClassInfo):
                        for c in self._ctor(r):
                            add(c, n, True, "constructor")
                    continue
                if isinstance(fn, ast.Attribute):
                    attr = fn.attr
                    recv = fn.value
                    # super().m(...)
                    if isinstance(recv, ast.Call) and isinstance(recv.func, ast.Name) and recv.func.id == "super":
                        if selfcls is not None:
                            mro = selfcls.mro()[1:]
                            for c in mro:
                                if attr in c.methods:
                                    add(c.methods[attr], n, True, "super")
                                    break
                        continue
                    # private (mangled) names resolve in the lexically enclosing class only
                    if attr.startswith("__") and not attr.endswith("__"):
                        owner = top.cls
                        if owner is not None and attr in owner.methods:
                            add(owner.methods[attr], n, True, "private")
                        elif isinstance(recv, ast.Name):
                            r = repo.resolve_name(m, recv.id)
                            if isinstance(r, ClassInfo) and attr in r.methods:
                                add(r.methods[attr], n, True, "private")
                        continue
                    # Module.func / Class.method
                    if isinstance(recv, ast.Name) and recv.id != selfname and recv.id not in types:
                        r = lexical(recv.id) if recv.id not in (f.params if not isinstance(f.node, ast.Lambda) else []) else None
                        if isinstance(r, ClassInfo):
                            t = r.lookup(attr)
                            if t is not None:
                                add(t, n, True, "class-attr")
                                # a classmethod/static call through the class may still be overridden
                                continue
                        if isinstance(r, ModuleInfo):
                            if attr in r.functions:
                                add(r.functions[attr], n, True, "module-attr")
                            elif attr in r.classes:
                                for c in self._ctor(r.classes[attr]):
                                    add(c, n, True, "constructor")
                            continue
                    cs, exn = recv_classes(recv, n)
                    ex = excluded_classes(exn)
                    if cs is not None:
                        found = False
                        for c in cs:
                            for t in self._overrides(c, attr):
                                if t.cls is not None and t.cls.fq in ex:
                                    continue
                                add(t, n, True, "typed")
                                found = True
                        if found or any(c.lookup(attr) for c in cs):
                            continue
                    if attr.startswith("__") and attr.endswith("__"):
                        continue
                    if attr in CONTAINER_NAMES:
                        continue
                    if isinstance(recv, ast.Name) and recv.id in m.imports and lexical(recv.id) is None:
                        continue   # call on an imported non-repository module / object (random.sample, os.getenv)
                    cands = self.methods_by_name.get(attr, [])
                    for t in cands:
                        if t.cls is not None and t.cls.fq in ex:
                            continue
                        add(t, n, False, "name-fallback")
                    if not cands:
                        pass
            elif isinstance(n, ast.Attribute) and isinstance(n.ctx, ast.Load):
                for t in self.properties_by_name.get(n.attr, []):
                    add(t, n, False, "property")
        return edges


def _local_imports(repo: Repo, f: FunctionInfo) -> Dict[str, object]:
    out: Dict[str, object] = {}
    chain = []
    g: Optional[FunctionInfo] = f
    while g is not None:
        chain.append(g)
        g = g.parent
    for g in reversed(chain):
        for n in walk_body(g.node):
            if isinstance(n, ast.ImportFrom) and n.module and not n.level:
                tgt = repo.modules.get(n.module)
                if tgt is None:
                    continue
                for a in n.names:
                    r = repo.resolve_name(tgt, a.name)
                    if r is not None:
                        out[a.asname or a.name] = r
    return out


def _only_isinstance(test: ast.AST) -> bool:
    if isinstance(test, ast.BoolOp) and isinstance(test.op, ast.Or):
        return all(_only_isinstance(v) for v in test.values)
    return isinstance(test, ast.Call) and isinstance(test.func, ast.Name) and test.func.id == "isinstance"


def _strip_optional(ann: ast.AST) -> ast.AST:
    """Optional[T] / 'T' -> T"""
    if isinstance(ann, ast.Subscript):
        d = dotted(ann.value)
        if d in ("Optional", "typing.Optional"):
            return _strip_optional(ann.slice)
    return ann


def _walk_stmt_exprs(st: ast.stmt):
    """expression nodes belonging to this statement itself (not to nested statements)."""
    todo = []
    for name, val in ast.iter_fields(st):
        if name in ("body", "orelse", "finalbody", "handlers"):
            continue
        if isinstance(val, ast.AST):
            todo.append(val)
        elif isinstance(val, list):
            todo.extend(v for v in val if isinstance(v, ast.AST))
    while todo:
        n = todo.pop()
        if isinstance(n, (ast.FunctionDef, ast.AsyncFunctionDef, ast.ClassDef)):
            continue
        yield n
        todo.extend(ast.iter_child_nodes(n))
