"""E6 -- role extraction for sibling comparison (loops, strides, index terms, call arguments)."""
from __future__ import annotations

import ast
from typing import Dict, List, Optional, Tuple

from .astutil import call_attr, dotted, statements, walk_body
from .model import AnalysisError, FunctionInfo
from .sym import Env, Poly, forward, sym_at, _sym


_BASELINE = None


def _baseline():
    """qualified names of the functions that existed when the rules' reference normal forms were confirmed"""
    global _BASELINE
    if _BASELINE is None:
        import json, os
        p = os.path.join(os.path.dirname(os.path.abspath(__file__)), "baseline_functions.json")
        try:
            _BASELINE = set(json.load(open(p)))
        except Exception:
            _BASELINE = set()
    return _BASELINE


def _single_return(fn_node):
    """(pre-assignments, return expression) of a straight-line helper: (docstring)? (NAME = EXPR)* `return EXPR`"""
    body = [st for st in fn_node.body if not (isinstance(st, ast.Expr) and isinstance(st.value, ast.Constant) and isinstance(st.value.value, str))]
    if not body or not isinstance(body[-1], ast.Return) or body[-1].value is None:
        return None
    pre = []
    for st in body[:-1]:
        if isinstance(st, ast.Assign) and len(st.targets) == 1 and isinstance(st.targets[0], ast.Name):
            pre.append((st.targets[0].id, st.value))
        elif isinstance(st, ast.AnnAssign) and isinstance(st.target, ast.Name) and st.value is not None:
            pre.append((st.target.id, st.value))
        else:
            return None
    return pre, body[-1].value


def helper_resolver(f: FunctionInfo):
    """resolve calls of one-line helpers -- methods of f's class called as self.h(..) / Class.h(..) / cls.h(..), or functions of
    f's module -- to (parameter names, actual argument nodes, return expression); used to see through 'extract helper'"""
    def resolve(call: ast.Call):
        if call.keywords and any(k.arg is None for k in call.keywords):
            return None
        target = None
        skip_self = False
        fn = call.func
        if isinstance(fn, ast.Attribute) and isinstance(fn.value, ast.Name) and f.cls is not None:
            if fn.value.id in ("self", "cls") or fn.value.id == f.cls.name:
                m = f.cls.lookup(fn.attr)
                if m is None and fn.attr.startswith("__") and not fn.attr.endswith("__"):
                    m = f.cls.lookup(fn.attr)
                if m is not None and not isinstance(m.node, ast.Lambda):
                    target = m
                    skip_self = not m.is_static
        elif isinstance(fn, ast.Name):
            m = f.nested.get(fn.id) or (f.parent.nested.get(fn.id) if f.parent is not None else None) or f.module.functions.get(fn.id)
            if m is not None:
                target = m
        if target is None or target is f or target.fq in _baseline():
            return None          # functions of the reference tree keep their names in normal forms; only newly extracted helpers are seen through
        sr = _single_return(target.node)
        if sr is None:
            # branches allowed when the only return is the last top-level statement and there is no loop / try / with
            body = target.node.body
            rets = [x for x in ast.walk(target.node) if isinstance(x, ast.Return)]
            bad = [x for x in ast.walk(target.node) if isinstance(x, (ast.For, ast.While, ast.Try, ast.With, ast.Raise, ast.Yield, ast.YieldFrom))]
            if len(rets) == 1 and body and body[-1] is rets[0] and rets[0].value is not None and not bad:
                sr = (None, (target.node, rets[0]))
            else:
                return None
        pre, ret = sr
        params = list(target.params)
        if skip_self and params:
            params = params[1:]
        if any(isinstance(a, ast.Starred) for a in call.args) or len(call.args) > len(params):
            return None
        actual = {}
        for pn, a in zip(params, call.args):
            actual[pn] = a
        for k in call.keywords:
            if k.arg not in params or k.arg in actual:
                return None
            actual[k.arg] = k.value
        # defaults
        a_ = target.node.args
        defs = dict(zip([x.arg for x in a_.args][len(a_.args) - len(a_.defaults):], a_.defaults))
        for pn in params:
            if pn not in actual:
                if pn in defs:
                    actual[pn] = defs[pn]
                else:
                    return None
        # the helper must not read names other than its parameters / self / globals that mean the same everywhere
        return [pn for pn in params], [actual[pn] for pn in params], ret, pre
    return resolve


class Roles:
    """Symbolic facts about one function body."""

    def __init__(self, f: FunctionInfo, rename: Optional[Dict[str, str]] = None):
        self.f = f
        base = Env(rename=rename or {})
        base.resolver = helper_resolver(f)
        self.snaps = forward(f.node, base)
        self.stmts = list(statements(f.node))

    def at(self, stmt: ast.stmt, e: ast.AST) -> Poly:
        return sym_at(self.snaps, stmt, e)

    def stmt_of(self, node: ast.AST) -> ast.stmt:
        """innermost statement containing node"""
        best = None
        for st in self.stmts:
            if any(n is node for n in _own_nodes(st)):
                best = st
        if best is None:
            raise AnalysisError("%s: node not found in any statement" % self.f.fq)
        return best

    def term(self, node: ast.AST) -> Poly:
        return self.at(self.stmt_of(node), node)

    # ---- loops -----------------------------------------------------------------------------
    def while_loops(self) -> List[dict]:
        out = []
        for st in self.stmts:
            if not isinstance(st, ast.While):
                continue
            test = st.test
            var = None
            if isinstance(test, ast.Compare) and isinstance(test.left, ast.Name):
                var = test.left.id
            if var is None:
                continue
            start = self.snaps[id(st)].values.get(var)
            body_env = self.snaps[id(st.body[0])]
            test_p = _sym(test, body_env)
            stride = None
            for b in st.body:
                if isinstance(b, ast.AugAssign) and isinstance(b.target, ast.Name) and b.target.id == var and \
                        isinstance(b.op, (ast.Add, ast.Sub)):
                    stride = self.at(b, b.value)
                    if isinstance(b.op, ast.Sub):
                        stride = -stride
                elif isinstance(b, ast.Assign) and len(b.targets) == 1 and isinstance(b.targets[0], ast.Name) \
                        and b.targets[0].id == var:
                    stride = self.at(b, b.value) - Poly.atom(var)
            out.append({"var": var, "start": start, "test": test_p, "stride": stride, "stmt": st})
        return out

    def counting_loops(self) -> List[dict]:
        """while-loops over a counter and `for v in range(start, stop, step)` loops, in one format (start, test v < stop, stride)"""
        out = self.while_loops()
        for st in self.stmts:
            if isinstance(st, ast.For) and isinstance(st.target, ast.Name) and isinstance(st.iter, ast.Call) and dotted(st.iter.func) == "range" and \
                    1 <= len(st.iter.args) <= 3 and not st.iter.keywords:
                a = st.iter.args
                start = self.at(st, a[0]) if len(a) >= 2 else Poly.const(0)
                stop = a[1] if len(a) >= 2 else a[0]
                stride = self.at(st, a[2]) if len(a) == 3 else Poly.const(1)
                test = ast.Compare(left=ast.Name(id=st.target.id, ctx=ast.Load()), ops=[ast.Lt()], comparators=[stop])
                ast.fix_missing_locations(test)
                env = self.snaps[id(st)].copy()
                env.values.pop(st.target.id, None)
                out.append({"var": st.target.id, "start": start, "test": _sym(test, env), "stride": stride, "stmt": st})
        return out

    def for_loops(self) -> List[dict]:
        out = []
        for st in self.stmts:
            if isinstance(st, ast.For):
                out.append({"target": ast.unparse(st.target), "iter": self.at(st, st.iter), "stmt": st})
        return out

    # ---- expression sites ------------------------------------------------------------------
    def calls_named(self, name: str) -> List[Tuple[ast.Call, ast.stmt]]:
        out = []
        for st in self.stmts:
            for n in _own_nodes(st):
                if isinstance(n, ast.Call) and call_attr(n) == name:
                    out.append((n, st))
        return out

    def arg(self, call: ast.Call, stmt: ast.stmt, pos: int, kw: Optional[str] = None) -> Optional[Poly]:
        if kw:
            for k in call.keywords:
                if k.arg == kw:
                    return self.at(stmt, k.value)
        if pos < len(call.args):
            return self.at(stmt, call.args[pos])
        return None

    def subscripts_of(self, base_text_pred) -> List[Tuple[ast.Subscript, ast.stmt, Poly, Poly]]:
        """all `B[idx]` loads whose normalised base satisfies the predicate: (node, stmt, base, index)"""
        out = []
        for st in self.stmts:
            for n in _own_nodes(st):
                if isinstance(n, ast.Subscript) and isinstance(n.ctx, ast.Load) and not isinstance(n.slice, ast.Slice):
                    b = self.at(st, n.value)
                    if base_text_pred(str(b)):
                        out.append((n, st, b, self.at(st, n.slice)))
        if not out:
            # the subscript may have moved into a newly extracted one-line helper: look through it
            res = helper_resolver(self.f)
            for st in self.stmts:
                for n in _own_nodes(st):
                    if isinstance(n, ast.Call):
                        r = res(n)
                        if r is None:
                            continue
                        params, actuals, ret, pre = r
                        if pre is None:
                            continue
                        inner = Env(rename=self.snaps[id(st)].rename)
                        inner.resolver = res
                        for pn, a in zip(params, actuals):
                            inner.values[pn] = self.at(st, a)
                        for nm, ex in pre:
                            inner.values[nm] = _sym(ex, inner)
                        for m in ast.walk(ret):
                            if isinstance(m, ast.Subscript) and isinstance(m.ctx, ast.Load) and not isinstance(m.slice, ast.Slice):
                                b = _sym(m.value, inner)
                                if base_text_pred(str(b)):
                                    out.append((n, st, b, _sym(m.slice, inner)))
        return out


def _own_nodes(st: ast.stmt):
    """expression nodes of this statement, excluding nested statements' bodies and nested defs; lambdas included"""
    todo = []
    for name, val in ast.iter_fields(st):
        if name in ("body", "orelse", "finalbody", "handlers"):
            continue
        if isinstance(val, ast.AST):
            todo.append(val)
        elif isinstance(val, list):
            todo.extend(v for v in val if isinstance(v, ast.AST))
    while todo:
        n = todo.pop()
        if isinstance(n, (ast.FunctionDef, ast.AsyncFunctionDef, ast.ClassDef)):
            continue
        yield n
        todo.extend(ast.iter_child_nodes(n))
