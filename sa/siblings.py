"""E6 -- role extraction for sibling comparison (loops, strides, index terms, call arguments)."""
from __future__ import annotations

import ast
from typing import Dict, List, Optional, Tuple

from .astutil import call_attr, dotted, statements, walk_body
from .model import AnalysisError, FunctionInfo
from .sym import Env, Poly, forward, sym_at, _sym


class Roles:
    """Symbolic facts about one function body."""

    def __init__(self, f: FunctionInfo, rename: Optional[Dict[str, str]] = None):
        self.f = f
        self.snaps = forward(f.node, Env(rename=rename or {}))
        self.stmts = list(statements(f.node))

    def at(self, stmt: ast.stmt, e: ast.AST) -> Poly:
        return sym_at(self.snaps, stmt, e)

    def stmt_of(self, node: ast.AST) -> ast.stmt:
        """innermost statement containing node"""
        best = None
        for st in self.stmts:
            if any(n is node for n in _own_nodes(st)):
                best = st
        if best is None:
            raise AnalysisError("%s: node not found in any statement" % self.f.fq)
        return best

    def term(self, node: ast.AST) -> Poly:
        return self.at(self.stmt_of(node), node)

    # ---- loops -----------------------------------------------------------------------------
    def while_loops(self) -> List[dict]:
        out = []
        for st in self.stmts:
            if not isinstance(st, ast.While):
                continue
            test = st.test
            var = None
            if isinstance(test, ast.Compare) and isinstance(test.left, ast.Name):
                var = test.left.id
            if var is None:
                continue
            start = self.snaps[id(st)].values.get(var)
            body_env = self.snaps[id(st.body[0])]
            test_p = _sym(test, body_env)
            stride = None
            for b in st.body:
                if isinstance(b, ast.AugAssign) and isinstance(b.target, ast.Name) and b.target.id == var and \
                        isinstance(b.op, (ast.Add, ast.Sub)):
                    stride = self.at(b, b.value)
                    if isinstance(b.op, ast.Sub):
                        stride = -stride
                elif isinstance(b, ast.Assign) and len(b.targets) == 1 and isinstance(b.targets[0], ast.Name) \
                        and b.targets[0].id == var:
                    stride = self.at(b, b.value) - Poly.atom(var)
            out.append({"var": var, "start": start, "test": test_p, "stride": stride, "stmt": st})
        return out

    def for_loops(self) -> List[dict]:
        out = []
        for st in self.stmts:
            if isinstance(st, ast.For):
                out.append({"target": ast.unparse(st.target), "iter": self.at(st, st.iter), "stmt": st})
        return out

    # ---- expression sites ------------------------------------------------------------------
    def calls_named(self, name: str) -> List[Tuple[ast.Call, ast.stmt]]:
        out = []
        for st in self.stmts:
            for n in _own_nodes(st):
                if isinstance(n, ast.Call) and call_attr(n) == name:
                    out.append((n, st))
        return out

    def arg(self, call: ast.Call, stmt: ast.stmt, pos: int, kw: Optional[str] = None) -> Optional[Poly]:
        if kw:
            for k in call.keywords:
                if k.arg == kw:
                    return self.at(stmt, k.value)
        if pos < len(call.args):
            return self.at(stmt, call.args[pos])
        return None

    def subscripts_of(self, base_text_pred) -> List[Tuple[ast.Subscript, ast.stmt, Poly, Poly]]:
        """all `B[idx]` loads whose normalised base satisfies the predicate: (node, stmt, base, index)"""
        out = []
        for st in self.stmts:
            for n in _own_nodes(st):
                if isinstance(n, ast.Subscript) and isinstance(n.ctx, ast.Load) and not isinstance(n.slice, ast.Slice):
                    b = self.at(st, n.value)
                    if base_text_pred(str(b)):
                        out.append((n, st, b, self.at(st, n.slice)))
        return out


def _own_nodes(st: ast.stmt):
    """expression nodes of this statement, excluding nested statements' bodies and nested defs; lambdas included"""
    todo = []
    for name, val in ast.iter_fields(st):
        if name in ("body", "orelse", "finalbody", "handlers"):
            continue
        if isinstance(val, ast.AST):
            todo.append(val)
        elif isinstance(val, list):
            todo.extend(v for v in val if isinstance(v, ast.AST))
    while todo:
        n = todo.pop()
        if isinstance(n, (ast.FunctionDef, ast.AsyncFunctionDef, ast.ClassDef)):
            continue
        yield n
        todo.extend(ast.iter_child_nodes(n))
