"""Partition algebra for DesignPartitions: every getter of the class denotes a subset of the design's factors that is
definable from four attributes of a factor -- c (in the main crossing), K (has a complex window), D (is a derived
factor), S (is a source of a crossed noncomplex derived factor).  A getter is evaluated abstractly, from its source, to
the set of attribute cells it can contain; set inclusion between two getters (or unions of them) is then decided by
enumerating the 12 feasible cells (K implies D).  Used by the key-domain rule of C08: a dictionary built over one
partition must not be read with a factor of another partition that is not included in it."""
from __future__ import annotations

import ast
import itertools
from typing import Dict, FrozenSet, Optional, Tuple

from .astutil import dotted
from .model import AnalysisError

ATOMS = ("c", "K", "D", "S")
CELLS = frozenset(t for t in itertools.product([False, True], repeat=4) if not (t[1] and not t[2]))   # K -> D
WORDS = {"c": ("in the main crossing", "not in the main crossing"), "K": ("with a complex window", "with a simple window"),
         "D": ("derived", "basic"), "S": ("a source of a crossed noncomplex derived factor", "not a source")}


def atom(name: str) -> FrozenSet[tuple]:
    i = ATOMS.index(name)
    return frozenset(t for t in CELLS if t[i])


def describe(cell: tuple) -> str:
    return ", ".join(WORDS[a][0 if v else 1] for a, v in zip(ATOMS, cell))


class Partitions:
    """abstract value of every getter of DesignPartitions"""

    def __init__(self, cls):
        self.cls = cls
        self.memo: Dict[str, FrozenSet[tuple]] = {}
        self.source_of: Optional[str] = None       # getter whose window factors define S
        self.unknown: Dict[str, str] = {}
        self.closure: FrozenSet[tuple] = frozenset()   # factors whose window factors are all sources (S)

    # ---- expressions denoting factor collections
    def getter(self, name: str) -> FrozenSet[tuple]:
        if name in self.memo:
            return self.memo[name]
        m = self.cls.methods.get(name)
        if m is None:
            raise AnalysisError("DesignPartitions.%s not found" % name)
        self.memo[name] = CELLS   # recursion guard (over-approximation)
        val = self._function(m)
        self.memo[name] = val
        return val

    def _function(self, m) -> FrozenSet[tuple]:
        env: Dict[str, FrozenSet[tuple]] = {}
        result: Optional[FrozenSet[tuple]] = None
        body = m.node.body
        # the source-factor getter: for d in <getter>(): for s in d.levels[0].window.factors: append s
        src = self._source_shape(m)
        if src is not None:
            self.source_of = src
            return atom("S")
        for st in body:
            if isinstance(st, ast.Expr) and isinstance(st.value, ast.Constant):
                continue
            if isinstance(st, ast.Assign) and len(st.targets) == 1 and isinstance(st.targets[0], ast.Name):
                env[st.targets[0].id] = self.coll(st.value, env)
                continue
            if isinstance(st, ast.Assign) and len(st.targets) == 1 and dotted(st.targets[0]) and dotted(st.targets[0]).startswith("self._"):
                continue      # cache store
            if isinstance(st, ast.If):
                # guard clauses returning [] (the empty subset) or a cached earlier result of this same getter
                rets = [x for x in st.body if isinstance(x, ast.Return)]
                if len(st.body) == 1 and rets and not st.orelse:
                    v = rets[0].value
                    if isinstance(v, ast.List) and not v.elts:
                        continue
                    if dotted(v) and dotted(v).startswith("self._") and dotted(st.test) == dotted(v):
                        continue
                raise AnalysisError("DesignPartitions.%s: unrecognised branch `%s`" % (m.name, ast.unparse(st.test)))
            if isinstance(st, ast.For):
                acc = self._accumulate(st, env)
                if acc is None:
                    raise AnalysisError("DesignPartitions.%s: unrecognised loop" % m.name)
                env[acc[0]] = acc[1]
                continue
            if isinstance(st, ast.Return):
                result = self.coll(st.value, env)
                continue
            raise AnalysisError("DesignPartitions.%s: unrecognised statement `%s`" % (m.name, ast.unparse(st)[:60]))
        if result is None:
            raise AnalysisError("DesignPartitions.%s: no result" % m.name)
        return result

    def _source_shape(self, m) -> Optional[str]:
        """for d in <getter>():  for s in d.levels[0].window.factors: [if s not in acc:] acc.append(s)
        -- optionally as a work list: deps = <getter>(); for d in deps: ...; if <cond on s> [and s not in deps]: deps.append(s)
        (then the window factors of the work-list members are sources as well: self.closure)"""
        loops = [s for s in m.node.body if isinstance(s, ast.For)]
        if len(loops) != 1:
            return None
        lp = loops[0]
        if not isinstance(lp.target, ast.Name):
            return None
        it = lp.iter
        worklist = None
        if isinstance(it, ast.Name):
            defs = [s for s in m.node.body if isinstance(s, ast.Assign) and dotted(s.targets[0]) == it.id]
            if len(defs) != 1:
                return None
            worklist = it.id
            it = defs[0].value
        if not (isinstance(it, ast.Call) and isinstance(it.func, ast.Attribute) and dotted(it.func.value) == "self"):
            return None
        inner = [s for s in lp.body if isinstance(s, ast.For)]
        if len(inner) != 1 or len(lp.body) != 1:
            return None
        txt = ast.unparse(inner[0].iter)
        if txt not in ("%s.levels[0].window.factors" % lp.target.id, "%s.first_level.window.factors" % lp.target.id):
            return None
        v = inner[0].target.id if isinstance(inner[0].target, ast.Name) else None
        apps = [x for x in ast.walk(inner[0]) if isinstance(x, ast.Call) and isinstance(x.func, ast.Attribute) and x.func.attr == "append" and
                len(x.args) == 1 and dotted(x.args[0]) == v]
        accs = {dotted(x.func.value) for x in apps}
        if not apps or not (accs - {worklist}):
            return None
        base = self.getter(it.func.attr)
        extra = frozenset()
        if worklist is not None:
            # condition under which a source joins the work list
            for node in ast.walk(inner[0]):
                if isinstance(node, ast.If) and any(isinstance(b, ast.Expr) and isinstance(b.value, ast.Call) and isinstance(b.value.func, ast.Attribute) and
                                                    b.value.func.attr == "append" and dotted(b.value.func.value) == worklist for b in node.body):
                    conj = node.test.values if isinstance(node.test, ast.BoolOp) and isinstance(node.test.op, ast.And) else [node.test]
                    cond = CELLS
                    for c in conj:
                        if isinstance(c, ast.Compare) and isinstance(c.ops[0], ast.NotIn) and dotted(c.left) == v and dotted(c.comparators[0]) == worklist:
                            continue          # de-duplication
                        cond = cond & self.pred(c, v, {})
                    extra = extra | (cond & atom("S"))
        self.closure = base | extra
        return it.func.attr

    def _accumulate(self, lp: ast.For, env) -> Optional[Tuple[str, FrozenSet[tuple]]]:
        """for f in BASE: [if P(f):] [if f not in acc:] acc.append(f)"""
        if not isinstance(lp.target, ast.Name):
            return None
        v = lp.target.id
        base = self.coll(lp.iter, env)
        cur = lp.body
        cond = CELLS
        acc = None
        while True:
            if len(cur) != 1:
                return None
            st = cur[0]
            if isinstance(st, ast.If) and not st.orelse:
                t = st.test
                if isinstance(t, ast.Compare) and len(t.ops) == 1 and isinstance(t.ops[0], ast.NotIn) and dotted(t.left) == v and isinstance(t.comparators[0], ast.Name) \
                        and t.comparators[0].id not in env or (isinstance(t, ast.Compare) and isinstance(t.ops[0], ast.NotIn) and dotted(t.left) == v and
                                                                 isinstance(t.comparators[0], ast.Name) and env.get(t.comparators[0].id) == frozenset()):
                    pass     # de-duplication against the accumulator
                else:
                    cond = cond & self.pred(t, v, env)
                cur = st.body
                continue
            if isinstance(st, ast.Expr) and isinstance(st.value, ast.Call) and isinstance(st.value.func, ast.Attribute) and st.value.func.attr == "append" and \
                    len(st.value.args) == 1 and dotted(st.value.args[0]) == v and isinstance(st.value.func.value, ast.Name):
                acc = st.value.func.value.id
                break
            return None
        return acc, base & cond

    def coll(self, e: ast.AST, env) -> FrozenSet[tuple]:
        d = dotted(e)
        if isinstance(e, ast.Name) and e.id in env:
            return env[e.id]
        if isinstance(e, ast.List) and not e.elts:
            return frozenset()
        if d in ("self._block.act_design", "self._block.design"):
            return CELLS
        if isinstance(e, ast.Subscript) and dotted(e.value) == "self._block.crossings" and ast.unparse(e.slice) == "self.main_crossing":
            return atom("c")
        if isinstance(e, ast.Call):
            f = e.func
            if isinstance(f, ast.Attribute) and dotted(f.value) == "self" and not e.args:
                return self.getter(f.attr)
            if dotted(f) in ("list", "tuple", "sorted", "set") and e.args:
                return self.coll(e.args[0], env)
            if dotted(f) == "filter" and len(e.args) == 2 and isinstance(e.args[0], ast.Lambda) and len(e.args[0].args.args) == 1:
                v = e.args[0].args.args[0].arg
                return self.coll(e.args[1], env) & self.pred(e.args[0].body, v, env)
        if isinstance(e, ast.ListComp) and len(e.generators) == 1 and isinstance(e.generators[0].target, ast.Name) and dotted(e.elt) == e.generators[0].target.id:
            g = e.generators[0]
            out = self.coll(g.iter, env)
            for c in g.ifs:
                out = out & self.pred(c, g.target.id, env)
            return out
        if isinstance(e, ast.BinOp) and isinstance(e.op, ast.Add):
            return self.coll(e.left, env) | self.coll(e.right, env)
        raise AnalysisError("partition algebra: unrecognised collection `%s`" % ast.unparse(e)[:80])

    def pred(self, t: ast.AST, v: str, env) -> FrozenSet[tuple]:
        if isinstance(t, ast.UnaryOp) and isinstance(t.op, ast.Not):
            return CELLS - self.pred(t.operand, v, env)
        if isinstance(t, ast.BoolOp):
            parts = [self.pred(x, v, env) for x in t.values]
            out = parts[0]
            for p in parts[1:]:
                out = (out & p) if isinstance(t.op, ast.And) else (out | p)
            return out
        if isinstance(t, ast.Call) and dotted(t.func) == "isinstance" and len(t.args) == 2 and dotted(t.args[0]) == v and dotted(t.args[1]) == "DerivedFactor":
            return atom("D")
        if dotted(t) == v + ".has_complex_window":
            return atom("K")
        if isinstance(t, ast.Compare) and len(t.ops) == 1 and dotted(t.left) == v and isinstance(t.ops[0], (ast.In, ast.NotIn)):
            inner = self.coll(t.comparators[0], env)
            return inner if isinstance(t.ops[0], ast.In) else CELLS - inner
        raise AnalysisError("partition algebra: unrecognised predicate `%s`" % ast.unparse(t)[:80])
