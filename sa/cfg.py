"""E2 -- statement-level control-flow graph for one function, with dominators,
post-dominators and "every path from A to B passes C" queries.

Statement kinds handled: if / for / while (with else) / try-except-finally / with / return /
raise / break / continue / assert / simple statements.  Branch conditions are nodes of their
own (kind 'test' / 'for'), with labelled out-edges 'T' and 'F'.
"""
from __future__ import annotations

import ast
from typing import Dict, Iterable, List, Optional, Set, Tuple


class Node:
    __slots__ = ("id", "kind", "ast", "succ", "pred")

    def __init__(self, id: int, kind: str, node: Optional[ast.AST]):
        self.id = id
        self.kind = kind          # entry exit raise stmt test for
        self.ast = node
        self.succ: List[Tuple["Node", Optional[str]]] = []
        self.pred: List[Tuple["Node", Optional[str]]] = []

    def __repr__(self):
        t = ""
        if self.ast is not None:
            try:
                t = ast.unparse(self.ast).split("\n")[0][:50]
            except Exception:
                t = type(self.ast).__name__
        return "<%d %s %s>" % (self.id, self.kind, t)


class CFG:
    def __init__(self, fn_node: ast.AST):
        self.nodes: List[Node] = []
        self.by_ast: Dict[int, Node] = {}
        self.entry = self._new("entry", None)
        self.exit = self._new("exit", None)        # normal exit (return / fall off the end)
        self.raise_exit = self._new("raise", None)  # exceptional exit
        self.loop_of: Dict[int, ast.AST] = {}
        body = fn_node.body if not isinstance(fn_node, ast.Lambda) else [ast.Return(value=fn_node.body)]
        ends = self._seq(body, [(self.entry, None)], loop=None, handlers=[])
        for n, lab in ends:
            self._edge(n, self.exit, lab)

    # -------------------------------------------------------------- building
    def _new(self, kind, node) -> Node:
        n = Node(len(self.nodes), kind, node)
        self.nodes.append(n)
        if node is not None:
            self.by_ast[id(node)] = n
        return n

    def _edge(self, a: Node, b: Node, label=None):
        if (b, label) not in a.succ:
            a.succ.append((b, label))
            b.pred.append((a, label))

    def _connect(self, preds, n: Node):
        for p, lab in preds:
            self._edge(p, n, lab)

    def _seq(self, stmts, preds, loop, handlers):
        """returns list of (node,label) dangling ends"""
        for st in stmts:
            preds = self._stmt(st, preds, loop, handlers)
        return preds

    def _stmt(self, st, preds, loop, handlers):
        if isinstance(st, ast.If):
            t = self._new("test", st)
            self._connect(preds, t)
            a = self._seq(st.body, [(t, "T")], loop, handlers)
            b = self._seq(st.orelse, [(t, "F")], loop, handlers) if st.orelse else [(t, "F")]
            return a + b
        if isinstance(st, ast.While):
            t = self._new("test", st)
            self._connect(preds, t)
            ctx = {"head": t, "breaks": []}
            ends = self._seq(st.body, [(t, "T")], ctx, handlers)
            for n, lab in ends:
                self._edge(n, t, lab)
            const_true = isinstance(st.test, ast.Constant) and bool(st.test.value)
            out = [] if const_true else [(t, "F")]
            if st.orelse:
                out = self._seq(st.orelse, out, loop, handlers)
            return out + ctx["breaks"]
        if isinstance(st, (ast.For, ast.AsyncFor)):
            t = self._new("for", st)
            self._connect(preds, t)
            ctx = {"head": t, "breaks": []}
            ends = self._seq(st.body, [(t, "T")], ctx, handlers)
            for n, lab in ends:
                self._edge(n, t, lab)
            out = [(t, "F")]
            if st.orelse:
                out = self._seq(st.orelse, out, loop, handlers)
            return out + ctx["breaks"]
        if isinstance(st, ast.Break):
            n = self._new("stmt", st)
            self._connect(preds, n)
            if loop is None:
                raise ValueError("break outside loop")
            loop["breaks"].append((n, None))
            return []
        if isinstance(st, ast.Continue):
            n = self._new("stmt", st)
            self._connect(preds, n)
            self._edge(n, loop["head"])
            return []
        if isinstance(st, ast.Return):
            n = self._new("stmt", st)
            self._connect(preds, n)
            self._edge(n, self.exit)
            return []
        if isinstance(st, ast.Raise):
            n = self._new("stmt", st)
            self._connect(preds, n)
            if handlers:
                for h in handlers[-1]:
                    self._edge(n, h, "exc")
            else:
                self._edge(n, self.raise_exit)
            return []
        if isinstance(st, (ast.With, ast.AsyncWith)):
            n = self._new("stmt", st)
            self._connect(preds, n)
            return self._seq(st.body, [(n, None)], loop, handlers)
        if isinstance(st, ast.Try):
            hnodes = []
            for h in st.handlers:
                hn = self._new("stmt", h)
                hnodes.append(hn)
            first = len(self.nodes)
            ends = self._seq(st.body, preds, loop, handlers + [hnodes] if hnodes else handlers)
            # any statement of the try body may raise into a handler
            for n in self.nodes[first:]:
                for hn in hnodes:
                    self._edge(n, hn, "exc")
            for p, lab in preds:
                for hn in hnodes:
                    self._edge(p, hn, "exc")
            if st.orelse:
                ends = self._seq(st.orelse, ends, loop, handlers)
            for h, hn in zip(st.handlers, hnodes):
                ends = ends + self._seq(h.body, [(hn, None)], loop, handlers)
            if st.finalbody:
                ends = self._seq(st.finalbody, ends, loop, handlers)
            return ends
        if isinstance(st, (ast.FunctionDef, ast.AsyncFunctionDef, ast.ClassDef)):
            n = self._new("stmt", st)
            self._connect(preds, n)
            return [(n, None)]
        n = self._new("stmt", st)
        self._connect(preds, n)
        return [(n, None)]

    # -------------------------------------------------------------- queries
    def node_of(self, st: ast.AST) -> Node:
        return self.by_ast[id(st)]

    def has(self, st: ast.AST) -> bool:
        return id(st) in self.by_ast

    def reachable(self, src: Node, avoid: Iterable[Node] = (), edge_filter=None) -> Set[int]:
        av = {n.id for n in avoid}
        seen: Set[int] = set()
        todo = [src]
        while todo:
            n = todo.pop()
            for s, lab in n.succ:
                if s.id in av or s.id in seen:
                    continue
                if edge_filter is not None and not edge_filter(n, s, lab):
                    continue
                seen.add(s.id)
                todo.append(s)
        return seen

    def every_path_passes(self, src: Node, dst: Node, via: Iterable[Node], edge_filter=None) -> bool:
        """True iff dst is unreachable from src once the `via` nodes are removed."""
        via = list(via)
        if src in via:
            return True
        return dst.id not in self.reachable(src, avoid=via, edge_filter=edge_filter)

    def dominators(self) -> Dict[int, Set[int]]:
        ids = [n.id for n in self.nodes]
        reach = self.reachable(self.entry) | {self.entry.id}
        dom = {i: set(reach) for i in ids if i in reach}
        dom[self.entry.id] = {self.entry.id}
        changed = True
        while changed:
            changed = False
            for n in self.nodes:
                if n.id not in reach or n is self.entry:
                    continue
                ps = [p.id for p, _ in n.pred if p.id in reach]
                new = set.intersection(*[dom[p] for p in ps]) if ps else set()
                new = new | {n.id}
                if new != dom[n.id]:
                    dom[n.id] = new
                    changed = True
        return dom

    def dominates(self, a: Node, b: Node) -> bool:
        if not hasattr(self, "_dom"):
            self._dom = self.dominators()
        return b.id in self._dom and a.id in self._dom[b.id]

    def stmts(self) -> List[Node]:
        return [n for n in self.nodes if n.ast is not None]


def enclosing_loops(fn_node: ast.AST) -> Dict[int, List[ast.AST]]:
    """id(stmt) -> list of enclosing loop statements (outermost first)."""
    out: Dict[int, List[ast.AST]] = {}

    def visit(stmts, stack):
        for st in stmts:
            out[id(st)] = list(stack)
            if isinstance(st, (ast.For, ast.While, ast.AsyncFor)):
                visit(st.body, stack + [st])
                visit(st.orelse, stack)
            elif isinstance(st, ast.If):
                visit(st.body, stack)
                visit(st.orelse, stack)
            elif isinstance(st, (ast.With, ast.AsyncWith)):
                visit(st.body, stack)
            elif isinstance(st, ast.Try):
                visit(st.body, stack)
                for h in st.handlers:
                    visit(h.body, stack)
                visit(st.orelse, stack)
                visit(st.finalbody, stack)
    visit(fn_node.body if not isinstance(fn_node, ast.Lambda) else [], [])
    return out


def guard_stack(fn_node: ast.AST) -> Dict[int, List[Tuple[ast.AST, bool]]]:
    """id(stmt) -> list of (if/while test expression, polarity) the statement is nested under."""
    out: Dict[int, List[Tuple[ast.AST, bool]]] = {}

    def visit(stmts, stack):
        for st in stmts:
            out[id(st)] = list(stack)
            if isinstance(st, ast.If):
                visit(st.body, stack + [(st.test, True)])
                visit(st.orelse, stack + [(st.test, False)])
            elif isinstance(st, ast.While):
                visit(st.body, stack + [(st.test, True)])
                visit(st.orelse, stack)
            elif isinstance(st, (ast.For, ast.AsyncFor)):
                visit(st.body, stack)
                visit(st.orelse, stack)
            elif isinstance(st, (ast.With, ast.AsyncWith)):
                visit(st.body, stack)
            elif isinstance(st, ast.Try):
                visit(st.body, stack)
                for h in st.handlers:
                    visit(h.body, stack)
                visit(st.orelse, stack)
                visit(st.finalbody, stack)
    visit(fn_node.body if not isinstance(fn_node, ast.Lambda) else [], [])
    return out


def path_guards(fn_node: ast.AST) -> Dict[int, List[Tuple[ast.AST, bool]]]:
    """Like guard_stack, but a statement that follows an early exit inherits the negated exit condition:
        if C: continue / return / raise / break      (no else)
        S                                            -> S is guarded by (C, False)
    and  `if C: <abrupt> else: T`  guards what follows by (C, False) as well.  This makes the guard-clause form and the
    nested form of the same code carry the same guards."""
    from .astutil import ends_abruptly
    out: Dict[int, List[Tuple[ast.AST, bool]]] = {}

    def visit(stmts, stack):
        stack = list(stack)
        for st in stmts:
            out[id(st)] = list(stack)
            if isinstance(st, ast.If):
                visit(st.body, stack + [(st.test, True)])
                visit(st.orelse, stack + [(st.test, False)])
                a = ends_abruptly(st.body)
                b = ends_abruptly(st.orelse) if st.orelse else None
                if a and not b:
                    stack = stack + [(st.test, False)]
                elif b and not a:
                    stack = stack + [(st.test, True)]
            elif isinstance(st, ast.While):
                visit(st.body, stack + [(st.test, True)])
                visit(st.orelse, stack)
            elif isinstance(st, (ast.For, ast.AsyncFor)):
                visit(st.body, stack)
                visit(st.orelse, stack)
            elif isinstance(st, (ast.With, ast.AsyncWith)):
                visit(st.body, stack)
            elif isinstance(st, ast.Try):
                visit(st.body, stack)
                for h in st.handlers:
                    visit(h.body, stack)
                visit(st.orelse, stack)
                visit(st.finalbody, stack)
    visit(fn_node.body if not isinstance(fn_node, ast.Lambda) else [], [])
    return out
