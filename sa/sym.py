"""E3 (part) -- symbolic normal forms of expressions.

An expression is normalised into a canonical polynomial over *atoms* (ring axioms: + - *
with integer coefficients); everything that is not ring arithmetic (calls, attribute reads,
subscripts, //, %, comparisons) becomes an atom whose sub-expressions are normalised
recursively.  Local names that have exactly one definition in the function (and are not
loop-carried) are expanded through that definition ("provenance closure"), so that

    a = block.preamble_size(c); x = 1 + a        and        x = block.preamble_size(c) + 1

have the same normal form.  Two expressions with equal normal forms are equal as functions
of their atoms; the converse does not hold (the comparison is sound for "same", incomplete
for "different", which is the direction a sibling-agreement rule needs when the siblings are
written in the same style -- every armed instance is confirmed on the current tree).

Nothing is evaluated: this is term rewriting on the syntax tree.
"""
from __future__ import annotations

import ast
from typing import Dict, List, Optional, Set, Tuple

Mono = Tuple[str, ...]


class Poly:
    __slots__ = ("t",)

    def __init__(self, t: Optional[Dict[Mono, int]] = None):
        self.t = {m: c for m, c in (t or {}).items() if c != 0}

    @staticmethod
    def const(n: int) -> "Poly":
        return Poly({(): n})

    @staticmethod
    def atom(s: str) -> "Poly":
        return Poly({(s,): 1})

    def __add__(self, o: "Poly") -> "Poly":
        t = dict(self.t)
        for m, c in o.t.items():
            t[m] = t.get(m, 0) + c
        return Poly(t)

    def __neg__(self) -> "Poly":
        return Poly({m: -c for m, c in self.t.items()})

    def __sub__(self, o: "Poly") -> "Poly":
        return self + (-o)

    def __mul__(self, o: "Poly") -> "Poly":
        t: Dict[Mono, int] = {}
        for m1, c1 in self.t.items():
            for m2, c2 in o.t.items():
                m = tuple(sorted(m1 + m2))
                t[m] = t.get(m, 0) + c1 * c2
        return Poly(t)

    def is_const(self) -> bool:
        return all(m == () for m in self.t)

    def const_value(self) -> Optional[int]:
        if self.is_const():
            return self.t.get((), 0)
        return None

    def atoms(self) -> Set[str]:
        return {a for m in self.t for a in m}

    def coeff(self, *atoms: str) -> int:
        return self.t.get(tuple(sorted(atoms)), 0)

    def __eq__(self, o) -> bool:
        return isinstance(o, Poly) and self.t == o.t

    def __hash__(self):
        return hash(str(self))

    def __str__(self) -> str:
        if not self.t:
            return "0"
        parts = []
        for m in sorted(self.t, key=lambda m: (len(m), m)):
            c = self.t[m]
            if m == ():
                parts.append(str(c))
            else:
                body = "*".join(m)
                parts.append(body if c == 1 else ("-" + body if c == -1 else "%d*%s" % (c, body)))
        s = " + ".join(parts)
        return s.replace("+ -", "- ")

    __repr__ = __str__


# bare function / method name -> parameter names (without self), for names whose definitions all agree; filled by model.Repo
SIGNATURES: Dict[str, List[str]] = {}


class Env:
    """Definitions visible in one function body."""

    def __init__(self, defs: Optional[Dict[str, ast.AST]] = None, rename: Optional[Dict[str, str]] = None,
                 loops: Optional[Dict[str, ast.AST]] = None, keep: Optional[Set[str]] = None):
        self.defs = dict(defs or {})
        self.rename = dict(rename or {})      # bare-name renaming (parameters / loop variables)
        self.loops = dict(loops or {})        # loop variable -> iterable expression
        self.keep = set(keep or ())           # names never expanded
        self.values: Dict[str, "Poly"] = {}   # flow-sensitive current values (see forward())
        self.seq: Set[str] = set()            # names known to hold a string / list (their `+` is concatenation)
        self._active: List[str] = []
        self.depth = 0                        # nesting depth of bound variables (comprehensions / lambdas), for alpha-renaming
        self.resolver = None                  # optional: call node -> (parameter names, actual argument nodes, return expression) of a one-line helper
        self.inline_depth = 0

    def child(self, **kw) -> "Env":
        e = Env(self.defs, self.rename, self.loops, self.keep)
        e.values = dict(self.values)
        e.seq = set(self.seq)
        e.depth = self.depth
        e.resolver = self.resolver
        e.inline_depth = self.inline_depth
        for k, v in kw.items():
            getattr(e, k).update(v)
        return e

    def copy(self) -> "Env":
        return self.child()


TRANSPARENT_CALLS = {"cast"}          # cast(T, x) -> x
IDENTITY_WRAPPERS = {"list", "tuple"}  # list(x) of something already a list is kept as list(x)


def collect_defs(fn_node: ast.AST) -> Tuple[Dict[str, ast.AST], Dict[str, ast.AST], Set[str]]:
    """(single definitions, loop variables -> iterable, multiply-assigned names) of a function body.
    Nested function bodies are not entered (they have their own scope) but their free-variable reads
    resolve against this table, which is what closures do."""
    counts: Dict[str, int] = {}
    defs: Dict[str, ast.AST] = {}
    loops: Dict[str, ast.AST] = {}
    multi: Set[str] = set()

    def bump(name: str, value: Optional[ast.AST]):
        counts[name] = counts.get(name, 0) + 1
        if counts[name] == 1 and value is not None:
            defs[name] = value
        else:
            defs.pop(name, None)
            multi.add(name)

    def targets(t: ast.AST, value: Optional[ast.AST]):
        if isinstance(t, ast.Name):
            bump(t.id, value)
        elif isinstance(t, (ast.Tuple, ast.List)):
            if isinstance(value, (ast.Tuple, ast.List)) and len(value.elts) == len(t.elts):
                for a, b in zip(t.elts, value.elts):
                    targets(a, b)
            else:
                for i, a in enumerate(t.elts):
                    if value is not None and isinstance(a, ast.Name):
                        # component i of a tuple-valued expression
                        targets(a, ast.Subscript(value=value, slice=ast.Constant(value=i), ctx=ast.Load()))
                    else:
                        targets(a, None)
        elif isinstance(t, ast.Starred):
            targets(t.value, None)

    def visit(stmts):
        for st in stmts:
            if isinstance(st, (ast.FunctionDef, ast.AsyncFunctionDef, ast.ClassDef)):
                bump(st.name, None)
                continue
            if isinstance(st, ast.Assign):
                for t in st.targets:
                    targets(t, st.value)
            elif isinstance(st, ast.AnnAssign):
                if st.value is not None:
                    targets(st.target, st.value)
            elif isinstance(st, ast.AugAssign):
                if isinstance(st.target, ast.Name):
                    bump(st.target.id, None)
                    bump(st.target.id, None)
            elif isinstance(st, (ast.For, ast.AsyncFor)):
                def loop_t(t, it):
                    if isinstance(t, ast.Name):
                        counts[t.id] = counts.get(t.id, 0) + 1
                        if counts[t.id] == 1:
                            loops[t.id] = it
                        else:
                            loops.pop(t.id, None)
                            defs.pop(t.id, None)
                            multi.add(t.id)
                    elif isinstance(t, (ast.Tuple, ast.List)):
                        for i, a in enumerate(t.elts):
                            loop_t(a, ast.Subscript(value=it, slice=ast.Constant(value=("elt", i)), ctx=ast.Load()))
                loop_t(st.target, st.iter)
                visit(st.body)
                visit(st.orelse)
            elif isinstance(st, ast.While):
                visit(st.body)
                visit(st.orelse)
            elif isinstance(st, ast.If):
                visit(st.body)
                visit(st.orelse)
            elif isinstance(st, (ast.With, ast.AsyncWith)):
                for it in st.items:
                    if it.optional_vars is not None:
                        targets(it.optional_vars, None)
                visit(st.body)
            elif isinstance(st, ast.Try):
                visit(st.body)
                for h in st.handlers:
                    if h.name:
                        bump(h.name, None)
                    visit(h.body)
                visit(st.orelse)
                visit(st.finalbody)
            # walrus
            for n in ast.walk(st) if not isinstance(st, (ast.For, ast.While, ast.If, ast.With, ast.Try)) else []:
                if isinstance(n, ast.NamedExpr) and isinstance(n.target, ast.Name):
                    bump(n.target.id, None)

    body = fn_node.body if not isinstance(fn_node, ast.Lambda) else []
    visit(body)
    # a name that is both a loop variable and assigned is not expandable
    for n in list(loops):
        if n in defs or n in multi:
            defs.pop(n, None)
            loops.pop(n, None)
            multi.add(n)
    # names that are (re)assigned inside a loop *after* being read there are loop-carried; the
    # single-definition test above already excludes augmented assignments; a plain single
    # assignment inside a loop is a per-iteration definition and is expandable.
    return defs, loops, multi


def env_for(fn_node: ast.AST, outer: Optional[Env] = None) -> Env:
    defs, loops, multi = collect_defs(fn_node)
    params = set()
    if hasattr(fn_node, "args"):
        a = fn_node.args
        for x in list(a.posonlyargs) + list(a.args) + list(a.kwonlyargs):
            params.add(x.arg)
        if a.vararg:
            params.add(a.vararg.arg)
        if a.kwarg:
            params.add(a.kwarg.arg)
    e = Env()
    if outer is not None:
        e.defs.update({k: v for k, v in outer.defs.items()})
        e.loops.update(outer.loops)
        e.keep |= outer.keep
        e.rename.update(outer.rename)
    for p in params:
        e.defs.pop(p, None)
        e.loops.pop(p, None)
    for k in multi:
        e.defs.pop(k, None)
    e.defs.update(defs)
    e.loops.update(loops)
    e.keep |= multi
    return e


_CMP = {ast.Eq: "==", ast.NotEq: "!=", ast.Lt: "<", ast.LtE: "<=", ast.Gt: ">", ast.GtE: ">=",
        ast.Is: "is", ast.IsNot: "is not", ast.In: "in", ast.NotIn: "not in"}
_FLIP = {">": "<", ">=": "<="}


def sym(e: ast.AST, env: Optional[Env] = None) -> Poly:
    env = env or Env()
    return _sym(e, env)


def symstr(e: ast.AST, env: Optional[Env] = None) -> str:
    return str(sym(e, env))


def _atom(s: str) -> Poly:
    return Poly.atom(s)


def _ite(c: "Poly", a: "Poly", b: "Poly") -> "Poly":
    """if-then-else term with the boolean identities ite(c,True,False)=c, ite(c,True,x)=c or x, ite(c,x,False)=c and x,
    ite(c,a,a)=a; a negated condition swaps the branches"""
    cs = str(c)
    if cs.startswith("not(") and cs.endswith(")") and cs.count("(") == cs.count(")"):
        inner = cs[4:-1]
        if inner.count("(") == inner.count(")"):
            return _ite(Poly.atom(inner), b, a)
    # `x != y` is the negation of `x == y`: one polarity (==) is kept, the branches are swapped
    import re as _re
    m_ = _re.fullmatch(r"\((.*) != (.*)\)", cs)
    if m_ and m_.group(1).count("(") == m_.group(1).count(")") and m_.group(2).count("(") == m_.group(2).count(")") and " != " not in m_.group(1) + m_.group(2):
        return _ite(Poly.atom("(%s == %s)" % (m_.group(1), m_.group(2))), b, a)
    sa, sb = str(a), str(b)
    if sa == sb:
        return a
    if sa == "True" and sb == "False":
        return c
    if sa == "False" and sb == "True":
        return Poly.atom("not(%s)" % cs)
    if sa == "True":
        return Poly.atom("(" + " or ".join(sorted([cs, sb])) + ")")
    if sb == "False":
        return Poly.atom("(" + " and ".join(sorted([cs, sa])) + ")")
    return Poly.atom("ite(%s, %s, %s)" % (cs, sa, sb))


def _sym(e: ast.AST, env: Env) -> Poly:
    if isinstance(e, ast.Constant):
        if isinstance(e.value, bool):
            return _atom(repr(e.value))
        if isinstance(e.value, int):
            return Poly.const(e.value)
        return _atom(repr(e.value))
    if isinstance(e, ast.Name):
        n = e.id
        if n in env.values:
            return env.values[n]
        if n in env.defs and n not in env.keep and n not in env._active:
            env._active.append(n)
            try:
                return _sym(env.defs[n], env)
            finally:
                env._active.pop()
        return _atom(env.rename.get(n, n))
    if isinstance(e, ast.UnaryOp):
        if isinstance(e.op, ast.USub):
            return -_sym(e.operand, env)
        if isinstance(e.op, ast.UAdd):
            return _sym(e.operand, env)
        if isinstance(e.op, ast.Not):
            return _atom("not(%s)" % _sym(e.operand, env))
        if isinstance(e.op, ast.Invert):
            return _atom("~(%s)" % _sym(e.operand, env))
    if isinstance(e, ast.BinOp):
        l, r = _sym(e.left, env), _sym(e.right, env)
        if isinstance(e.op, ast.Add):
            if _is_seq(e.left, env) or _is_seq(e.right, env):
                return _atom("concat(%s, %s)" % (l, r))
            return l + r
        if isinstance(e.op, ast.Sub):
            return l - r
        if isinstance(e.op, ast.Mult):
            return l * r
        lc, rc = l.const_value(), r.const_value()
        if isinstance(e.op, ast.FloorDiv):
            if lc is not None and rc not in (None, 0):
                return Poly.const(lc // rc)
            if rc == 1:
                return l
            return _atom("(%s)//(%s)" % (l, r))
        if isinstance(e.op, ast.Mod):
            if lc is not None and rc not in (None, 0):
                return Poly.const(lc % rc)
            return _atom("(%s)%%(%s)" % (l, r))
        if isinstance(e.op, ast.Pow):
            if rc is not None and 0 <= rc <= 4 and not (_is_seq(e.left, env)):
                out = Poly.const(1)
                for _ in range(rc):
                    out = out * l
                return out
            return _atom("(%s)**(%s)" % (l, r))
        if isinstance(e.op, ast.Div):
            return _atom("(%s)/(%s)" % (l, r))
        return _atom("(%s)%s(%s)" % (l, type(e.op).__name__, r))
    if isinstance(e, ast.Compare):
        parts = []
        left = e.left
        for op, right in zip(e.ops, e.comparators):
            o = _CMP.get(type(op), type(op).__name__)
            a, b = _sym(left, env), _sym(right, env)
            if o in _FLIP:
                a, b, o = b, a, _FLIP[o]
            if o in ("==", "!=") and str(b) < str(a):
                a, b = b, a
            parts.append("(%s %s %s)" % (a, o, b))
            left = right
        return _atom(" and ".join(parts))
    if isinstance(e, ast.BoolOp):
        op = "and" if isinstance(e.op, ast.And) else "or"
        vs = sorted(str(_sym(v, env)) for v in e.values)
        return _atom("(" + (" %s " % op).join(vs) + ")")
    if isinstance(e, ast.IfExp):
        return _ite(_sym(e.test, env), _sym(e.body, env), _sym(e.orelse, env))
    if isinstance(e, ast.Attribute):
        return _atom("%s.%s" % (_sym(e.value, env), e.attr))
    if isinstance(e, ast.Subscript):
        return _atom("%s[%s]" % (_sym(e.value, env), _slice(e.slice, env)))
    if isinstance(e, ast.Call):
        fname = None
        if isinstance(e.func, ast.Name):
            fname = e.func.id
        if fname in TRANSPARENT_CALLS and len(e.args) == 2:
            return _sym(e.args[1], env)
        if fname == "list" and not e.args and not e.keywords:
            return _atom("[]")             # list()  ==  []
        if env.resolver is not None and env.inline_depth < 2:
            r = env.resolver(e)
            if r is not None:
                params, actuals, ret_expr, pre = r
                if pre is None:
                    # a helper with branches: propagate forward through its body with the parameters bound to the actuals
                    fn_node, ret_stmt = ret_expr
                    base = Env(rename=env.rename)
                    base.resolver = env.resolver
                    base.inline_depth = env.inline_depth + 1
                    snaps = forward(fn_node, base, {pn: _sym(a, env) for pn, a in zip(params, actuals)})
                    return _sym(ret_stmt.value, snaps[id(ret_stmt)])
                inner = Env(rename=env.rename)
                inner.depth = env.depth
                inner.resolver = env.resolver
                inner.inline_depth = env.inline_depth + 1
                for pn, a in zip(params, actuals):
                    inner.values[pn] = _sym(a, env)
                    if _is_seq(a, env):
                        inner.seq.add(pn)
                for nm, ex in pre:
                    inner.values[nm] = _sym(ex, inner)
                    if _is_seq(ex, inner):
                        inner.seq.add(nm)
                return _sym(ret_expr, inner)
        if fname in ("map", "filter") and fname not in env.values and not e.keywords and len(e.args) == 2 and isinstance(e.args[0], ast.Lambda) \
                and len(e.args[0].args.args) == 1 and not e.args[0].args.defaults:
            lam = e.args[0]
            tgt = ast.Name(id=lam.args.args[0].arg, ctx=ast.Store())
            if fname == "map":
                return _atom(_comp(lam.body, [(tgt, e.args[1], [])], env))
            return _atom(_comp(ast.Name(id=lam.args.args[0].arg, ctx=ast.Load()), [(tgt, e.args[1], [lam.body])], env))
        if fname in ("list",) and fname not in env.values and not e.keywords and len(e.args) == 1:
            inner_p = _sym(e.args[0], env)
            txt = str(inner_p)
            if txt.startswith("[") and txt.endswith("]") and len(inner_p.t) == 1:
                return inner_p          # list() of something that already is a list (comprehension / map / filter / literal)
        if fname in ("max", "min") and fname not in env.values and not e.keywords:
            # max(a, b) == max([a, b]) == max([b, a]); max([c] + xs) keeps the list part as is
            items = None
            if len(e.args) == 1 and isinstance(e.args[0], (ast.List, ast.Tuple)):
                items = e.args[0].elts
            elif len(e.args) > 1:
                items = e.args
            if items is not None and not any(isinstance(i, ast.Starred) for i in items):
                return _atom("%s{%s}" % (fname, ", ".join(sorted(str(_sym(i, env)) for i in items))))
        f = _sym(e.func, env) if not isinstance(e.func, ast.Name) or e.func.id in env.defs or e.func.id in env.values else _atom(e.func.id)
        args = []
        for a in e.args:
            if isinstance(a, ast.Starred):
                args.append("*" + str(_sym(a.value, env)))
            else:
                args.append(str(_sym(a, env)))
        kws = list(e.keywords)
        # keyword arguments of a repository function with a unique signature are put back into their positions: f(a, trial=t) == f(a, t)
        bare = e.func.attr if isinstance(e.func, ast.Attribute) else (e.func.id if isinstance(e.func, ast.Name) else None)
        sig = SIGNATURES.get(bare) if bare else None
        if sig and kws and all(k.arg in sig for k in kws) and not any(isinstance(a, ast.Starred) for a in e.args):
            slots = {sig.index(k.arg): k for k in kws}
            npos = len(e.args)
            if all(i in slots for i in range(npos, npos + len(slots))) and min(slots) >= npos:
                for i in range(npos, npos + len(slots)):
                    args.append(str(_sym(slots[i].value, env)))
                kws = []
        for k in sorted(kws, key=lambda k: k.arg or ""):
            args.append("%s=%s" % (k.arg, _sym(k.value, env)))
        return _atom("%s(%s)" % (f, ", ".join(args)))
    if isinstance(e, (ast.Tuple, ast.List)):
        br = "[]" if isinstance(e, ast.List) else "()"
        return _atom(br[0] + ", ".join(str(_sym(x, env)) for x in e.elts) + br[1])
    if isinstance(e, ast.Starred):
        return _atom("*" + str(_sym(e.value, env)))
    if isinstance(e, (ast.ListComp, ast.GeneratorExp, ast.SetComp)):
        return _atom(_comp(e.elt, [(g.target, g.iter, g.ifs) for g in e.generators], env))
    if isinstance(e, ast.Lambda):
        inner = env.child()
        names = []
        for a in e.args.args:
            names.append(_bind_bound(inner, a.arg))
        return _atom("lambda %s: %s" % (",".join(names), _sym(e.body, inner)))
    if isinstance(e, ast.DictComp):
        inner = env.child()
        parts = []
        for g in e.generators:
            it_s = _sym(g.iter, inner)
            tname = _bind_target(inner, g.target)
            parts.append("for %s in %s%s" % (tname, it_s, "".join(" if %s" % _sym(c, inner) for c in g.ifs)))
        return _atom("{%s: %s %s}" % (_sym(e.key, inner), _sym(e.value, inner), " ".join(parts)))
    if isinstance(e, ast.JoinedStr):
        return _atom(ast.unparse(e))
    if isinstance(e, ast.Dict):
        return _atom("{%s}" % ", ".join("%s: %s" % (_sym(k, env) if k is not None else "**", _sym(v, env))
                                        for k, v in zip(e.keys, e.values)))
    if isinstance(e, ast.NamedExpr):
        return _sym(e.value, env)
    return _atom(ast.unparse(e))


def _bind_bound(env: Env, name: str) -> str:
    """bind a comprehension / lambda variable in env under a canonical (alpha-renamed) name"""
    canon = "_b%d" % env.depth
    env.depth += 1
    env.defs.pop(name, None)
    env.values.pop(name, None)
    env.loops.pop(name, None)
    env.keep.add(name)
    env.rename[name] = canon
    return canon


def _bind_target(env: Env, t: ast.AST) -> str:
    if isinstance(t, ast.Name):
        return _bind_bound(env, t.id)
    if isinstance(t, (ast.Tuple, ast.List)):
        return "(" + ", ".join(_bind_target(env, x) for x in t.elts) + ")"
    if isinstance(t, ast.Starred):
        return "*" + _bind_target(env, t.value)
    return ast.unparse(t)


def _comp(elt: ast.AST, gens, env: Env) -> str:
    """canonical text of a comprehension: [ELT for T in ITER if C ...] with alpha-renamed targets"""
    inner = env.child()
    parts = []
    for target, it, ifs in gens:
        it_s = _sym(it, inner)              # the iterable is evaluated before its target is bound
        tname = _bind_target(inner, target)
        parts.append("for %s in %s%s" % (tname, it_s, "".join(" if %s" % _sym(c, inner) for c in ifs)))
    return "[%s %s]" % (_sym(elt, inner), " ".join(parts))


_SEQ_FUNCS = {"list", "tuple", "reversed", "sorted", "str", "repr", "map", "filter", "zip", "chain", "range", "set", "dict"}
_SEQ_METHODS = {"join", "format", "replace", "strip", "lstrip", "rstrip", "split", "splitlines", "lower", "upper", "copy",
                "get_n_fresh", "read_text", "decode", "keys", "values", "items"}


def _is_seq(e: ast.AST, env: Optional[Env] = None) -> bool:
    """definitely a string / list valued expression: `+` on it is concatenation (ordered), not ring addition"""
    if isinstance(e, (ast.List, ast.Tuple, ast.ListComp, ast.JoinedStr, ast.Dict, ast.Set)):
        return True
    if isinstance(e, ast.Constant):
        return isinstance(e.value, (str, bytes))
    if isinstance(e, ast.Call):
        if isinstance(e.func, ast.Name):
            if e.func.id in _SEQ_FUNCS:
                return True
            if e.func.id == "cast" and len(e.args) == 2:
                return _is_seq(e.args[1], env)
        if isinstance(e.func, ast.Attribute) and e.func.attr in _SEQ_METHODS:
            return True
        return False
    if isinstance(e, ast.Subscript):
        return isinstance(e.slice, ast.Slice)
    if isinstance(e, ast.BinOp) and isinstance(e.op, ast.Add):
        return _is_seq(e.left, env) or _is_seq(e.right, env)
    if isinstance(e, ast.BinOp) and isinstance(e.op, ast.Mult):
        return _is_seq(e.left, env) or _is_seq(e.right, env)
    if isinstance(e, ast.IfExp):
        return _is_seq(e.body, env) or _is_seq(e.orelse, env)
    if isinstance(e, ast.Name) and env is not None:
        return e.id in env.seq
    return False


def _slice(s: ast.AST, env: Env) -> str:
    if isinstance(s, ast.Slice):
        parts = ["" if p is None else str(_sym(p, env)) for p in (s.lower, s.upper)]
        if s.step is not None:
            parts.append(str(_sym(s.step, env)))
        return ":".join(parts)
    if isinstance(s, ast.Tuple):
        return ", ".join(_slice(x, env) for x in s.elts)
    return str(_sym(s, env))


# ---------------------------------------------------------------------------------------------
# flow-sensitive forward propagation (straight-line code; joins kill disagreeing names)

def _assigned_names(stmts) -> Set[str]:
    out: Set[str] = set()
    for st in stmts:
        for n in ast.walk(st):
            if isinstance(n, (ast.FunctionDef, ast.AsyncFunctionDef, ast.Lambda, ast.ClassDef)) and n is not st:
                continue
            if isinstance(n, ast.Name) and isinstance(n.ctx, (ast.Store, ast.Del)):
                out.add(n.id)
    return out


def forward(fn_node: ast.AST, base: Optional[Env] = None, init: Optional[Dict[str, "Poly"]] = None) -> Dict[int, Env]:
    """id(stmt) -> environment holding the symbolic value of every local name *before* that statement.
    Names whose value is not a single known expression at that point (loop-carried, disagreeing branches)
    are atoms named after themselves."""
    snaps: Dict[int, Env] = {}
    start = Env(rename=(base.rename if base else None))
    if base is not None:
        start.keep |= base.keep
        start.resolver = base.resolver
        start.inline_depth = base.inline_depth
    if init:
        start.values.update(init)

    def bind(env: Env, target: ast.AST, value: Optional[ast.AST], value_poly: Optional[Poly] = None):
        if isinstance(target, ast.Name):
            if value is not None and _is_seq(value, env):
                env.seq.add(target.id)
            elif value is not None:
                env.seq.discard(target.id)
            if value_poly is not None:
                env.values[target.id] = value_poly
            elif value is not None:
                env.values[target.id] = _sym(value, env)
            else:
                env.values[target.id] = Poly.atom(target.id)
        elif isinstance(target, (ast.Tuple, ast.List)):
            if isinstance(value, (ast.Tuple, ast.List)) and len(value.elts) == len(target.elts):
                polys = [_sym(v, env) for v in value.elts]
                for t, pv in zip(target.elts, polys):
                    bind(env, t, None, pv)
            elif value is not None:
                whole = _sym(value, env)
                for i, t in enumerate(target.elts):
                    bind(env, t, None, Poly.atom("%s[%d]" % (whole, i)))
            else:
                for t in target.elts:
                    bind(env, t, None)
        elif isinstance(target, ast.Starred):
            bind(env, target.value, None)

    def kill(env: Env, names):
        for n in names:
            env.values[n] = Poly.atom(env.rename.get(n, n))

    def merge(env: Env, branches: List[Env], names, test: Optional[ast.AST] = None, test_env: Optional[Env] = None):
        for n in names:
            vals = [b.values.get(n) for b in branches]
            if all(v is not None and v == vals[0] for v in vals):
                env.values[n] = vals[0]
            elif test is not None and len(vals) == 2 and all(v is not None for v in vals):
                env.values[n] = _ite(_sym(test, test_env or env), vals[0], vals[1])
                if n in branches[0].seq and n in branches[1].seq:
                    env.seq.add(n)
            else:
                env.values[n] = Poly.atom(env.rename.get(n, n))

    def run(stmts, env: Env) -> Env:
        for st in stmts:
            snaps[id(st)] = env.copy()
            if isinstance(st, ast.Assign):
                # evaluate once, bind all targets
                for t in st.targets:
                    bind(env, t, st.value)
            elif isinstance(st, ast.AnnAssign):
                if st.value is not None:
                    bind(env, st.target, st.value)
            elif isinstance(st, ast.AugAssign):
                if isinstance(st.target, ast.Name):
                    env.values[st.target.id] = _sym(ast.BinOp(left=ast.Name(id=st.target.id, ctx=ast.Load()),
                                                             op=st.op, right=st.value), env)
            elif isinstance(st, ast.If):
                names = _assigned_names(st.body) | _assigned_names(st.orelse)
                before = env.copy()
                e1 = run(st.body, env.copy())
                e2 = run(st.orelse, env.copy())
                # a name assigned in one branch only keeps its previous value in the other
                for n in names:
                    for e_ in (e1, e2):
                        if n not in e_.values and n in before.values:
                            e_.values[n] = before.values[n]
                from .astutil import ends_abruptly as _abrupt
                if _abrupt(st.body) and not _abrupt(st.orelse):
                    for n in names:
                        if n in e2.values:
                            env.values[n] = e2.values[n]
                        else:
                            env.values[n] = Poly.atom(env.rename.get(n, n))
                elif st.orelse and _abrupt(st.orelse) and not _abrupt(st.body):
                    for n in names:
                        if n in e1.values:
                            env.values[n] = e1.values[n]
                        else:
                            env.values[n] = Poly.atom(env.rename.get(n, n))
                else:
                    merge(env, [e1, e2], names, st.test, before)
            elif isinstance(st, (ast.For, ast.AsyncFor)) and _accumulator(st, env) is not None:
                acc, comp = _accumulator(st, env)
                loop_env = env.copy()
                kill(loop_env, _assigned_names(st.body) | _assigned_names([st.target]))
                run(st.body, loop_env)
                kill(env, (_assigned_names(st.body) | _assigned_names([st.target])) - {acc})
                env.values[acc] = comp
                env.seq.add(acc)
            elif isinstance(st, (ast.For, ast.AsyncFor)) and _fold_accumulator(st, env) is not None:
                acc, folded = _fold_accumulator(st, env)
                loop_env = env.copy()
                kill(loop_env, _assigned_names(st.body) | _assigned_names([st.target]))
                run(st.body, loop_env)
                kill(env, (_assigned_names(st.body) | _assigned_names([st.target])) - {acc})
                env.values[acc] = folded
            elif isinstance(st, (ast.For, ast.AsyncFor, ast.While)):
                names = _assigned_names(st.body) | (_assigned_names([st.target]) if hasattr(st, "target") else set())
                loop_env = env.copy()
                kill(loop_env, names)
                if hasattr(st, "target"):
                    pass  # loop variables stay atoms named after themselves
                run(st.body, loop_env)
                kill(env, names)
                if st.orelse:
                    run(st.orelse, env)
            elif isinstance(st, (ast.With, ast.AsyncWith)):
                for it in st.items:
                    if it.optional_vars is not None:
                        bind(env, it.optional_vars, None)
                run(st.body, env)
            elif isinstance(st, ast.Try):
                names = _assigned_names(st.body)
                run(st.body, env)
                for h in st.handlers:
                    henv = env.copy()
                    kill(henv, names)
                    run(h.body, henv)
                    names |= _assigned_names(h.body)
                kill(env, names)
                run(st.orelse, env)
                run(st.finalbody, env)
            elif isinstance(st, (ast.FunctionDef, ast.AsyncFunctionDef, ast.ClassDef)):
                env.values[st.name] = Poly.atom(st.name)
        return env

    body = fn_node.body if not isinstance(fn_node, ast.Lambda) else []
    run(body, start)
    return snaps


def _accumulator(st: ast.For, env: Env):
    """for T in XS: [if C:] acc.append(E)   with acc currently the empty list  ->  (acc, normal form of [E for T in XS if C]);
    also  acc.extend(E)  ->  the flattened comprehension, and  acc += [E]."""
    if st.orelse or not st.body:
        return None
    # an inner accumulator  v = []; for T2 in YS: [if C:] v.append(E2)   is the per-iteration local  v = [E2 for T2 in YS if C]
    body = list(st.body)
    k = 0
    while k + 1 < len(body):
        a0, a1 = body[k], body[k + 1]
        if isinstance(a0, ast.Assign) and len(a0.targets) == 1 and isinstance(a0.targets[0], ast.Name) and isinstance(a0.value, ast.List) and not a0.value.elts and \
                isinstance(a1, ast.For) and not a1.orelse and len(a1.body) == 1:
            v = a0.targets[0].id
            x = a1.body[0]
            cs = []
            while isinstance(x, ast.If) and not x.orelse and len(x.body) == 1:
                cs.append(x.test)
                x = x.body[0]
            if isinstance(x, ast.Expr) and isinstance(x.value, ast.Call) and isinstance(x.value.func, ast.Attribute) and x.value.func.attr == "append" and \
                    isinstance(x.value.func.value, ast.Name) and x.value.func.value.id == v and len(x.value.args) == 1 and \
                    not any(isinstance(n, ast.Name) and n.id == v for n in ast.walk(x.value.args[0])):
                comp = ast.ListComp(elt=x.value.args[0], generators=[ast.comprehension(target=a1.target, iter=a1.iter, ifs=cs, is_async=0)])
                body[k:k + 2] = [ast.Assign(targets=[ast.Name(id=v, ctx=ast.Store())], value=comp, lineno=a0.lineno, col_offset=a0.col_offset)]
                continue
        k += 1
    if body != list(st.body):
        import copy as _copy0
        st = _copy0.copy(st)
        st.body = body
    # leading per-iteration locals (NAME = EXPR) are substituted into the element
    pre = []
    for b in st.body[:-1]:
        if isinstance(b, ast.Assign) and len(b.targets) == 1 and isinstance(b.targets[0], ast.Name):
            pre.append((b.targets[0].id, b.value))
        else:
            return None
    inner = st.body[-1]
    # if C: acc.append(A) else: acc.append(B)   ->   acc.append(A if C else B)
    if isinstance(inner, ast.If) and len(inner.body) == 1 and len(inner.orelse) == 1:
        def _app(x):
            if isinstance(x, ast.Expr) and isinstance(x.value, ast.Call) and isinstance(x.value.func, ast.Attribute) and x.value.func.attr == "append" and \
                    isinstance(x.value.func.value, ast.Name) and len(x.value.args) == 1:
                return x.value.func.value.id, x.value.args[0]
            return None
        a_, b_ = _app(inner.body[0]), _app(inner.orelse[0])
        if a_ and b_ and a_[0] == b_[0]:
            inner = ast.Expr(value=ast.Call(func=ast.Attribute(value=ast.Name(id=a_[0], ctx=ast.Load()), attr="append", ctx=ast.Load()),
                                            args=[ast.IfExp(test=inner.test, body=a_[1], orelse=b_[1])], keywords=[]))
    conds = []
    while isinstance(inner, ast.If) and not inner.orelse and len(inner.body) == 1:
        conds.append(inner.test)
        inner = inner.body[0]
    elt, acc, flat = None, None, False
    if isinstance(inner, ast.Expr) and isinstance(inner.value, ast.Call) and isinstance(inner.value.func, ast.Attribute) and \
            isinstance(inner.value.func.value, ast.Name) and inner.value.func.attr in ("append", "extend") and len(inner.value.args) == 1:
        acc, elt, flat = inner.value.func.value.id, inner.value.args[0], inner.value.func.attr == "extend"
    elif isinstance(inner, ast.AugAssign) and isinstance(inner.op, ast.Add) and isinstance(inner.target, ast.Name) and isinstance(inner.value, ast.List) and len(inner.value.elts) == 1:
        acc, elt = inner.target.id, inner.value.elts[0]
    if acc is None or str(env.values.get(acc)) != "[]":
        return None
    if any(isinstance(n, ast.Name) and n.id == acc for n in ast.walk(elt)):
        return None
    if pre:
        class _Sub(ast.NodeTransformer):
            def __init__(self, m):
                self.m = m

            def visit_Name(self, node):
                if isinstance(node.ctx, ast.Load) and node.id in self.m:
                    return self.m[node.id]
                return node
        import copy as _copy
        m = {}
        for nm, ex in pre:
            m[nm] = _Sub(dict(m)).visit(_copy.deepcopy(ex))
        elt = _Sub(m).visit(_copy.deepcopy(elt))
        conds = [_Sub(m).visit(_copy.deepcopy(c)) for c in conds]
    txt = _comp(elt, [(st.target, st.iter, conds)], env)
    if flat:
        txt = "flatten(%s)" % txt
    return acc, Poly.atom(txt)


def _fold_accumulator(st: ast.For, env: Env):
    """for T in XS: [if C:] acc = acc + E  (or acc += E)  with acc holding a known value  ->  (acc, normal form of
    reduce(lambda acc, T: acc + E if C else acc, XS, <initial value>)): the explicit loop and the fold have one normal form"""
    if st.orelse or len(st.body) != 1 or not isinstance(st.target, ast.Name):
        return None
    inner = st.body[0]
    conds = []
    while isinstance(inner, ast.If) and not inner.orelse and len(inner.body) == 1:
        conds.append(inner.test)
        inner = inner.body[0]
    acc, step = None, None
    if isinstance(inner, ast.AugAssign) and isinstance(inner.op, ast.Add) and isinstance(inner.target, ast.Name) and not isinstance(inner.value, ast.List):
        acc, step = inner.target.id, inner.value
    elif isinstance(inner, ast.Assign) and len(inner.targets) == 1 and isinstance(inner.targets[0], ast.Name) and isinstance(inner.value, ast.BinOp) and isinstance(inner.value.op, ast.Add):
        a = inner.targets[0].id
        if isinstance(inner.value.left, ast.Name) and inner.value.left.id == a:
            acc, step = a, inner.value.right
        elif isinstance(inner.value.right, ast.Name) and inner.value.right.id == a:
            acc, step = a, inner.value.left
    if acc is None or acc not in env.values or acc == st.target.id:
        return None
    init = env.values[acc]
    if init.const_value() is None:
        return None            # only folds that start from a literal number (sums, counts)
    if any(isinstance(n, ast.Name) and n.id == acc for n in ast.walk(step)) or any(isinstance(n, ast.Name) and n.id == acc for c in conds for n in ast.walk(c)):
        return None
    body: ast.AST = ast.BinOp(left=ast.Name(id=acc, ctx=ast.Load()), op=ast.Add(), right=step)
    if conds:
        test = conds[0] if len(conds) == 1 else ast.BoolOp(op=ast.And(), values=conds)
        body = ast.IfExp(test=test, body=body, orelse=ast.Name(id=acc, ctx=ast.Load()))
    lam = ast.Lambda(args=ast.arguments(posonlyargs=[], args=[ast.arg(arg=acc), ast.arg(arg=st.target.id)], kwonlyargs=[], kw_defaults=[], defaults=[]), body=body)
    call = ast.Call(func=ast.Name(id="reduce", ctx=ast.Load()), args=[lam, st.iter, ast.Constant(value=init.const_value())], keywords=[])
    ast.fix_missing_locations(call)
    return acc, _sym(call, env)


def sym_at(snaps: Dict[int, Env], stmt: ast.stmt, e: ast.AST) -> Poly:
    """Normal form of expression e evaluated just before statement stmt."""
    return _sym(e, snaps[id(stmt)])


# ---------------------------------------------------------------------------------------------
# canonical conditions: the proposition "test evaluates to polarity" as a set of canonical literal strings (a conjunction),
# with negations pushed inwards, comparisons oriented, and emptiness idioms unified

_NEG_CMP = {"==": "!=", "!=": "==", "<": ">=", "<=": ">", ">": "<=", ">=": "<", "is": "is not", "is not": "is", "in": "not in", "not in": "in"}


def cond_literals(test: ast.AST, polarity: bool, env: Optional[Env] = None) -> List[str]:
    env = env or Env()
    if isinstance(test, ast.UnaryOp) and isinstance(test.op, ast.Not):
        return cond_literals(test.operand, not polarity, env)
    if isinstance(test, ast.BoolOp):
        if isinstance(test.op, ast.And) and polarity:
            out = []
            for v in test.values:
                out += cond_literals(v, True, env)
            return sorted(set(out))
        if isinstance(test.op, ast.Or) and not polarity:
            out = []
            for v in test.values:
                out += cond_literals(v, False, env)
            return sorted(set(out))
        # a disjunction: one opaque literal made of its sorted members
        members = sorted("&".join(cond_literals(v, polarity if isinstance(test.op, ast.Or) else polarity, env)) for v in test.values)
        return ["(" + (" | " if (isinstance(test.op, ast.Or) == polarity) else " & ").join(members) + ")"] if polarity == isinstance(test.op, ast.Or) else \
            ["(" + " | ".join(sorted("&".join(cond_literals(v, False, env)) for v in test.values)) + ")"]
    if isinstance(test, ast.Compare) and len(test.ops) == 1:
        o = _CMP.get(type(test.ops[0]), type(test.ops[0]).__name__)
        a, b = _sym(test.left, env), _sym(test.comparators[0], env)
        if not polarity:
            o = _NEG_CMP.get(o, "not " + o)
        # emptiness idioms: len(x) == 0 / len(x) < 1 / not x  -> empty(x);  len(x) > 0 / != 0 / >= 1 / x -> nonempty(x)
        sa, sb = str(a), str(b)
        for l, r, oo in ((sa, sb, o), (sb, sa, {"<": ">", ">": "<", "<=": ">=", ">=": "<="}.get(o, o))):
            if l.startswith("len(") and l.endswith(")") and r in ("0", "1"):
                x = l[4:-1]
                if (r == "0" and oo in ("==", "<=")) or (r == "1" and oo == "<"):
                    return ["empty(%s)" % x]
                if (r == "0" and oo in ("!=", ">")) or (r == "1" and oo == ">="):
                    return ["nonempty(%s)" % x]
        if o in (">", ">="):
            a, b, o = b, a, {">": "<", ">=": "<="}[o]
        if o in ("==", "!=", "is", "is not") and str(b) < str(a):
            a, b = b, a
        if o == "is":
            o = "=="
        if o == "is not":
            o = "!="
        return ["(%s %s %s)" % (a, o, b)]
    t = str(_sym(test, env))
    if polarity:
        parts = _split_top(t, " and ")
        if len(parts) > 1:
            return sorted(set(parts))
    else:
        parts = _split_top(t, " or ")
        if len(parts) > 1:
            return sorted(set(_negate_text(x) for x in parts))
    return [t if polarity else _negate_text(t)]


def _negate_text(t: str) -> str:
    if t.startswith("not(") and t.endswith(")") and _balanced(t[4:-1]):
        return t[4:-1]
    return "not(%s)" % t


def _balanced(t: str) -> bool:
    d = 0
    for ch in t:
        if ch in "([{":
            d += 1
        elif ch in ")]}":
            d -= 1
            if d < 0:
                return False
    return d == 0


def _split_top(t: str, sep: str) -> List[str]:
    """split "(a SEP b SEP c)" at its top-level separators (the form _sym gives a BoolOp); [] / [t] otherwise"""
    if not (t.startswith("(") and t.endswith(")") and _balanced(t[1:-1])):
        return [t]
    inner = t[1:-1]
    out, d, cur, i = [], 0, "", 0
    while i < len(inner):
        ch = inner[i]
        if ch in "([{":
            d += 1
        elif ch in ")]}":
            d -= 1
        if d == 0 and inner.startswith(sep, i):
            out.append(cur)
            cur = ""
            i += len(sep)
            continue
        cur += ch
        i += 1
    out.append(cur)
    return out if len(out) > 1 else [t]


def cond_set(guards, env_of=None) -> List[str]:
    """canonical conjunction of a list of (test, polarity) guards"""
    out = []
    for t, pol in guards:
        out += cond_literals(t, pol, env_of(t) if env_of else None)
    return sorted(set(out))
