"""E5 -- DSL term normaliser: turns the expression trees of the straight-line gadget builders (core/cnf.py) and of the
Tseitin cases / rewrite rules (logic.py) into finite clause / formula templates, and compares templates with gate
specifications by truth table.

This is term rewriting on syntax trees: pure expressions only (constructors of the two tiny algebras, their
operators, list literals / concatenation / map / comprehension over *literal* lists of metavariables, lambda
application, cast).  No statement-level control flow is interpreted here except a type dispatch
`if isinstance(other, T): return ...` used to read an operator's meaning off its dunder method; no loop is unrolled
and no repository function other than those operator methods / static helpers is entered.  Anything outside the
fragment raises AnalysisError.
"""
from __future__ import annotations

import ast
import itertools
from typing import Any, Callable, Dict, List, Optional, Sequence, Tuple

from .model import AnalysisError, ClassInfo, FunctionInfo, Repo


# ------------------------------------------------------------------------------------------------- values
class Lit:
    __slots__ = ("name", "neg")

    def __init__(self, name: str, neg: bool = False):
        self.name, self.neg = name, neg

    def __invert__(self):
        return Lit(self.name, not self.neg)

    def __eq__(self, o):
        return isinstance(o, Lit) and (self.name, self.neg) == (o.name, o.neg)

    def __hash__(self):
        return hash((self.name, self.neg))

    def __repr__(self):
        return ("~" if self.neg else "") + self.name


class ClauseV:
    def __init__(self, lits: Sequence[Lit]):
        self.lits = list(lits)

    def __repr__(self):
        return "(" + " | ".join(map(repr, self.lits)) + ")"


class CNFV:
    def __init__(self, clauses: Sequence[ClauseV]):
        self.clauses = list(clauses)

    def __repr__(self):
        return "[" + " & ".join(map(repr, self.clauses)) + "]"


class Formula:
    """logic.py namedtuples: kind in {and, or, not, if, iff}; a variable is a Lit"""

    def __init__(self, kind: str, args: list):
        self.kind, self.args = kind, args

    def __repr__(self):
        return "%s(%s)" % (self.kind.capitalize(), ", ".join(map(repr, self.args)))


class Closure:
    def __init__(self, params: List[str], body: ast.AST, env: Dict[str, Any]):
        self.params, self.body, self.env = params, body, env


class Builtin:
    def __init__(self, name):
        self.name = name


class NoneV:
    def __repr__(self):
        return "None"


NONE = NoneV()


def type_of(v) -> str:
    if isinstance(v, Lit):
        return "Var"
    if isinstance(v, ClauseV):
        return "Clause"
    if isinstance(v, CNFV):
        return "CNF"
    if isinstance(v, list):
        return "list"
    if isinstance(v, tuple):
        return "tuple"
    if isinstance(v, Formula):
        return {"and": "And", "or": "Or", "not": "Not", "if": "If", "iff": "Iff"}[v.kind]
    if isinstance(v, int):
        return "int"
    if v is NONE:
        return "None"
    return type(v).__name__


# ------------------------------------------------------------------------------------------------- evaluator
class TermEval:
    def __init__(self, repo: Repo):
        self.repo = repo
        self.cnfmod = repo.module("cnf")
        self.var_cls = self.cnfmod.classes.get("Var")
        self.clause_cls = self.cnfmod.classes.get("Clause")
        self.cnf_cls = self.cnfmod.classes.get("CNF")
        if not (self.var_cls and self.clause_cls and self.cnf_cls):
            raise AnalysisError("core/cnf.py: Var/Clause/CNF classes not found")
        self.depth = 0
        self.used_methods: Dict[str, str] = {}

    # ---- construction ------------------------------------------------------------------------
    def mk_clause(self, args: list) -> ClauseV:
        """Clause(*values) | Clause([values]) -- SimpleSequence.__init__ semantics"""
        if len(args) == 1 and isinstance(args[0], (list, tuple)):
            args = list(args[0])
        out = []
        for a in args:
            if isinstance(a, Lit):
                out.append(a)
            else:
                raise AnalysisError("Clause(...) of a %s" % type_of(a))
        return ClauseV(out)

    def mk_cnf(self, args: list) -> CNFV:
        if len(args) == 1 and isinstance(args[0], (list, tuple)):
            args = list(args[0])
        out = []
        for a in args:
            if isinstance(a, ClauseV):
                out.append(a)
            elif isinstance(a, (list, tuple)):
                out.append(self.mk_clause([list(a)]))
            elif isinstance(a, Lit):
                out.append(ClauseV([a]))     # _construct_element: Clause(value)
            else:
                raise AnalysisError("CNF(...) of a %s" % type_of(a))
        return CNFV(out)

    # ---- operators: meaning read off the dunder methods --------------------------------------
    _OPS = {ast.BitOr: ("__or__", "__ror__"), ast.BitAnd: ("__and__", "__rand__"), ast.BitXor: ("__xor__", "__rxor__"),
            ast.Mod: ("__mod__", "__rmod__"), ast.Add: ("__add__", "__radd__"), ast.Pow: ("__pow__", "__rpow__")}

    def cls_of(self, v) -> Optional[ClassInfo]:
        return {"Var": self.var_cls, "Clause": self.clause_cls, "CNF": self.cnf_cls}.get(type_of(v))

    def binop(self, op, l, r):
        if isinstance(op, ast.Add) and isinstance(l, list) and isinstance(r, list):
            return l + r
        if isinstance(l, int) and isinstance(r, int):
            if isinstance(op, ast.Add):
                return l + r
            if isinstance(op, ast.Sub):
                return l - r
            if isinstance(op, ast.Mult):
                return l * r
        names = self._OPS.get(type(op))
        if names is None:
            raise AnalysisError("operator %s outside the DSL" % type(op).__name__)
        lc, rc = self.cls_of(l), self.cls_of(r)
        if lc is not None and lc.lookup(names[0]) is not None:
            res = self.call_method(lc.lookup(names[0]), l, [r])
            if res is not NotImplemented:
                return res
        if rc is not None and rc.lookup(names[1]) is not None:
            res = self.call_method(rc.lookup(names[1]), r, [l])
            if res is not NotImplemented:
                return res
        raise AnalysisError("no %s/%s for %s and %s" % (names[0], names[1], type_of(l), type_of(r)))

    def call_method(self, f: FunctionInfo, selfv, args: list):
        """Interpret a dunder/static helper: a chain of `if isinstance(x, T): return E` / `if not isinstance(..): x = Var(x)`
        followed by `return E`."""
        self.depth += 1
        if self.depth > 12:
            raise AnalysisError("operator definitions nest too deeply")
        try:
            params = f.params
            env: Dict[str, Any] = {}
            vals = ([selfv] if selfv is not None else []) + list(args)
            if len(vals) != len(params):
                raise AnalysisError("%s: arity mismatch" % f.fq)
            for p, v in zip(params, vals):
                env[p] = v
            self.used_methods[f.fq] = ast.unparse(f.node).split("\n", 1)[0]
            return self.run_simple_body(f, f.node.body, env)
        finally:
            self.depth -= 1

    def run_simple_body(self, f: FunctionInfo, stmts, env):
        for st in stmts:
            if isinstance(st, ast.Expr) and isinstance(st.value, ast.Constant):
                continue
            if isinstance(st, ast.Return):
                if isinstance(st.value, ast.Name) and st.value.id == "NotImplemented":
                    return NotImplemented
                return self.eval(st.value, env, f)
            if isinstance(st, ast.If):
                c = self.cond(st.test, env, f)
                branch = st.body if c else st.orelse
                r = self.run_simple_body(f, branch, env)
                if r is not None:
                    return r
                continue
            if isinstance(st, ast.Assign) and len(st.targets) == 1 and isinstance(st.targets[0], ast.Name):
                env[st.targets[0].id] = self.eval(st.value, env, f)
                continue
            raise AnalysisError("%s: statement outside the operator fragment: %s" % (f.fq, ast.unparse(st).split("\n")[0]))
        return None

    def cond(self, t: ast.AST, env, f) -> bool:
        if isinstance(t, ast.UnaryOp) and isinstance(t.op, ast.Not):
            return not self.cond(t.operand, env, f)
        if isinstance(t, ast.Call) and isinstance(t.func, ast.Name) and t.func.id == "isinstance" and len(t.args) == 2:
            v = self.eval(t.args[0], env, f)
            names = [ast.unparse(e) for e in (t.args[1].elts if isinstance(t.args[1], ast.Tuple) else [t.args[1]])]
            return type_of(v) in names
        if isinstance(t, ast.Name):
            v = env.get(t.id)
            return not (v is NONE or v is None)
        raise AnalysisError("%s: condition outside the fragment: %s" % (f.fq if f else "?", ast.unparse(t)))

    # ---- expressions ---------------------------------------------------------------------------
    def eval(self, e: ast.AST, env: Dict[str, Any], f: Optional[FunctionInfo] = None):
        if isinstance(e, ast.Name):
            if e.id in env:
                return env[e.id]
            if e.id in ("Var", "Clause", "CNF", "And", "Or", "Not", "If", "Iff", "list", "map", "cast", "tuple", "reversed"):
                return Builtin(e.id)
            if e.id == "None":
                return NONE
            raise AnalysisError("free name '%s' in a DSL expression" % e.id)
        if isinstance(e, ast.Constant):
            if e.value is None:
                return NONE
            if isinstance(e.value, int):
                return e.value
            raise AnalysisError("constant %r in a DSL expression" % (e.value,))
        if isinstance(e, ast.UnaryOp):
            v = self.eval(e.operand, env, f)
            if isinstance(e.op, ast.Invert):
                c = self.cls_of(v)
                if c is not None and c.lookup("__invert__") is not None:
                    return self.call_method(c.lookup("__invert__"), v, [])
                raise AnalysisError("~ applied to a %s" % type_of(v))
            if isinstance(e.op, ast.USub):
                if isinstance(v, Lit):
                    return ~v          # -self._val : the integer payload of a Var, sign flipped
                if isinstance(v, int):
                    return -v
            raise AnalysisError("unary operator outside the DSL: %s" % ast.unparse(e))
        if isinstance(e, ast.BinOp):
            return self.binop(e.op, self.eval(e.left, env, f), self.eval(e.right, env, f))
        if isinstance(e, (ast.List, ast.Tuple)):
            out = []
            for x in e.elts:
                if isinstance(x, ast.Starred):
                    out.extend(self.seq(self.eval(x.value, env, f)))
                else:
                    out.append(self.eval(x, env, f))
            return out if isinstance(e, ast.List) else tuple(out)
        if isinstance(e, ast.Attribute):
            v = self.eval(e.value, env, f)
            if e.attr == "_val" and isinstance(v, Lit):
                return v               # the integer payload; only negation / Var(...) may consume it
            if e.attr == "_vals" and isinstance(v, (ClauseV, CNFV)):
                return list(self.seq(v))
            if e.attr == "input_list" and isinstance(v, Formula) and v.kind in ("and", "or"):
                return v.args[0]
            if isinstance(v, Formula) and e.attr in ("p", "q", "c"):
                idx = {"p": 0, "q": 1, "c": 0}[e.attr]
                return v.args[idx]
            if isinstance(e.value, ast.Name) and e.value.id == "CNF":
                c = self.cnf_cls.lookup(e.attr)
                if c is not None:
                    return c
            raise AnalysisError("attribute .%s of a %s outside the DSL" % (e.attr, type_of(v)))
        if isinstance(e, ast.Subscript):
            v = self.eval(e.value, env, f)
            s = self.seq(v)
            if isinstance(e.slice, ast.Slice):
                lo = self.eval(e.slice.lower, env, f) if e.slice.lower is not None else None
                hi = self.eval(e.slice.upper, env, f) if e.slice.upper is not None else None
                if e.slice.step is not None:
                    raise AnalysisError("stepped slice in a DSL expression")
                part = s[lo:hi]
                if isinstance(v, ClauseV):
                    return ClauseV(part)
                if isinstance(v, CNFV):
                    return CNFV(part)
                return part
            i = self.eval(e.slice, env, f)
            if not isinstance(i, int):
                raise AnalysisError("non-constant subscript in a DSL expression")
            return s[i]
        if isinstance(e, ast.Lambda):
            return Closure([a.arg for a in e.args.args], e.body, dict(env))
        if isinstance(e, (ast.ListComp, ast.GeneratorExp)):
            if len(e.generators) != 1 or e.generators[0].ifs:
                raise AnalysisError("comprehension outside the DSL fragment: %s" % ast.unparse(e))
            g = e.generators[0]
            src = self.seq(self.eval(g.iter, env, f))
            out = []
            for item in src:
                env2 = dict(env)
                self.bind(g.target, item, env2)
                out.append(self.eval(e.elt, env2, f))
            return out
        if isinstance(e, ast.Call):
            return self.call(e, env, f)
        raise AnalysisError("expression outside the DSL fragment: %s" % ast.unparse(e))

    def bind(self, target, value, env):
        if isinstance(target, ast.Name):
            env[target.id] = value
        elif isinstance(target, (ast.Tuple, ast.List)):
            vs = self.seq(value)
            if len(vs) != len(target.elts):
                raise AnalysisError("unpacking arity mismatch")
            for t, v in zip(target.elts, vs):
                self.bind(t, v, env)
        else:
            raise AnalysisError("binding target outside the fragment")

    def seq(self, v) -> list:
        if isinstance(v, (list, tuple)):
            return list(v)
        if isinstance(v, ClauseV):
            return list(v.lits)
        if isinstance(v, CNFV):
            return list(v.clauses)
        raise AnalysisError("a %s is not a sequence" % type_of(v))

    def apply(self, fn, args: list, f):
        if isinstance(fn, Closure):
            env2 = dict(fn.env)
            if len(args) != len(fn.params):
                raise AnalysisError("lambda arity mismatch")
            for p, a in zip(fn.params, args):
                env2[p] = a
            return self.eval(fn.body, env2, f)
        if isinstance(fn, Builtin):
            n = fn.name
            if n == "Var":
                if len(args) == 1 and isinstance(args[0], Lit):
                    return args[0]
                raise AnalysisError("Var(...) of a %s" % type_of(args[0]))
            if n == "Clause":
                return self.mk_clause(args)
            if n == "CNF":
                return self.mk_cnf(args)
            if n in ("And", "Or"):
                if len(args) != 1 or not isinstance(args[0], list):
                    raise AnalysisError("%s(...) expects one list" % n)
                return Formula(n.lower(), [list(args[0])])
            if n == "Not":
                return Formula("not", [args[0]])
            if n in ("If", "Iff"):
                return Formula(n.lower(), list(args))
            if n in ("list", "tuple"):
                return list(self.seq(args[0])) if args else []
            if n == "reversed":
                return list(reversed(self.seq(args[0])))
            if n == "cast":
                return args[1]
            if n == "map":
                return [self.apply(args[0], [x], f) for x in self.seq(args[1])]
        if isinstance(fn, FunctionInfo):
            return self.call_method(fn, None, args)
        raise AnalysisError("call of a %s in a DSL expression" % type(fn).__name__)

    def call(self, e: ast.Call, env, f):
        if e.keywords:
            raise AnalysisError("keyword arguments in a DSL expression: %s" % ast.unparse(e))
        if isinstance(e.func, ast.Name) and e.func.id == "cast" and len(e.args) == 2 and "cast" not in env:
            return self.eval(e.args[1], env, f)      # typing.cast(T, x) is x; T is not an expression of the DSL
        args = []
        for a in e.args:
            if isinstance(a, ast.Starred):
                args.extend(self.seq(self.eval(a.value, env, f)))
            else:
                args.append(self.eval(a, env, f))
        fn = self.eval(e.func, env, f)
        return self.apply(fn, args, f)


# ------------------------------------------------------------------------------------------------- truth tables
def clause_holds(c: ClauseV, asg: Dict[str, bool]) -> bool:
    return any(asg[l.name] != l.neg for l in c.lits)


def formula_value(t, asg: Dict[str, bool]) -> bool:
    if isinstance(t, Lit):
        return asg[t.name] != t.neg
    if isinstance(t, Formula):
        if t.kind == "and":
            return all(formula_value(x, asg) for x in t.args[0])
        if t.kind == "or":
            return any(formula_value(x, asg) for x in t.args[0])
        if t.kind == "not":
            return not formula_value(t.args[0], asg)
        if t.kind == "if":
            return (not formula_value(t.args[0], asg)) or formula_value(t.args[1], asg)
        if t.kind == "iff":
            return formula_value(t.args[0], asg) == formula_value(t.args[1], asg)
    raise AnalysisError("cannot evaluate %r" % (t,))


def defines(clauses: List[ClauseV], inputs: List[str], outputs: List[str], spec: Callable[[Dict[str, bool]], Dict[str, bool]]):
    """For every assignment of the inputs the clause table must be satisfied by exactly one assignment of the outputs,
    namely spec(inputs).  Returns None if so, else a counterexample description."""
    names = set(inputs) | set(outputs)
    for c in clauses:
        for l in c.lits:
            if l.name not in names:
                return "clause %r mentions %s, neither input nor output" % (c, l.name)
    for bits in itertools.product([False, True], repeat=len(inputs)):
        asg = dict(zip(inputs, bits))
        sols = []
        for ob in itertools.product([False, True], repeat=len(outputs)):
            a2 = dict(asg)
            a2.update(zip(outputs, ob))
            if all(clause_holds(c, a2) for c in clauses):
                sols.append(dict(zip(outputs, ob)))
        want = spec(asg)
        if len(sols) != 1:
            return "inputs %s: %d output assignments satisfy the clauses (%s), expected exactly %s" % (asg, len(sols), sols, want)
        if sols[0] != want:
            return "inputs %s: clauses force %s, the gate is %s" % (asg, sols[0], want)
    return None


def formulas_as_clauses(fs: list) -> List[ClauseV]:
    """Or([...literals...]) / literal  -> ClauseV (literals: Lit or Not(Lit))"""
    out = []
    for t in fs:
        if isinstance(t, Lit):
            out.append(ClauseV([t]))
            continue
        if isinstance(t, Formula) and t.kind == "or":
            lits = []
            for x in t.args[0]:
                if isinstance(x, Lit):
                    lits.append(x)
                elif isinstance(x, Formula) and x.kind == "not" and isinstance(x.args[0], Lit):
                    lits.append(~x.args[0])
                else:
                    raise AnalysisError("clause member %r is not a literal" % (x,))
            out.append(ClauseV(lits))
            continue
        raise AnalysisError("%r is not a clause" % (t,))
    return out


def equivalent(a, b, names: List[str], project: Sequence[str] = ()) -> Optional[str]:
    """a and b have the same models over `names`; variables in `project` are existentially quantified in both."""
    keep = [n for n in names if n not in project]
    for bits in itertools.product([False, True], repeat=len(keep)):
        asg = dict(zip(keep, bits))

        def ex(t):
            for pb in itertools.product([False, True], repeat=len(project)):
                a2 = dict(asg)
                a2.update(zip(project, pb))
                if formula_value(t, a2):
                    return True
            return False
        if ex(a) != ex(b):
            return "assignment %s: left %s, right %s" % (asg, ex(a), ex(b))
    return None
